#!/bin/bash
# vcheck.sh <Cxx> <quick|thorough>   |  vcheck.sh replay <file>  |  vcheck.sh build
# Rebuilds the checker against /repo's current working tree, then runs it.
set -u
export GOFLAGS=-mod=mod GOPROXY=off GOSUMDB=off GOTOOLCHAIN=local TZ=UTC
V="$(cd "$(dirname "$0")" && pwd)"
export VERIF_DIR="$V"
BIN=$V/.cache/bin
mkdir -p "$BIN" "$V/evidence" "$V/replays" "$V/.cache/tmp"
build() {
  (cd $V/mc && cp -f /repo/go.sum go.sum 2>/dev/null; go build -o "$BIN/vcheck" ./cmd/vcheck) || { echo "BUILD-FAILED: vcheck does not build against /repo" >&2; exit 3; }
}
build_cli() {
  (cd /repo && go build -o "$BIN/platypus" ./cmd/platypus) || { echo "BUILD-FAILED: the platypus CLI does not build" >&2; exit 3; }
}
build_inst() {
  (cd $V/mc && go run ./cmd/mkoverlay "$V/.cache/overlay" >/dev/null && go build -tags verif -overlay "$V/.cache/overlay/overlay.json" -o "$BIN/vcheck-inst" ./cmd/vcheck) || { echo "BUILD-FAILED: instrumented vcheck does not build against /repo" >&2; exit 3; }
}
build_race() {
  (cd $V/mc && go build -race -o "$BIN/vcheck-race" ./cmd/vcheck) || { echo "BUILD-FAILED: -race vcheck does not build against /repo" >&2; exit 3; }
}
case "${1:-}" in
  build) build; build_cli; build_inst; build_race ;;
  C16) build_inst; build_race; exec "$BIN/vcheck-inst" run "$1" "${2:-quick}" ;;
  C09|C14|C15) build_inst; exec "$BIN/vcheck-inst" run "$1" "${2:-quick}" ;;
  C20) build; build_cli; exec "$BIN/vcheck" run "$1" "${2:-quick}" ;;
  replay) case "$(basename "$2")" in C09-*|C14-*|C15-*|C16-*) build_inst; exec "$BIN/vcheck-inst" replay "$2" ;; C20-*) build; build_cli; exec "$BIN/vcheck" replay "$2" ;; *) build; exec "$BIN/vcheck" replay "$2" ;; esac ;;
  *) build; exec "$BIN/vcheck" run "$1" "${2:-quick}" ;;
esac
