// mkoverlay generates the `go build -overlay` description used by the
// instrumented checks (C09, C15, C16) from the CURRENT sources of /repo, so a
// changed source is instrumented as changed. Nothing is written into /repo.
//
// Rewrites (engine E5 of DESIGN.md):
//  1. ordered map ranges in pkg/engine: the two `range` statements over the
//     script maps iterate a harness-supplied order.
//  2. sync shim: in every non-test file of the repo packages that imports
//     "sync", the import becomes an alias of pkg/verifsync, whose Pool makes
//     every Get/Put a hook point with a harness-chosen answer.
//  3. package roots: accessors for package-level variables the harness
//     inspects (pools).
package main

import (
	"encoding/json"
	"fmt"
	goast "go/ast"
	goparser "go/parser"
	"go/token"
	"os"
	"path/filepath"
	"regexp"
	"sort"
	"strings"
)

const repo = "/repo"

type status struct {
	OrderedRanges []string `json:"ordered_ranges"`
	SyncShim      []string `json:"sync_shim_files"`
	AtomicShim    []string `json:"atomic_shim_files"`
	TimerSeam     []string `json:"timer_seam_files"`
	Roots         []string `json:"package_roots"`
	Pools         []string `json:"pools"`
	Missing       []string `json:"missing"`
}

func main() {
	out := "/verif/.cache/overlay"
	if d := os.Getenv("VERIF_DIR"); d != "" {
		out = d + "/.cache/overlay"
	}
	if len(os.Args) > 1 {
		out = os.Args[1]
	}
	_ = os.RemoveAll(out)
	must(os.MkdirAll(out, 0o755))
	replace := map[string]string{}
	st := status{}
	n := 0
	put := func(target, content string) {
		n++
		f := filepath.Join(out, fmt.Sprintf("f%03d_%s", n, filepath.Base(target)))
		must(os.WriteFile(f, []byte(content), 0o644))
		replace[target] = f
	}

	// ---- 1. ordered ranges in pkg/engine
	type rw struct {
		file, re, repl, name string
	}
	rws := []rw{
		{"pkg/engine/engine.go", `for (\w+), (\w+) := range scripts \{`, "for _, $1 := range verifKeys(scripts, 0) {\n\t\t$2 := scripts[$1]", "engine.go:range scripts"},
		{"pkg/engine/callref.go", `for (\w+), (\w+) := range allNg \{`, "for _, $1 := range verifKeys(allNg, 1) {\n\t\t$2 := allNg[$1]", "callref.go:range allNg"},
	}
	for _, r := range rws {
		p := filepath.Join(repo, r.file)
		src, err := os.ReadFile(p)
		if err != nil {
			st.Missing = append(st.Missing, r.name)
			continue
		}
		re := regexp.MustCompile(r.re)
		if len(re.FindAllIndex(src, -1)) != 1 {
			st.Missing = append(st.Missing, r.name)
			continue
		}
		put(p, re.ReplaceAllString(string(src), r.repl))
		st.OrderedRanges = append(st.OrderedRanges, r.name)
	}
	put(filepath.Join(repo, "pkg/engine/verif_order.go"), `//go:build verif

package engine

import "sort"

// VerifOrder, when set, decides the order in which the loader visits a script
// map (site 0: parse/check loop, site 1: link loop). nil = the map's own order.
var VerifOrder func(site int, sortedKeys []string) []string

func verifKeys[T any](m map[string]T, site int) []string {
	keys := make([]string, 0, len(m))
	for k := range m {
		keys = append(keys, k)
	}
	if VerifOrder == nil {
		return keys // Go's own map order, exactly as the unmodified loop
	}
	sort.Strings(keys)
	return VerifOrder(site, keys)
}
`)

	// ---- 2. sync shim
	shimPkg := filepath.Join(repo, "pkg/verifsync/verifsync.go")
	put(shimPkg, shimSource)
	importRe := regexp.MustCompile(`(?m)^(\s*)"sync"\s*$`)
	_ = filepath.Walk(filepath.Join(repo, "pkg"), func(p string, info os.FileInfo, err error) error {
		if err != nil || info.IsDir() || !strings.HasSuffix(p, ".go") || strings.HasSuffix(p, "_test.go") {
			return nil
		}
		if strings.Contains(p, "/verifsync/") {
			return nil
		}
		src, err := os.ReadFile(p)
		if err != nil || !importRe.Match(src) {
			return nil
		}
		if prev, ok := replace[p]; ok {
			// already rewritten (ordered ranges): rewrite the rewritten text
			src, _ = os.ReadFile(prev)
			must(os.WriteFile(prev, []byte(importRe.ReplaceAllString(string(src), `${1}sync "github.com/GuanceCloud/platypus/pkg/verifsync"`)), 0o644))
		} else {
			put(p, importRe.ReplaceAllString(string(src), `${1}sync "github.com/GuanceCloud/platypus/pkg/verifsync"`))
		}
		st.SyncShim = append(st.SyncShim, strings.TrimPrefix(p, repo+"/"))
		return nil
	})

	// ---- 2b. sync/atomic shim: every atomic operation is a scheduling point too (a lock-free
	// check-then-act — Load, then Store — is interleaved by the explorer like a lock would be)
	put(filepath.Join(repo, "pkg/verifatomic/verifatomic.go"), atomicShimSource)
	atomicRe := regexp.MustCompile(`(?m)^(\s*)(?:atomic\s+)?"sync/atomic"\s*$`)
	_ = filepath.Walk(filepath.Join(repo, "pkg"), func(p string, info os.FileInfo, err error) error {
		if err != nil || info.IsDir() || !strings.HasSuffix(p, ".go") || strings.HasSuffix(p, "_test.go") {
			return nil
		}
		if strings.Contains(p, "/verifsync/") || strings.Contains(p, "/verifatomic/") {
			return nil
		}
		path := p
		if prev, ok := replace[p]; ok {
			path = prev
		}
		src, err := os.ReadFile(path)
		if err != nil || !atomicRe.Match(src) {
			return nil
		}
		out := atomicRe.ReplaceAllString(string(src), `${1}atomic "github.com/GuanceCloud/platypus/pkg/verifatomic"`)
		if path != p {
			must(os.WriteFile(path, []byte(out), 0o644))
		} else {
			put(p, out)
		}
		st.AtomicShim = append(st.AtomicShim, strings.TrimPrefix(p, repo+"/"))
		return nil
	})

	// ---- 2c. timer seam: time.AfterFunc goes through the shim, so a callback armed by one operation
	// is something the harness can deliver during a later one (the unchanged tree arms no timers)
	timerRe := regexp.MustCompile(`\btime\.AfterFunc\(`)
	pkgClauseRe := regexp.MustCompile(`(?m)^package\s+\w+\s*$`)
	_ = filepath.Walk(filepath.Join(repo, "pkg"), func(p string, info os.FileInfo, err error) error {
		if err != nil || info.IsDir() || !strings.HasSuffix(p, ".go") || strings.HasSuffix(p, "_test.go") {
			return nil
		}
		if strings.Contains(p, "/verifsync/") || strings.Contains(p, "/verifatomic/") {
			return nil
		}
		path := p
		if prev, ok := replace[p]; ok {
			path = prev
		}
		src, err := os.ReadFile(path)
		if err != nil || !timerRe.Match(src) {
			return nil
		}
		out := timerRe.ReplaceAllString(string(src), "veriftimerpkg.AfterFunc(")
		loc := pkgClauseRe.FindStringIndex(out)
		if loc == nil {
			st.Missing = append(st.Missing, "timer-seam:"+strings.TrimPrefix(p, repo+"/"))
			return nil
		}
		out = out[:loc[1]] + "\n\nimport veriftimerpkg \"github.com/GuanceCloud/platypus/pkg/verifsync\"\n" + out[loc[1]:] + "\nvar _ = time.Now // keeps the import used when AfterFunc was the file's only use of it\n"
		if path != p {
			must(os.WriteFile(path, []byte(out), 0o644))
		} else {
			put(p, out)
		}
		st.TimerSeam = append(st.TimerSeam, strings.TrimPrefix(p, repo+"/"))
		return nil
	})

	// ---- 3. package roots: addresses of all package-level variables + typed pool accessors
	pkgDirs := []string{"pkg/ast", "pkg/token", "pkg/errchain", "pkg/parser", "pkg/engine", "pkg/engine/runtime", "pkg/engine/runtimev2", "pkg/inimpl/guancecloud/funcs", "pkg/inimpl/guancecloud/input"}
	for _, dir := range pkgDirs {
		fset := token.NewFileSet()
		pkgs, err := goparser.ParseDir(fset, filepath.Join(repo, dir), func(fi os.FileInfo) bool { return !strings.HasSuffix(fi.Name(), "_test.go") }, 0)
		if err != nil {
			st.Missing = append(st.Missing, "roots:"+dir)
			continue
		}
		for pname, pkg := range pkgs {
			if strings.HasSuffix(pname, "_test") {
				continue
			}
			var names, pools []string
			isPool := func(e goast.Expr) bool {
				if cl, ok := e.(*goast.CompositeLit); ok {
					e = cl.Type
				}
				sel, ok := e.(*goast.SelectorExpr)
				if !ok {
					return false
				}
				x, ok := sel.X.(*goast.Ident)
				return ok && x.Name == "sync" && sel.Sel.Name == "Pool"
			}
			for _, f := range pkg.Files {
				for _, d := range f.Decls {
					gd, ok := d.(*goast.GenDecl)
					if !ok || gd.Tok != token.VAR {
						continue
					}
					for _, sp := range gd.Specs {
						vs := sp.(*goast.ValueSpec)
						for i, n := range vs.Names {
							if n.Name == "_" {
								continue
							}
							names = append(names, n.Name)
							if (vs.Type != nil && isPool(vs.Type)) || (i < len(vs.Values) && isPool(vs.Values[i])) {
								pools = append(pools, n.Name)
							}
						}
					}
				}
			}
			sort.Strings(names)
			sort.Strings(pools)
			var b strings.Builder
			fmt.Fprintf(&b, "//go:build verif\n\npackage %s\n\n", pname)
			b.WriteString("import verifsyncpkg \"github.com/GuanceCloud/platypus/pkg/verifsync\"\n\n")
			b.WriteString("// VerifPools returns every package-level sync.Pool (discovered by parsing the package).\nfunc VerifPools() map[string]*verifsyncpkg.Pool {\n\treturn map[string]*verifsyncpkg.Pool{\n")
			for _, n := range pools {
				fmt.Fprintf(&b, "\t\t%q: &%s,\n", dir+"."+n, n)
				st.Pools = append(st.Pools, dir+"."+n)
			}
			b.WriteString("\t}\n}\n\n")
			b.WriteString("// VerifRoots returns the address of every package-level variable.\nfunc VerifRoots() map[string]any {\n\treturn map[string]any{\n")
			for _, n := range names {
				fmt.Fprintf(&b, "\t\t%q: &%s,\n", dir+"."+n, n)
			}
			b.WriteString("\t}\n}\n")
			put(filepath.Join(repo, dir, "verif_roots.go"), b.String())
			st.Roots = append(st.Roots, fmt.Sprintf("%s:%d", dir, len(names)))
		}
	}

	raw, _ := json.MarshalIndent(map[string]any{"Replace": replace}, "", " ")
	must(os.WriteFile(filepath.Join(out, "overlay.json"), raw, 0o644))
	sraw, _ := json.MarshalIndent(st, "", " ")
	must(os.WriteFile(filepath.Join(out, "status.json"), sraw, 0o644))
	fmt.Printf("overlay: %d files, ordered ranges %v, sync shim in %d files, missing %v\n", len(replace), st.OrderedRanges, len(st.SyncShim), st.Missing)
}

func must(err error) {
	if err != nil {
		fmt.Fprintln(os.Stderr, "mkoverlay:", err)
		os.Exit(1)
	}
}

// shimSource is the pkg/verifsync package: real sync types re-exported, and a
// Pool whose Get/Put are hook points.
const shimSource = `// Package verifsync replaces "sync" in instrumented builds (never shipped).
package verifsync

import (
	"runtime"
	"sync"
	"sync/atomic"
	"time"
)

type (
	WaitGroup = sync.WaitGroup
	Map       = sync.Map
	Cond      = sync.Cond
	Locker    = sync.Locker
)

// SyncOps counts lock / once operations (a segment that performed one is
// exempt from the shared-write invariant: the write is synchronised).
var SyncOps int64

// ExclOps counts the exclusive ones among them (Mutex.Lock, RWMutex.Lock,
// TryLock, Once.Do): a write performed under read locks only is NOT
// synchronised against another holder of the read lock.
var ExclOps int64

func blocked(label string) {
	if Hooks.Blocked != nil {
		Hooks.Blocked(label)
	} else {
		runtime.Gosched()
	}
}

// Mutex wraps sync.Mutex: Lock is a scheduling point and never blocks the
// cooperative scheduler.
type Mutex struct{ m sync.Mutex }

func (m *Mutex) Lock() {
	atomic.AddInt64(&SyncOps, 1)
	atomic.AddInt64(&ExclOps, 1)
	if Hooks.Point != nil {
		Hooks.Point("lock", nil)
	}
	for !m.m.TryLock() {
		blocked("mutex")
	}
}
func (m *Mutex) Unlock()       { m.m.Unlock() }
func (m *Mutex) TryLock() bool { atomic.AddInt64(&SyncOps, 1); atomic.AddInt64(&ExclOps, 1); return m.m.TryLock() }

type RWMutex struct{ m sync.RWMutex }

func (m *RWMutex) Lock() {
	atomic.AddInt64(&SyncOps, 1)
	atomic.AddInt64(&ExclOps, 1)
	if Hooks.Point != nil {
		Hooks.Point("lock", nil)
	}
	for !m.m.TryLock() {
		blocked("rwmutex")
	}
}
func (m *RWMutex) Unlock() { m.m.Unlock() }
func (m *RWMutex) RLock() {
	atomic.AddInt64(&SyncOps, 1)
	if Hooks.Point != nil {
		Hooks.Point("rlock", nil)
	}
	for !m.m.TryRLock() {
		blocked("rwmutex-r")
	}
}
func (m *RWMutex) RUnlock()        { m.m.RUnlock() }
func (m *RWMutex) TryLock() bool   { atomic.AddInt64(&SyncOps, 1); atomic.AddInt64(&ExclOps, 1); return m.m.TryLock() }
func (m *RWMutex) TryRLock() bool  { atomic.AddInt64(&SyncOps, 1); return m.m.TryRLock() }
func (m *RWMutex) RLocker() Locker { return (*rlocker)(m) }

type rlocker RWMutex

func (r *rlocker) Lock()   { (*RWMutex)(r).RLock() }
func (r *rlocker) Unlock() { (*RWMutex)(r).RUnlock() }

// Once wraps sync.Once; Do counts as a synchronisation operation.
type Once struct {
	mu   Mutex
	done bool
}

func (o *Once) Do(f func()) {
	atomic.AddInt64(&SyncOps, 1)
	o.mu.Lock()
	defer o.mu.Unlock()
	if !o.done {
		defer func() { o.done = true }()
		f()
	}
}

// AfterFunc is time.AfterFunc behind a seam: with Hooks.Timer installed the callback is handed to the
// harness (which decides when it is delivered) and the real timer is armed far in the future. The
// returned *time.Timer is a real one, so Stop and Reset work as ever; the harness delivers a callback
// only if Stop() still reports the timer as pending.
func AfterFunc(d time.Duration, f func()) *time.Timer {
	if Hooks.Timer == nil {
		return time.AfterFunc(d, f)
	}
	t := time.AfterFunc(d+1000*time.Hour, f)
	Hooks.Timer(t, d, f)
	return t
}

// Hooks are installed by the harness. All are optional.
var Hooks struct {
	// Timer is told about every time.AfterFunc call of the code under test.
	Timer func(t *time.Timer, d time.Duration, f func())
	// Point is called before every pool / lock operation (a scheduling point).
	Point func(op string, p *Pool)
	// Blocked is called while a lock is held by somebody else.
	Blocked func(label string)
	// Choose picks the answer of a Get: an index into the pooled objects
	// (0 = oldest ... n-1 = most recently put) or n for "call New".
	Choose func(p *Pool, n int) int
	// OnGet / OnPut observe ownership.
	OnGet func(p *Pool, obj any, fresh bool)
	OnPut func(p *Pool, obj any)
}

// Pool has the API of sync.Pool. Without hooks it behaves like a LIFO free
// list (what sync.Pool does on one P without GC).
type Pool struct {
	New func() any

	mu    sync.Mutex
	items []any
}

func (p *Pool) Get() any {
	if Hooks.Point != nil {
		Hooks.Point("get", p)
	}
	p.mu.Lock()
	n := len(p.items)
	idx := n - 1 // LIFO default
	if Hooks.Choose != nil {
		idx = Hooks.Choose(p, n)
	}
	var obj any
	fresh := false
	if idx >= 0 && idx < n {
		obj = p.items[idx]
		p.items = append(p.items[:idx], p.items[idx+1:]...)
	} else {
		fresh = true
	}
	p.mu.Unlock()
	if fresh && p.New != nil {
		obj = p.New()
	}
	if Hooks.OnGet != nil {
		Hooks.OnGet(p, obj, fresh)
	}
	return obj
}

func (p *Pool) Put(x any) {
	if Hooks.Point != nil {
		Hooks.Point("put", p)
	}
	if Hooks.OnPut != nil {
		Hooks.OnPut(p, x)
	}
	if x == nil {
		return
	}
	p.mu.Lock()
	p.items = append(p.items, x)
	p.mu.Unlock()
	// what the caller still does after releasing the object (deferred handlers, a result built from
	// it) is a segment of its own: another thread may be handed the object before it
	if Hooks.Point != nil {
		Hooks.Point("put-done", p)
	}
}

// Items returns the pooled objects (oldest first) for state inspection.
func (p *Pool) Items() []any {
	p.mu.Lock()
	defer p.mu.Unlock()
	return append([]any(nil), p.items...)
}

// Drain empties the pool.
func (p *Pool) Drain() {
	p.mu.Lock()
	p.items = nil
	p.mu.Unlock()
}
`

// atomicShimSource is the pkg/verifatomic package: the API of sync/atomic with a scheduling point
// in front of every operation.
const atomicShimSource = `// Package verifatomic replaces "sync/atomic" in instrumented builds (never shipped).
package verifatomic

import (
	"sync/atomic"
	"unsafe"

	vs "github.com/GuanceCloud/platypus/pkg/verifsync"
)

func pt() {
	if vs.Hooks.Point != nil {
		vs.Hooks.Point("atomic", nil)
	}
}

func AddInt32(p *int32, d int32) int32       { pt(); return atomic.AddInt32(p, d) }
func AddInt64(p *int64, d int64) int64       { pt(); return atomic.AddInt64(p, d) }
func AddUint32(p *uint32, d uint32) uint32   { pt(); return atomic.AddUint32(p, d) }
func AddUint64(p *uint64, d uint64) uint64   { pt(); return atomic.AddUint64(p, d) }
func LoadInt32(p *int32) int32               { pt(); return atomic.LoadInt32(p) }
func LoadInt64(p *int64) int64               { pt(); return atomic.LoadInt64(p) }
func LoadUint32(p *uint32) uint32            { pt(); return atomic.LoadUint32(p) }
func LoadUint64(p *uint64) uint64            { pt(); return atomic.LoadUint64(p) }
func LoadPointer(p *unsafe.Pointer) unsafe.Pointer { pt(); return atomic.LoadPointer(p) }
func StoreInt32(p *int32, v int32)           { pt(); atomic.StoreInt32(p, v) }
func StoreInt64(p *int64, v int64)           { pt(); atomic.StoreInt64(p, v) }
func StoreUint32(p *uint32, v uint32)        { pt(); atomic.StoreUint32(p, v) }
func StoreUint64(p *uint64, v uint64)        { pt(); atomic.StoreUint64(p, v) }
func StorePointer(p *unsafe.Pointer, v unsafe.Pointer) { pt(); atomic.StorePointer(p, v) }
func SwapInt32(p *int32, v int32) int32      { pt(); return atomic.SwapInt32(p, v) }
func SwapInt64(p *int64, v int64) int64      { pt(); return atomic.SwapInt64(p, v) }
func SwapUint32(p *uint32, v uint32) uint32  { pt(); return atomic.SwapUint32(p, v) }
func SwapUint64(p *uint64, v uint64) uint64  { pt(); return atomic.SwapUint64(p, v) }
func SwapPointer(p *unsafe.Pointer, v unsafe.Pointer) unsafe.Pointer { pt(); return atomic.SwapPointer(p, v) }
func CompareAndSwapInt32(p *int32, o, n int32) bool    { pt(); return atomic.CompareAndSwapInt32(p, o, n) }
func CompareAndSwapInt64(p *int64, o, n int64) bool    { pt(); return atomic.CompareAndSwapInt64(p, o, n) }
func CompareAndSwapUint32(p *uint32, o, n uint32) bool { pt(); return atomic.CompareAndSwapUint32(p, o, n) }
func CompareAndSwapUint64(p *uint64, o, n uint64) bool { pt(); return atomic.CompareAndSwapUint64(p, o, n) }
func CompareAndSwapPointer(p *unsafe.Pointer, o, n unsafe.Pointer) bool { pt(); return atomic.CompareAndSwapPointer(p, o, n) }

type Int32 struct{ v atomic.Int32 }

func (x *Int32) Load() int32                      { pt(); return x.v.Load() }
func (x *Int32) Store(v int32)                    { pt(); x.v.Store(v) }
func (x *Int32) Add(d int32) int32                { pt(); return x.v.Add(d) }
func (x *Int32) Swap(v int32) int32               { pt(); return x.v.Swap(v) }
func (x *Int32) CompareAndSwap(o, n int32) bool   { pt(); return x.v.CompareAndSwap(o, n) }

type Int64 struct{ v atomic.Int64 }

func (x *Int64) Load() int64                      { pt(); return x.v.Load() }
func (x *Int64) Store(v int64)                    { pt(); x.v.Store(v) }
func (x *Int64) Add(d int64) int64                { pt(); return x.v.Add(d) }
func (x *Int64) Swap(v int64) int64               { pt(); return x.v.Swap(v) }
func (x *Int64) CompareAndSwap(o, n int64) bool   { pt(); return x.v.CompareAndSwap(o, n) }

type Uint32 struct{ v atomic.Uint32 }

func (x *Uint32) Load() uint32                    { pt(); return x.v.Load() }
func (x *Uint32) Store(v uint32)                  { pt(); x.v.Store(v) }
func (x *Uint32) Add(d uint32) uint32             { pt(); return x.v.Add(d) }
func (x *Uint32) Swap(v uint32) uint32            { pt(); return x.v.Swap(v) }
func (x *Uint32) CompareAndSwap(o, n uint32) bool { pt(); return x.v.CompareAndSwap(o, n) }

type Uint64 struct{ v atomic.Uint64 }

func (x *Uint64) Load() uint64                    { pt(); return x.v.Load() }
func (x *Uint64) Store(v uint64)                  { pt(); x.v.Store(v) }
func (x *Uint64) Add(d uint64) uint64             { pt(); return x.v.Add(d) }
func (x *Uint64) Swap(v uint64) uint64            { pt(); return x.v.Swap(v) }
func (x *Uint64) CompareAndSwap(o, n uint64) bool { pt(); return x.v.CompareAndSwap(o, n) }

type Bool struct{ v atomic.Bool }

func (x *Bool) Load() bool                    { pt(); return x.v.Load() }
func (x *Bool) Store(v bool)                  { pt(); x.v.Store(v) }
func (x *Bool) Swap(v bool) bool              { pt(); return x.v.Swap(v) }
func (x *Bool) CompareAndSwap(o, n bool) bool { pt(); return x.v.CompareAndSwap(o, n) }

type Value struct{ v atomic.Value }

func (x *Value) Load() any                   { pt(); return x.v.Load() }
func (x *Value) Store(v any)                 { pt(); x.v.Store(v) }
func (x *Value) Swap(v any) any              { pt(); return x.v.Swap(v) }
func (x *Value) CompareAndSwap(o, n any) bool { pt(); return x.v.CompareAndSwap(o, n) }

type Pointer[T any] struct{ v atomic.Pointer[T] }

func (x *Pointer[T]) Load() *T                    { pt(); return x.v.Load() }
func (x *Pointer[T]) Store(v *T)                  { pt(); x.v.Store(v) }
func (x *Pointer[T]) Swap(v *T) *T                { pt(); return x.v.Swap(v) }
func (x *Pointer[T]) CompareAndSwap(o, n *T) bool { pt(); return x.v.CompareAndSwap(o, n) }
`
