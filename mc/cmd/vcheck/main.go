// vcheck: bounded-exhaustive checks of the platypus properties C01..C20.
//
//	vcheck run <Cxx> <quick|thorough>
//	vcheck replay <file>
//	vcheck worker ...   (internal)
//	vcheck list
package main

import (
	"fmt"
	"os"

	"verif/mc/internal/checks"
	"verif/mc/internal/drv"
	"verif/mc/internal/run"
)

func main() {
	if len(os.Args) < 2 {
		fmt.Fprintln(os.Stderr, "usage: vcheck run <id> <tier> | replay <file> | list")
		os.Exit(2)
	}
	switch os.Args[1] {
	case "worker":
		drv.SilenceStdout()
		os.Exit(run.WorkerMain(os.Args[2:]))
	case "run":
		tier := "quick"
		if len(os.Args) > 3 {
			tier = os.Args[3]
		}
		if len(os.Args) < 3 {
			os.Exit(2)
		}
		os.Exit(run.Main(os.Args[2], tier))
	case "replay":
		if len(os.Args) < 3 {
			os.Exit(2)
		}
		os.Exit(run.ReplayMain(os.Args[2]))
	case "racepass":
		os.Exit(checks.RacePassMain(os.Args[2:]))
	case "list":
		for _, id := range run.IDs() {
			fmt.Println(id)
		}
	default:
		if f, ok := run.Subcommands[os.Args[1]]; ok {
			drv.SilenceStdoutKeep()
			os.Exit(f(os.Args[2:]))
		}
		fmt.Fprintln(os.Stderr, "unknown command", os.Args[1])
		os.Exit(2)
	}
}
