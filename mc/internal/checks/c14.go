package checks

import (
	"encoding/json"
	"fmt"
	"strings"
	"time"

	plrt "github.com/GuanceCloud/platypus/pkg/engine/runtime"
	v2 "github.com/GuanceCloud/platypus/pkg/engine/runtimev2"
	"github.com/GuanceCloud/platypus/pkg/inimpl/guancecloud/input"

	"verif/mc/internal/drv"
	"verif/mc/internal/rt"
	"verif/mc/internal/run"
)

// C14 — a running script stops promptly when its cancellation signal fires.
// Fault enumeration: for every program, every poll index k at which the
// signal can first report true.

type c14Case struct {
	Scripts map[string]string `json:"scripts"`
	V2      bool              `json:"v2"`
	K       int               `json:"k"`
}

const c14HangTimeout = 20 * time.Second

// the "parked neighbour" part lives in c14park.go (instrumented build only)
type c14ParkCase struct {
	Scripts map[string]string `json:"scripts"`
	V2      bool              `json:"v2"`
	J       int               `json:"parked_at_poll"`
	K       int               `json:"k"`
	Horizon int               `json:"horizon"`
	Part    string            `json:"part"`
}

var (
	c14Parked       func(w *run.Worker, scripts map[string]string, isV2 bool, horizon int) bool
	c14ParkedReplay func(c c14ParkCase) (bool, string)
)

type c14Snap struct {
	Point string
	TLen  int
}

// c14Runner runs one program under a signal in a separate goroutine so that a
// run that ignores the signal cannot hang the worker.
type c14Runner struct {
	v2    bool
	s1    *plrt.Script
	s2    *v2.Script
	point PointSpec
}

type c14Out struct {
	Res   drv.Result
	Snaps []c14Snap // state at every poll (index i-1 = poll i)
	Hung  bool
}

func (r *c14Runner) run(fireAt int, record bool) c14Out {
	done := make(chan c14Out, 1)
	go func() {
		var out c14Out
		var pt *input.Point
		if !r.v2 {
			pt = r.point.real().Build()
		}
		sig := &drv.Sig{FireAt: fireAt}
		var trace *[]string
		if record {
			sig.OnPoll = func(n int) {
				s := c14Snap{TLen: drv.CurTraceLen()}
				if pt != nil {
					s.Point = drv.CanonPoint(pt)
				}
				out.Snaps = append(out.Snaps, s)
			}
		}
		_ = trace
		if r.v2 {
			out.Res = drv.RunV2(r.s2, sig)
		} else {
			out.Res = drv.Run(r.s1, pt, sig)
		}
		done <- out
	}()
	select {
	case o := <-done:
		return o
	case <-time.After(c14HangTimeout):
		return c14Out{Hung: true}
	}
}

func c14Load(scripts map[string]string, isV2 bool) (*c14Runner, error) {
	r := &c14Runner{v2: isV2, point: PointSpec{Meas: "m", Fields: map[string]any{"message": "msg"}}}
	if isV2 {
		s, err := drv.LoadV2("a.p", scripts["a.p"])
		if err != nil {
			return nil, err
		}
		r.s2 = s
		return r, nil
	}
	ok, errs := drv.Load(scripts)
	if e, bad := errs["a.p"]; bad {
		return nil, e
	}
	r.s1 = ok["a.p"]
	return r, nil
}

// c14Check runs the whole fault enumeration for one program. It returns
// false if the worker should stop (a run hung).
func c14Check(w *run.Worker, scripts map[string]string, isV2 bool, horizon int) bool {
	r, err := c14Load(scripts, isV2)
	if err != nil {
		w.Violate("C14:unexpected-load-error", err.Error()+"\n"+fmtScripts(scripts), c14Case{Scripts: scripts, V2: isV2})
		return true
	}
	tag := "v1"
	if isV2 {
		tag = "v2"
	}
	mk := func(k int) c14Case { return c14Case{Scripts: scripts, V2: isV2, K: k} }
	// uninterrupted run (cut at the horizon for non-terminating programs)
	base := r.run(horizon+1, true)
	w.Eval()
	if base.Hung {
		again := r.run(horizon+1, true)
		if again.Hung {
			w.Violate("C14:"+tag+":run-ignores-signal", fmt.Sprintf("the run does not return within %v although the signal reports true from poll %d on\n%s", c14HangTimeout, horizon+1, fmtScripts(scripts)), mk(horizon+1))
			w.Cap("stopped after a run that ignored its signal")
			return false
		}
		base = again
	}
	if base.Res.Panic != "" {
		w.Violate("C14:"+tag+":panic", base.Res.Panic+"\n"+fmtScripts(scripts), mk(0))
		return true
	}
	n := base.Res.Polls
	if n > horizon {
		n = horizon
	}
	// determinism of the poll count
	base2 := r.run(horizon+1, true)
	w.Eval()
	if base2.Hung || base2.Res.Polls != base.Res.Polls || len(base2.Snaps) != len(base.Snaps) {
		w.Violate("C14:"+tag+":poll-count-not-deterministic", fmt.Sprintf("polls %d vs %d\n%s", base.Res.Polls, base2.Res.Polls, fmtScripts(scripts)), mk(0))
		return true
	}
	w.Outcome(fmt.Sprintf("%s|%d|%s", tag, base.Res.Polls, strings.Join(base.Res.Trace, ";")))
	if n == 0 {
		w.Note("programs_without_polls", 1)
	}
	for k := 1; k <= n; k++ {
		got := r.run(k, false)
		w.Eval()
		if got.Hung {
			again := r.run(k, false)
			if again.Hung {
				w.Violate("C14:"+tag+":run-does-not-stop", fmt.Sprintf("signal true from poll %d on, the run does not return within %v\n%s", k, c14HangTimeout, fmtScripts(scripts)), mk(k))
				w.Cap("stopped after a run that ignored its signal")
				return false
			}
			got = again
		}
		snap := base.Snaps[k-1]
		wantTrace := base.Res.Trace[:snap.TLen]
		switch {
		case got.Res.Panic != "":
			w.Violate("C14:"+tag+":panic", got.Res.Panic+"\n"+fmtScripts(scripts), mk(k))
		case got.Res.Polls < k:
			w.Violate("C14:"+tag+":fewer-polls-than-uninterrupted-run", fmt.Sprintf("interrupted at poll %d but only %d polls happened\n%s", k, got.Res.Polls, fmtScripts(scripts)), mk(k))
		case got.Res.Err != nil:
			w.Violate("C14:"+tag+":cancelled-run-returns-error", fmt.Sprintf("signal true from poll %d: run returned error %v\n%s", k, got.Res.Err, fmtScripts(scripts)), mk(k))
		case strings.Join(got.Res.Trace, ";") != strings.Join(wantTrace, ";"):
			kind := "effects-after-signal"
			if len(got.Res.Trace) < len(wantTrace) {
				kind = "effects-missing"
			}
			w.Violate("C14:"+tag+":"+kind, fmt.Sprintf("signal true from poll %d: trace %v, expected the prefix %v of the uninterrupted run\n%s", k, got.Res.Trace, wantTrace, fmtScripts(scripts)), mk(k))
		case !isV2 && got.Res.Point != snap.Point:
			w.Violate("C14:"+tag+":point-differs-from-state-at-poll", fmt.Sprintf("signal true from poll %d: point %s, state at that poll was %s\n%s", k, got.Res.Point, snap.Point, fmtScripts(scripts)), mk(k))
		}
	}
	if w.WantSample() && n >= 3 && w.Index()%7 == 0 {
		w.Sample(map[string]any{"interpreter": tag, "scripts": scripts, "polls_uninterrupted": base.Res.Polls, "k_values_tried": n, "trace": base.Res.Trace})
	}
	return true
}

func c14Enum(isV2 bool) *senum {
	I, Id := rt.Int, rt.Id
	// calls in operand position (assignment right-hand side, argument of another call, condition):
	// a cancelled run must not let a skipped call stand in for a value
	one := func() *rt.Node {
		if isV2 {
			return rt.Call("one")
		}
		return rt.Call("len", rt.Str("a"))
	}
	idx := func() *rt.Node {
		if isV2 {
			return rt.Call("id", Id("x"))
		}
		return Id("x")
	}
	inc := func(v string) *rt.Node { return rt.Assign("=", Id(v), rt.Bin("+", idx(), one())) }
	simple := []nodeFn{
		func() *rt.Node { return rt.Call("p", Id("x")) },
		func() *rt.Node { return inc("x") },
	}
	if !isV2 {
		simple = append(simple, func() *rt.Node { return rt.Call("add_key", Id("k"), rt.Bin("+", rt.Call("len", rt.Str("abc")), Id("x"))) })
		simple = append(simple, func() *rt.Node { return rt.Call("p", rt.Bin("/", I(1), Id("zz"))) })
	} else {
		simple = append(simple, func() *rt.Node { return rt.Call("p", rt.Bin("/", I(1), rt.Nil())) })
	}
	return &senum{
		simple:   simple,
		loopOnly: []nodeFn{func() *rt.Node { return rt.Break() }, func() *rt.Node { return rt.Continue() }},
		conds:    []nodeFn{func() *rt.Node { return rt.Bin("<", idx(), rt.Bin("+", one(), I(1))) }},
		forInits: []nodeFn{nil, func() *rt.Node { return rt.Assign("=", Id("y"), I(0)) }},
		forConds: []nodeFn{nil, func() *rt.Node { return rt.Bin("<", Id("x"), I(2)) }},
		// a post clause with a visible effect: nothing of it may happen once the signal was observed in the body
		forSteps: []nodeFn{nil, func() *rt.Node { return inc("x") }, func() *rt.Node { return rt.Call("p", I(7), Id("x")) }},
		forIns: []func(body *rt.Node) *rt.Node{
			func(b *rt.Node) *rt.Node { return rt.ForIn("v", rt.List(I(1), I(2)), b) },
			func(b *rt.Node) *rt.Node { return rt.ForIn("v", rt.Str("ab"), b) },
			func(b *rt.Node) *rt.Node { return rt.ForIn("v", rt.Map(rt.Str("a"), I(1), rt.Str("b"), I(2), rt.Str("c"), I(3)), b) },
		},
		maxDepth: 3,
		memoS:    map[[3]int]*Fam{},
		memoB:    map[[3]int]*Fam{},
	}
}

func hasLoop(stmts []*rt.Node) bool {
	for _, s := range stmts {
		if s == nil {
			continue
		}
		if s.K == rt.KFor || s.K == rt.KForIn {
			return true
		}
		if hasLoop(s.Kids) {
			return true
		}
	}
	return false
}

func c14Run(w *run.Worker) {
	I, Id := rt.Int, rt.Id
	horizon := 40
	maxSize := 3
	// the parked-neighbour part: programs up to parkSize, every (j, k) up to parkHorizon
	parkSize, parkHorizon := 2, 10
	if w.Thorough {
		horizon = 200
		parkSize, parkHorizon = 3, 14
	}
	stop := false
	for _, isV2 := range []bool{false, true} {
		e := c14Enum(isV2)
		for size := 1; size <= maxSize && !stop; size++ {
			fam := e.blocks(size, false, 0)
			for i := int64(0); i < fam.N && !stop; i++ {
				body := asNodes(fam.At(i))
				if !hasLoop(body) {
					continue
				}
				if !w.Take() {
					continue
				}
				if w.Expired() {
					return
				}
				// the first statement has a visible effect: nothing of a script that is entered after the signal was observed runs
				stmts := append([]*rt.Node{rt.Call("p", I(0)), rt.Assign("=", Id("x"), I(0))}, body...)
				stmts = append(stmts, rt.Call("p", I(99), Id("x")))
				src, _ := rt.PrintProg(stmts, nil)
				if !c14Check(w, map[string]string{"a.p": src}, isV2, horizon) {
					stop = true
				}
				if c14Parked != nil && size <= parkSize && !stop {
					if isV2 {
						stop = !c14Parked(w, map[string]string{"a.p": src}, true, parkHorizon)
					} else {
						// the loop sits in a used script: run A is suspended inside it
						stop = !c14Parked(w, map[string]string{"a.p": "p(0)\nuse(\"b.p\")\np(1)\nadd_key(k2, 1)", "b.p": src}, false, parkHorizon)
					}
				}
				// the same loops with every one of them under an else / elif branch (no loop statement at the top
				// level of the script, none in a first branch)
				if size <= 2 && !stop {
					for wi := 0; wi < 3 && !stop; wi++ {
						inner := asNodes(fam.At(i))
						var wrapped *rt.Node
						switch wi {
						case 0:
							wrapped = rt.If(rt.Bool(false), rt.Block(rt.Call("p", I(5))), rt.Block(inner...))
						case 1:
							wrapped = rt.If(rt.Bool(false), rt.Block(rt.Call("p", I(5))), rt.Bool(true), rt.Block(inner...))
						case 2:
							wrapped = rt.If(rt.Bool(true), rt.Block(rt.If(rt.Bin("<", Id("x"), I(0)), rt.Block(), rt.Block(inner...))))
						}
						ws, _ := rt.PrintProg([]*rt.Node{rt.Call("p", I(0)), rt.Assign("=", Id("x"), I(0)), wrapped, rt.Call("p", I(99), Id("x"))}, nil)
						if !c14Check(w, map[string]string{"a.p": ws}, isV2, horizon) {
							stop = true
						}
					}
				}
				// the same loop inside a script reached through use() (v1 only)
				if !isV2 && size <= 2 && !stop {
					a := "p(0)\nuse(\"b.p\")\np(1)\nadd_key(k2, 1)"
					if !c14Check(w, map[string]string{"a.p": a, "b.p": src}, false, horizon) {
						stop = true
					}
				}
			}
		}
		// hand-written extremes
		specials := []string{
			"for ;; {}",
			"for ;; { for ;; {} }",
			"for ;; { for ;; { for ;; {} } }",
			"for ;; { for v in [1,2,3] {} }",
			"for v in [1,2,3] { for ;; {} }",
			"for v in \"abc\" { for u in \"de\" { for ;; {} } }",
			"x = 0\nfor ;; { x = x + 1 }",
			"x = 0\nfor ;; { if x < 3 { x = x + 1\ncontinue }\np(x) }",
			"for ;; { if true { if true { for ;; {} } } }",
			// wait loops: non-empty bodies made of compound statements only
			"for ;; { if false { break } }",
			"x = 0\nfor ;; { if x < 0 { } else { } }",
			"for ;; { for v in [] { } }",
			"for ;; { if false { break } elif false { continue } else { for v in [] { } } }",
			"for v in [1, 2, 3] { for ;; { if false { break } } }",
		}
		for _, sp := range append([]string{}, specials...) {
			specials = append(specials, "if false { p(5) } else {\n"+sp+"\n}", "if false { p(5) } elif true {\n"+sp+"\n}\np(6)", "if true { if false { } else {\n"+sp+"\n} }")
		}
		for _, s := range specials {
			if stop || !w.Take() {
				continue
			}
			if !c14Check(w, map[string]string{"a.p": s}, isV2, horizon) {
				stop = true
			}
			if !isV2 && !stop {
				if !c14Check(w, map[string]string{"a.p": "p(0)\nuse(\"b.p\")\np(1)", "b.p": "use(\"c.p\")\np(2)", "c.p": s}, false, horizon) {
					stop = true
				}
			}
			if c14Parked != nil && !stop {
				stop = !c14Parked(w, map[string]string{"a.p": s}, isV2, parkHorizon)
				if !isV2 && !stop {
					stop = !c14Parked(w, map[string]string{"a.p": "p(0)\nuse(\"b.p\")\nuse(\"b.p\")\np(1)", "b.p": "use(\"c.p\")\np(2)", "c.p": s}, false, parkHorizon)
				}
			}
		}
	}
}

func c14Replay(raw json.RawMessage) (bool, string) {
	var pc c14ParkCase
	if err := json.Unmarshal(raw, &pc); err == nil && pc.Part == "parked" {
		if c14ParkedReplay == nil {
			return false, "this replay needs the instrumented build (vcheck.sh replay uses it for C14)"
		}
		return c14ParkedReplay(pc)
	}
	var c c14Case
	if err := json.Unmarshal(raw, &c); err != nil {
		return false, err.Error()
	}
	r, err := c14Load(c.Scripts, c.V2)
	if err != nil {
		return true, err.Error()
	}
	base := r.run(201, true)
	if base.Hung {
		return true, "uninterrupted run (signal true from poll 201) does not return"
	}
	if c.K < 1 || c.K > len(base.Snaps) {
		return false, fmt.Sprintf("uninterrupted run: polls=%d trace=%v", base.Res.Polls, base.Res.Trace)
	}
	got := r.run(c.K, false)
	if got.Hung {
		return true, fmt.Sprintf("signal true from poll %d: run does not return", c.K)
	}
	snap := base.Snaps[c.K-1]
	want := base.Res.Trace[:snap.TLen]
	bad := got.Res.Err != nil || got.Res.Panic != "" || strings.Join(got.Res.Trace, ";") != strings.Join(want, ";") || (!c.V2 && got.Res.Point != snap.Point)
	return bad, fmt.Sprintf("k=%d: trace=%v err=%v point=%s\nexpected trace=%v point=%s", c.K, got.Res.Trace, got.Res.Err, got.Res.Point, want, snap.Point)
}

func init() {
	run.Register(&run.Check{
		ID:    "C14",
		Level: "fault_enumeration",
		Rule: "every loop-bearing program of total size <=3 statements (nesting <=3) over {p(x), x = x + len(\"a\") (v2: x = id(x) + one()), add_key(k, len(\"abc\") + x), a raising statement, break, continue; if conditions contain a call} x if/else/elif x the 12 three-clause for shapes (post clause absent, an assignment, a probe call) x for-in over list, string and map, " +
			"plus the same loops inside a script reached through use(), plus hand-written nested empty infinite loops and wait loops whose bodies hold compound statements only (also two use() levels deep), on both interpreters; " +
			"fault = the poll index k at which the exit signal first reports true, ALL k = 1..min(polls of the uninterrupted run, horizon 40 quick / 200 thorough); " +
			"parked neighbour (instrumented build: every wait for a lock is reported by the sync shim): for the programs of size <=2 (thorough 3; on v1 placed in a used script) and the hand-written extremes, run A of the loaded script is suspended inside its poll j (its own signal has not fired) and run B of the SAME loaded script runs with its signal true from poll k on, every j, k = 1..min(polls, 10 quick / 14 thorough) and k = never; control passes by channel hand-off only, so every execution is deterministic; B never waits for a lock, B = the run alone at k, then A = the prefix-at-j run; " +
			"oracle: returns nil, final point = point at poll k of the uninterrupted run, probe trace = its prefix at poll k; non-trivial = distinct (interpreter, poll count, trace) of the uninterrupted runs",
		Assumptions: []string{"a run that has not returned 20 s after being told to stop is re-run once and then reported as ignoring its signal (the only wall-clock decision)"},
		Run:            c14Run,
		Replay:         c14Replay,
		QuickBudget:    5 * time.Minute,
		ThoroughBudget: 30 * time.Minute,
	})
}
