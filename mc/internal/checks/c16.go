//go:build verif

package checks

import (
	"bytes"
	"encoding/json"
	"fmt"
	"os"
	"os/exec"
	"path/filepath"
	"regexp"
	"sort"
	"strings"
	"sync/atomic"
	"time"

	"github.com/GuanceCloud/platypus/pkg/ast"
	"github.com/GuanceCloud/platypus/pkg/engine"
	plrt "github.com/GuanceCloud/platypus/pkg/engine/runtime"
	"github.com/GuanceCloud/platypus/pkg/engine/runtimev2"
	"github.com/GuanceCloud/platypus/pkg/errchain"
	"github.com/GuanceCloud/platypus/pkg/inimpl/guancecloud/funcs"
	"github.com/GuanceCloud/platypus/pkg/inimpl/guancecloud/input"
	"github.com/GuanceCloud/platypus/pkg/parser"
	"github.com/GuanceCloud/platypus/pkg/token"
	vsync "github.com/GuanceCloud/platypus/pkg/verifsync"

	"verif/mc/internal/deephash"
	"verif/mc/internal/drv"
	"verif/mc/internal/run"
	"verif/mc/internal/sched"
)

// C16 — loaded scripts and the parser are safe for concurrent use.
//
//	(1) shared-write freedom: no operation changes anything reachable from the
//	    shared roots (loaded scripts, every package-level variable) — exhaustive
//	    over the operation alphabet, sequentially;
//	(2) controlled scheduler: all interleavings of 2 and 3 goroutines at the
//	    pool / lock operations within a preemption bound, with result-equivalence
//	    and pool-ownership oracles;
//	(3) complementary free-running pass under the race detector (separate
//	    binary; reported as non-exhaustive).

type c16Case struct {
	Part     string `json:"part"`
	Ops      []int  `json:"ops"`
	Schedule []int  `json:"schedule,omitempty"`
}

func c16Roots(env *c16Env) map[string]any {
	roots := map[string]any{}
	add := func(m map[string]any) {
		for k, v := range m {
			roots[k] = v
		}
	}
	add(ast.VerifRoots())
	add(token.VerifRoots())
	add(errchain.VerifRoots())
	add(parser.VerifRoots())
	add(engine.VerifRoots())
	add(plrt.VerifRoots())
	add(runtimev2.VerifRoots())
	add(funcs.VerifRoots())
	add(input.VerifRoots())
	for name, s := range env.scripts {
		roots["script:"+name] = s
	}
	return roots
}

func c16Hasher() *deephash.Hasher {
	// opaque: the pool shim, loggers, and everything of package sync / sync/atomic (internally synchronised by definition)
	return deephash.New("github.com/GuanceCloud/platypus", "github.com/GuanceCloud/platypus/pkg/verifsync", "github.com/GuanceCloud/platypus/internal/logger", "sync")
}

func c16SharedHash(env *c16Env) (uint64, int) {
	h := c16Hasher()
	v := h.Hash(c16Roots(env))
	return v, h.Nodes
}

// c16DiffRoots names the roots whose hash changed (for the report).
func c16DiffRoots(env *c16Env, before map[string]uint64) []string {
	var changed []string
	for name, ptr := range c16Roots(env) {
		h := c16Hasher().Hash(map[string]any{name: ptr})
		if before[name] != h {
			changed = append(changed, name)
		}
	}
	sort.Strings(changed)
	return changed
}

func c16RootHashes(env *c16Env) map[string]uint64 {
	out := map[string]uint64{}
	for name, ptr := range c16Roots(env) {
		out[name] = c16Hasher().Hash(map[string]any{name: ptr})
	}
	return out
}

func c16Pools() []*vsync.Pool { return allPools() }

// allPools: every package-level sync.Pool of the repo packages, discovered by
// the overlay generator (robust against renamed or added pools).
func allPools() []*vsync.Pool {
	var names []string
	all := map[string]*vsync.Pool{}
	for _, m := range []map[string]*vsync.Pool{ast.VerifPools(), token.VerifPools(), errchain.VerifPools(), parser.VerifPools(), engine.VerifPools(),
		plrt.VerifPools(), runtimev2.VerifPools(), funcs.VerifPools(), input.VerifPools()} {
		for k, v := range m {
			all[k] = v
			names = append(names, k)
		}
	}
	sort.Strings(names)
	var out []*vsync.Pool
	for _, n := range names {
		out = append(out, all[n])
	}
	return out
}

// ---- (1) shared-write freedom ------------------------------------------------

func c16SharedWrites(w *run.Worker, env *c16Env, ops []c16Op) {
	_, nodes := c16SharedHash(env)
	if w.Shard == 0 {
		w.Note("shared_state_nodes_hashed", int64(nodes))
	}
	// every operation alone, then every ordered pair (a first run may set up state a second one reuses)
	seqs := [][]int{}
	for i := range ops {
		seqs = append(seqs, []int{i})
	}
	for i := range ops {
		for j := range ops {
			seqs = append(seqs, []int{i, j})
		}
	}
	for _, seq := range seqs {
		if !w.Take() {
			continue
		}
		for _, p := range c16Pools() {
			p.Drain()
		}
		for step, oi := range seq {
			before := c16RootHashes(env)
			sync0, excl0 := atomic.LoadInt64(&vsync.SyncOps), atomic.LoadInt64(&vsync.ExclOps)
			out := ops[oi].Do(env, step)
			w.Eval()
			w.Outcome("shared|" + ops[oi].Name + "|" + out)
			if strings.HasPrefix(out, "PANIC") {
				w.Violate("C16:panic:"+ops[oi].Name, out, c16Case{Part: "shared-writes", Ops: seq})
			}
			if atomic.LoadInt64(&vsync.ExclOps) != excl0 {
				w.Note("segments_with_exclusive_lock_operations(exempt)", 1)
				continue
			}
			if atomic.LoadInt64(&vsync.SyncOps) != sync0 {
				w.Note("segments_with_read_locks_only(not exempt)", 1)
			}
			if changed := c16DiffRoots(env, before); len(changed) > 0 {
				w.Violate("C16:shared-state-written:"+ops[oi].Name+":"+changed[0],
					fmt.Sprintf("%s (step %d of %v) changed shared state without synchronisation: %v — a concurrent reader or writer races with it", ops[oi].Name, step, seq, changed),
					c16Case{Part: "shared-writes", Ops: seq})
			}
		}
	}
}

// ---- (2) controlled scheduler --------------------------------------------------

type c16Tracker struct {
	owner    map[any]int
	putHash  map[any]uint64
	problems []string
}

// hashObj hashes the pooled object's own memory (what it points to may be live
// data owned by somebody else, e.g. the syntax tree the last parse returned).
func (t *c16Tracker) hashObj(obj any) uint64 {
	h := c16Hasher()
	h.Shallow = true
	return h.Hash(map[string]any{"o": obj})
}

func c16Explore(w *run.Worker, env *c16Env, ops []c16Op, combo []int, bound int, maxExecs int, alone map[[2]int]string) {
	var tr *c16Tracker
	install := func() {
		tr = &c16Tracker{owner: map[any]int{}, putHash: map[any]uint64{}}
		vsync.Hooks.Point = func(op string, p *vsync.Pool) { sched.Point(op) }
		vsync.Hooks.Blocked = func(label string) { sched.Blocked(label) }
		vsync.Hooks.OnGet = func(p *vsync.Pool, obj any, fresh bool) {
			if obj == nil {
				return
			}
			if !fresh {
				if h, ok := tr.putHash[obj]; ok && h != tr.hashObj(obj) {
					tr.problems = append(tr.problems, fmt.Sprintf("pooled-object-modified-while-in-pool: %T", obj))
				}
			}
			if o, held := tr.owner[obj]; held {
				tr.problems = append(tr.problems, fmt.Sprintf("object-handed-out-twice: %T already owned by thread %d", obj, o))
			}
			tr.owner[obj] = sched.Self()
			delete(tr.putHash, obj)
		}
		vsync.Hooks.OnPut = func(p *vsync.Pool, obj any) {
			if obj == nil {
				return
			}
			if o, held := tr.owner[obj]; held && o != sched.Self() {
				tr.problems = append(tr.problems, fmt.Sprintf("put-by-non-owner: %T owned by thread %d, put by %d", obj, o, sched.Self()))
			}
			for _, it := range p.Items() {
				if it == obj {
					tr.problems = append(tr.problems, fmt.Sprintf("double-put: %T", obj))
				}
			}
			delete(tr.owner, obj)
			tr.putHash[obj] = tr.hashObj(obj)
		}
	}
	uninstall := func() {
		vsync.Hooks.Point, vsync.Hooks.Blocked, vsync.Hooks.OnGet, vsync.Hooks.OnPut = nil, nil, nil, nil
	}
	defer uninstall()
	outs := make([]string, len(combo))
	var sharedBefore uint64
	var syncBefore int64
	mk := func() []func() {
		syncBefore = atomic.LoadInt64(&vsync.ExclOps)
		for _, p := range c16Pools() {
			p.Drain()
		}
		install()
		sharedBefore, _ = c16SharedHash(env)
		var bodies []func()
		for slot, oi := range combo {
			slot, oi := slot, oi
			outs[slot] = ""
			bodies = append(bodies, func() { outs[slot] = ops[oi].Do(env, slot) })
		}
		return bodies
	}
	var names []string
	for _, oi := range combo {
		names = append(names, ops[oi].Name)
	}
	outcomes := map[string]bool{}
	n, capped := sched.Explore(mk, bound, maxExecs, func(x *sched.Exec) bool {
		w.Eval()
		cs := c16Case{Part: "schedule", Ops: combo, Schedule: x.Choices}
		desc := func() string { return fmt.Sprintf("threads %v, schedule %v (%d points)", names, x.Choices, len(x.Points)) }
		if x.Diverge != "" {
			w.Violate("C16:harness:replay-diverged", x.Diverge+"\n"+desc(), cs)
			return false
		}
		if x.Deadlock != "" {
			w.Violate("C16:deadlock", x.Deadlock+"\n"+desc(), cs)
		}
		for t, pmsg := range x.Panics {
			if pmsg != "" {
				w.Violate("C16:panic:"+ops[combo[t]].Name, pmsg+"\n"+desc(), cs)
			}
		}
		for slot, oi := range combo {
			if outs[slot] != alone[[2]int{oi, slot}] {
				w.Violate("C16:result-differs-from-alone-run:"+ops[oi].Name, fmt.Sprintf("%s\nconcurrently: %s\nalone       : %s", desc(), outs[slot], alone[[2]int{oi, slot}]), cs)
			}
		}
		for _, pr := range tr.problems {
			w.Violate("C16:pool-ownership:"+strings.SplitN(pr, ":", 2)[0], pr+"\n"+desc(), cs)
		}
		if atomic.LoadInt64(&vsync.ExclOps) != syncBefore {
			w.Note("schedules_with_exclusive_lock_operations(shared-hash exempt)", 1)
		} else if h, _ := c16SharedHash(env); h != sharedBefore {
			w.Violate("C16:shared-state-written-during-schedule", desc(), cs)
		}
		key := fmt.Sprint(x.Choices)
		outcomes[key] = true
		w.OutcomeHash(hash2(fmt.Sprint(combo), key, 0))
		return !w.Expired()
	})
	w.Note("schedules_explored", int64(n))
	if capped {
		w.Cap(fmt.Sprintf("schedule cap %d reached for a combination of %d threads at preemption bound %d", maxExecs, len(combo), bound))
	}
	if w.WantSample() && len(combo) == 2 && combo[0] != combo[1] {
		w.Sample(map[string]any{"threads": names, "preemption_bound": bound, "schedules": n})
	}
}

// ---- (3) free-running race-detector pass ----------------------------------------

var raceHeader = regexp.MustCompile(`(?m)^WARNING: DATA RACE`)

func c16RacePass(w *run.Worker, reps int) {
	bin := filepath.Join(run.VerifDir, ".cache", "bin", "vcheck-race")
	if _, err := os.Stat(bin); err != nil {
		w.Cap("race-detector pass not run: " + err.Error())
		return
	}
	cmd := exec.Command(bin, "racepass", fmt.Sprint(reps))
	cmd.Env = append(os.Environ(), "GORACE=halt_on_error=0 history_size=2", "GOMAXPROCS=16", "TZ=UTC")
	var errb bytes.Buffer
	cmd.Stderr = &errb
	cmd.Stdout = nil
	start := time.Now()
	err := cmd.Run()
	out := errb.String()
	w.EvalN(1)
	w.NoteStr("race_pass", "free-running, NOT exhaustive: every pair and triple of the 7 operations plus 8- and 16-goroutine fan-outs, started behind a barrier, repeated; see race_pass_result")
	if i := strings.Index(out, "RACEPASS-RESULT: "); i >= 0 {
		line := strings.SplitN(out[i+len("RACEPASS-RESULT: "):], "\n", 2)[0]
		w.NoteStr("race_pass_result", line)
		var res struct {
			Runs       int      `json:"runs"`
			Mismatches []string `json:"mismatches"`
		}
		if json.Unmarshal([]byte(line), &res) == nil {
			w.Note("race_pass_operation_runs", int64(res.Runs))
			for _, m := range res.Mismatches {
				w.Violate("C16:race-pass:result-differs-from-alone-run", m, c16Case{Part: "race-pass"})
				break
			}
		}
	} else {
		w.Violate("C16:race-pass:did-not-complete", fmt.Sprintf("err=%v\n%s", err, firstN(out, 3000)), c16Case{Part: "race-pass"})
		return
	}
	w.Note("race_pass_seconds", int64(time.Since(start).Seconds()))
	locs := raceHeader.FindAllStringIndex(out, -1)
	w.Note("race_reports", int64(len(locs)))
	for _, loc := range locs {
		block := out[loc[0]:]
		if j := strings.Index(block, "=================="); j > 0 {
			block = block[:j]
		}
		w.Violate("C16:data-race:"+raceSite(block), "the race detector reports:\n"+firstN(block, 2500), c16Case{Part: "race-pass"})
	}
}

func firstN(s string, n int) string {
	if len(s) > n {
		return s[:n] + "..."
	}
	return s
}

// raceSite: the first repository function named in a race report.
func raceSite(block string) string {
	for _, l := range strings.Split(block, "\n") {
		l = strings.TrimSpace(l)
		if strings.HasPrefix(l, "github.com/GuanceCloud/platypus/") {
			f := strings.TrimPrefix(l, "github.com/GuanceCloud/platypus/")
			if i := strings.Index(f, "("); i > 0 {
				f = f[:i]
			}
			return f
		}
	}
	return "unknown"
}

func c16Run(w *run.Worker) {
	env, err := c16Load()
	if err != nil {
		w.Violate("C16:harness-scripts-do-not-load", err.Error(), c16Case{})
		return
	}
	ops := c16Ops()
	// first execution of every operation in this (fresh) process: writes that are
	// idempotent afterwards (lazy initialisation, scratch buffers) are only visible now
	for oi := range ops {
		before := c16RootHashes(env)
		excl0 := atomic.LoadInt64(&vsync.ExclOps)
		out := ops[oi].Do(env, 0)
		w.Eval()
		if strings.HasPrefix(out, "PANIC") {
			w.Violate("C16:panic:"+ops[oi].Name, out, c16Case{Part: "shared-writes", Ops: []int{oi}})
		}
		if atomic.LoadInt64(&vsync.ExclOps) == excl0 {
			if changed := c16DiffRoots(env, before); len(changed) > 0 {
				w.Violate("C16:shared-state-written:"+ops[oi].Name+":"+changed[0],
					fmt.Sprintf("the first execution of %s in a fresh process changed shared state without synchronisation: %v — a concurrent reader or writer races with it", ops[oi].Name, changed),
					c16Case{Part: "shared-writes", Ops: []int{oi}})
			}
		}
	}
	// what each operation gives ALONE IN A FRESH PROCESS (state that sticks to the process — a mode a
	// shared engine object remembers, a memo — would otherwise be part of the baseline too)
	alone := map[[2]int]string{}
	exe, _ := os.Executable()
	for oi := range ops {
		for slot := 0; slot < 3; slot++ {
			raw, err := exec.Command(exe, "c16base", fmt.Sprint(oi), fmt.Sprint(slot)).Output()
			if err != nil {
				w.Violate("C16:harness:baseline-process-failed", fmt.Sprintf("%s slot %d: %v", ops[oi].Name, slot, err), c16Case{Part: "baseline", Ops: []int{oi}})
				return
			}
			alone[[2]int{oi, slot}] = string(raw)
			for _, p := range c16Pools() {
				p.Drain()
			}
			if here := ops[oi].Do(env, slot); here != string(raw) && w.Shard == 0 {
				w.Violate("C16:result-differs-from-alone-run:"+ops[oi].Name+":after-other-operations-in-this-process",
					fmt.Sprintf("%s (slot %d) alone in a fresh process: %s\nafter the other operations ran (sequentially) in this process: %s", ops[oi].Name, slot, raw, here), c16Case{Part: "baseline", Ops: []int{oi}})
			}
		}
	}
	c16SharedWrites(w, env, ops)
	pairBound, tripleBound, capExecs := 2, 1, 20000
	if w.Thorough {
		pairBound, tripleBound, capExecs = 3, 2, 400000
	}
	for _, combo := range multisets(len(ops), 2) {
		if !w.Take() {
			continue
		}
		c16Explore(w, env, ops, combo, pairBound, capExecs, alone)
	}
	for _, combo := range multisets(len(ops), 3) {
		if !w.Take() {
			continue
		}
		if w.Expired() {
			return
		}
		c16Explore(w, env, ops, combo, tripleBound, capExecs, alone)
	}
	if w.Take() {
		reps := 30
		if w.Thorough {
			reps = 200
		}
		c16RacePass(w, reps)
	}
}

func c16Replay(raw json.RawMessage) (bool, string) {
	var c c16Case
	if err := json.Unmarshal(raw, &c); err != nil {
		return false, err.Error()
	}
	env, err := c16Load()
	if err != nil {
		return false, err.Error()
	}
	ops := c16Ops()
	switch c.Part {
	case "shared-writes":
		for _, p := range c16Pools() {
			p.Drain()
		}
		for step, oi := range c.Ops {
			before := c16RootHashes(env)
			out := ops[oi].Do(env, step)
			if changed := c16DiffRoots(env, before); len(changed) > 0 {
				return true, fmt.Sprintf("%s changed %v\n%s", ops[oi].Name, changed, out)
			}
		}
		return false, "no shared state changed"
	case "schedule":
		outs := make([]string, len(c.Ops))
		vsync.Hooks.Point = func(op string, p *vsync.Pool) { sched.Point(op) }
		vsync.Hooks.Blocked = func(label string) { sched.Blocked(label) }
		defer func() { vsync.Hooks.Point, vsync.Hooks.Blocked = nil, nil }()
		for _, p := range c16Pools() {
			p.Drain()
		}
		var bodies []func()
		for slot, oi := range c.Ops {
			slot, oi := slot, oi
			bodies = append(bodies, func() { outs[slot] = ops[oi].Do(env, slot) })
		}
		x := sched.Run(bodies, c.Schedule)
		bad := x.Deadlock != "" || x.Diverge != ""
		var b strings.Builder
		for slot, oi := range c.Ops {
			for _, p := range c16Pools() {
				p.Drain()
			}
			al := ops[oi].Do(env, slot)
			fmt.Fprintf(&b, "%s: %s\n", ops[oi].Name, outs[slot])
			if al != outs[slot] {
				bad = true
				fmt.Fprintf(&b, "  alone: %s\n", al)
			}
			if x.Panics[slot] != "" {
				bad = true
				fmt.Fprintf(&b, "  panic: %s\n", x.Panics[slot])
			}
		}
		return bad, b.String()
	}
	return false, "the race pass is replayed by running `.cache/bin/vcheck-race racepass 200`"
}

// c16BaseMain: one operation in a fresh process, outcome on stdout.
func c16BaseMain(args []string) int {
	var oi, slot int
	if len(args) < 2 {
		return 2
	}
	fmt.Sscanf(args[0], "%d", &oi)
	fmt.Sscanf(args[1], "%d", &slot)
	env, err := c16Load()
	ops := c16Ops()
	if err != nil || oi < 0 || oi >= len(ops) {
		return 2
	}
	fmt.Fprint(drv.RealStdout, ops[oi].Do(env, slot))
	return 0
}

func init() {
	run.Subcommands["c16base"] = c16BaseMain
	run.Register(&run.Check{
		ID:    "C16",
		Level: "model_checking",
		Rule: "10 operations: parse(valid source exercising every token kind and keyword letter case), parse(invalid source), parse(a source whose diagnostic is recorded by a constructor before the parse recovers from a nil node), load of a second script set whose files have the same text as the running ones but a different callee, load-and-run of a script whose grok / add_pattern / replace / zone texts nobody has used before (new on every call), run of shared loaded scripts plain / grok+add_pattern / use() of two callees / loops+collections / every builtin, each on its own point; " +
			"(1) every operation alone and every ordered pair: the deep hash (reflection+unsafe, unexported fields included) of everything reachable from the shared roots — the loaded scripts and EVERY package-level variable of the 9 repo packages (generated accessors) — must be unchanged by the operation unless it performed an exclusive lock/once operation (read locks do not exempt); " +
			"(2) cooperative scheduler over the sync.Pool shim: all 55 pairs with <=2 preemptions (thorough 3) and all 220 triples with <=1 (thorough 2) at every pool/lock operation, first thread chosen too; oracles per schedule: each result equals the alone-run, no panic, no deadlock, pooled objects owned by one goroutine between Get and Put (no put by non-owner, no double put, no object handed out twice, no modification while pooled), shared hash unchanged; " +
			"(3) separate free-running -race pass over all pairs, triples and 8/16-goroutine fan-outs (non-exhaustive, reported apart); distinct = distinct schedules",
		Assumptions: []string{
			"runs synchronise on nothing but the pools, so a segment that writes shared-reachable memory outside a lock is a data race with any concurrent reader; its absence on all operations licenses scheduling only at pool/lock operations (DRF reduction)",
			"opaque leaves hashed by identity: the pool shim, *regexp.Regexp, grok objects, loggers, other third-party pointers",
			"the race-detector pass samples schedules; absence of reports is claimed only for the combinations run",
		},
		Run:            c16Run,
		Replay:         c16Replay,
		QuickBudget:    6 * time.Minute,
		ThoroughBudget: 45 * time.Minute,
	})
}
