package checks

import (
	"testing"
	"time"
)

type dcMeta struct {
	a int
	B string
}
type dcPoint struct {
	Name   string
	Fields map[string]any
	Meta   map[string]*dcMeta
	last   *dcMeta
	lastK  string
	n      int
	T      time.Time
	list   []any
}

func TestDeepCopy(t *testing.T) {
	m := &dcMeta{a: 1, B: "x"}
	p := &dcPoint{Name: "n", Fields: map[string]any{"f": int64(1), "l": []any{int64(1), map[string]any{"k": "v"}}}, Meta: map[string]*dcMeta{"k1": m, "k2": m}, last: m, lastK: "k1", n: 7, T: time.Unix(5, 0), list: []any{1, "s"}}
	c := deepCopy(p)
	if c == p || c.Meta["k1"] == m || c.Meta["k1"] != c.Meta["k2"] || c.last != c.Meta["k1"] || c.lastK != "k1" || c.n != 7 || c.Meta["k1"].a != 1 || !c.T.Equal(p.T) {
		t.Fatalf("bad copy: %+v", c)
	}
	c.Meta["k1"].a = 9
	c.Fields["l"].([]any)[1].(map[string]any)["k"] = "changed"
	if m.a != 1 || p.Fields["l"].([]any)[1].(map[string]any)["k"] != "v" {
		t.Fatalf("copy shares storage with the original")
	}
	if len(c.list) != 2 || c.list[1] != "s" {
		t.Fatalf("list %v", c.list)
	}
}
