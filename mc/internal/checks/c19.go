package checks

import (
	"encoding/json"
	"fmt"
	"strings"
	"time"

	"github.com/GuanceCloud/platypus/pkg/ast"
	"github.com/GuanceCloud/platypus/pkg/engine"
	v2 "github.com/GuanceCloud/platypus/pkg/engine/runtimev2"
	"github.com/GuanceCloud/platypus/pkg/errchain"

	"verif/mc/internal/drv"
	"verif/mc/internal/run"
)

// C19 — v2 call arguments bind to the declared parameters or the call is
// rejected. Exhaustive over all parameter lists of length 0..4 and all call
// shapes with 0..5 arguments (DESIGN.md §6 C19).

const (
	pkRequired = iota
	pkOptional
	pkVariadic
)

var c19ParamNames = []string{"a", "b", "c", "e", "1x", "", "a-b"}
var c19ArgNames = []string{"a", "b", "c", "e", "zz"}

type c19Param struct {
	Kind int    `json:"kind"`
	Name string `json:"name"`
}

type c19Arg struct {
	Named bool   `json:"named"`
	Name  string `json:"name,omitempty"`
}

type c19Case struct {
	Params []c19Param `json:"params"`
	Args   []c19Arg   `json:"args,omitempty"`
	Src    string     `json:"src,omitempty"`
	Part   string     `json:"part"`
	Wrap   int        `json:"wrap,omitempty"` // index into c19Wraps: the call is nested inside another call / a literal
	Nested []int      `json:"nested,omitempty"` // part "nested": outer arity, position of the inner call, inner arity
}

// the call under test as a statement, or nested: as the value of a named argument, as a positional
// argument, inside a list literal that is an argument, as the right-hand side of an assignment
var c19Wraps = []string{"%s", "w(k = %s)", "w(%s)", "w(k = [1, %s])", "x = %s", "w(k = w(k = %s))",
	// statement contexts (the call is executed exactly once): branches, loop bodies, after a conditional
	// break/continue met earlier in the body, after an inner loop that ended with break, loop headers,
	// operands, index and literal positions
	"if true { %s }", "if false { x = 1 } else { %s }", "if false { x = 1 } elif true { %s }", "for i in [1] { %s }",
	"for i in [1] { if i == 2 { break }\n %s }", "for i in [1] { if i == 2 { continue }\n %s }",
	"for i = 0; i < 1; i = i + 1 { if i == 5 { break }\n %s }", "for i in [1, 2] { if i == 2 { break }\n %s }",
	"for i in [1] { for j in [1] { break }\n %s }", "for i in [1] { if true { if false { continue } }\n if true { %s } }",
	"if w(k = %s) == 2 { x = 1 }", "for i in [%s] { x = i }", "for i = %s; i < 1; i = i + 1 { x = i }", "l = [1, 2]\nx = l[%s]", "x = -%s", "x = 1 + %s * 2", "x = {\"a\": %s}",
	"for i in [1] { x = 1 }\n%s", "for i in [1] { break }\n%s"}

func c19ValidName(s string) bool {
	if s == "" {
		return false
	}
	for i, r := range s {
		letter := (r >= 'a' && r <= 'z') || (r >= 'A' && r <= 'Z') || r == '_' || r > 127
		digit := r >= '0' && r <= '9'
		if i == 0 && !letter {
			return false
		}
		if !letter && !digit {
			return false
		}
	}
	return true
}

// c19RefValid: reference validity of a parameter list; returns the reasons
// for rejection (empty = valid).
func c19RefValid(ps []c19Param) []string {
	var why []string
	seen := map[string]bool{}
	add := func(s string) {
		for _, w := range why {
			if w == s {
				return
			}
		}
		why = append(why, s)
	}
	opt := false
	for i, p := range ps {
		if !c19ValidName(p.Name) {
			add("invalid-name")
		} else if seen[p.Name] {
			add("duplicate-name")
		}
		seen[p.Name] = true
		switch p.Kind {
		case pkRequired:
			if opt {
				add("required-after-optional")
			}
		case pkOptional:
			opt = true
		case pkVariadic:
			if opt {
				add("variadic-mixed-with-optional")
			}
			if i != len(ps)-1 {
				add("variadic-not-last")
			}
		}
	}
	return why
}

var c19ArgLits = []string{"10", `"s1"`, "2.5", "true", "14"}
var c19ArgVals = []any{int64(10), "s1", 2.5, true, int64(14)}

type c19Binding struct {
	Kind string // "arg" | "default" | "tail"
	Arg  int
	Tail []int
}

// c19RefBind is the reference binder. reasons empty ⇒ bindable.
func c19RefBind(ps []c19Param, args []c19Arg) (reasons []string, bound []c19Binding) {
	hasVar := len(ps) > 0 && ps[len(ps)-1].Kind == pkVariadic
	slot := make([]int, len(ps))
	for i := range slot {
		slot[i] = -1
	}
	var tail []int
	seenNamed := false
	add := func(s string) {
		for _, w := range reasons {
			if w == s {
				return
			}
		}
		reasons = append(reasons, s)
	}
	npos := 0
	for j, a := range args {
		if a.Named {
			seenNamed = true
			if hasVar {
				add("named-with-variadic")
			}
			pi := -1
			for i, p := range ps {
				if p.Name == a.Name {
					pi = i
				}
			}
			if pi < 0 {
				add("unknown-name")
				continue
			}
			if slot[pi] >= 0 || (ps[pi].Kind == pkVariadic && len(tail) > 0) {
				add("duplicate-argument")
				continue
			}
			slot[pi] = j
		} else {
			if seenNamed {
				add("positional-after-named")
			}
			switch {
			case hasVar && npos >= len(ps)-1:
				tail = append(tail, j)
			case npos < len(ps):
				if slot[npos] >= 0 {
					add("duplicate-argument")
				} else {
					slot[npos] = j
				}
			default:
				add("surplus-positional")
			}
			npos++
		}
	}
	for i, p := range ps {
		if p.Kind == pkRequired && slot[i] < 0 {
			add("missing-required")
		}
	}
	if len(reasons) > 0 {
		return reasons, nil
	}
	for i, p := range ps {
		switch {
		case p.Kind == pkVariadic:
			bound = append(bound, c19Binding{Kind: "tail", Tail: tail})
		case slot[i] >= 0:
			bound = append(bound, c19Binding{Kind: "arg", Arg: slot[i]})
		default:
			bound = append(bound, c19Binding{Kind: "default"})
		}
	}
	return nil, bound
}

func c19Real(ps []c19Param) []*v2.Param {
	var out []*v2.Param
	for i, p := range ps {
		rp := &v2.Param{Name: p.Name}
		switch p.Kind {
		case pkOptional:
			d := fmt.Sprintf("d%d", i)
			rp.Val = func() any { return []any{d} } // a fresh mutable value per call (Val is a factory)
			if p.Name == "e" {
				rp.Val = func() any { return nil } // a declared default that is nil is still a default
			}
		case pkVariadic:
			rp.Variable = true
		}
		out = append(out, rp)
	}
	return out
}

func c19Src(args []c19Arg) string {
	var parts []string
	for j, a := range args {
		if a.Named {
			parts = append(parts, a.Name+"="+c19ArgLits[j])
		} else {
			parts = append(parts, c19ArgLits[j])
		}
	}
	return "f(" + strings.Join(parts, ", ") + ")"
}

// c19Exec loads and (if accepted) runs one call; returns accepted, and the
// probe observations per parameter.
func c19Exec(ps []c19Param, src string) (accepted bool, loadErr string, obs []string, runErr string) {
	params := c19Real(ps)
	var got []string
	depth := 0
	fn := &v2.Fn{
		Desc: v2.FnDesc{Name: "f", Params: params},
		CallCheck: func(ctx *v2.Task, expr *ast.CallExpr) *errchain.PlError {
			return v2.CheckPassParam(ctx, expr, params)
		},
		Call: func(ctx *v2.Task, expr *ast.CallExpr) *errchain.PlError {
			depth++
			defer func() { depth-- }()
			tag := ""
			if depth > 1 {
				tag = fmt.Sprintf("@%d:", depth) // a call of f met while an outer call of f reads its arguments
			}
			for i := range params {
				v, err := v2.GetParam(ctx, expr, params, i)
				if err != nil {
					got = append(got, tag+"ERR")
					continue
				}
				s := drv.Canon(v)
				if l, ok := v.([]any); ok && len(l) == 0 {
					s = "[]"
				}
				// typed getters must agree with GetParam
				switch x := v.(type) {
				case int64:
					if y, e := v2.GetParamInt(ctx, expr, params, i); e != nil || y != x {
						s += "!typed-getter-disagrees"
					}
					if _, e := v2.GetParamString(ctx, expr, params, i); e == nil {
						s += "!wrong-typed-getter-succeeds"
					}
				case string:
					if y, e := v2.GetParamString(ctx, expr, params, i); e != nil || y != x {
						s += "!typed-getter-disagrees"
					}
					if _, e := v2.GetParamInt(ctx, expr, params, i); e == nil {
						s += "!wrong-typed-getter-succeeds"
					}
				case float64:
					if y, e := v2.GetParamFloat(ctx, expr, params, i); e != nil || y != x {
						s += "!typed-getter-disagrees"
					}
					if _, e := v2.GetParamBool(ctx, expr, params, i); e == nil {
						s += "!wrong-typed-getter-succeeds"
					}
				case bool:
					if y, e := v2.GetParamBool(ctx, expr, params, i); e != nil || y != x {
						s += "!typed-getter-disagrees"
					}
					if _, e := v2.GetParamFloat(ctx, expr, params, i); e == nil {
						s += "!wrong-typed-getter-succeeds"
					}
				case []any:
					if y, e := v2.GetParamList(ctx, expr, params, i); e != nil || drv.Canon(y) != drv.Canon(x) {
						s += "!typed-getter-disagrees"
					}
					if _, e := v2.GetParamMap(ctx, expr, params, i); e == nil {
						s += "!wrong-typed-getter-succeeds"
					}
				}
				got = append(got, tag+s)
				// the callee may change a default it received in place; the next call gets a new one
				if l, ok := v.([]any); ok && len(l) == 1 {
					if d, isDefault := l[0].(string); isDefault && strings.HasPrefix(d, "d") {
						l[0] = "changed-in-place-by-an-earlier-call"
					}
				}
			}
			ctx.Regs.ReturnAppend(v2.V{V: int64(1), T: ast.Int})
			return nil
		},
	}
	fn.Desc.Returns = []*v2.Param{{Desc: "value"}}
	wparams := []*v2.Param{{Name: "k"}}
	wfn := &v2.Fn{
		Desc:      v2.FnDesc{Name: "w", Params: wparams, Returns: []*v2.Param{{Desc: "value"}}},
		CallCheck: func(ctx *v2.Task, expr *ast.CallExpr) *errchain.PlError { return v2.CheckPassParam(ctx, expr, wparams) },
		Call: func(ctx *v2.Task, expr *ast.CallExpr) *errchain.PlError {
			if _, err := v2.GetParam(ctx, expr, wparams, 0); err != nil {
				return err
			}
			ctx.Regs.ReturnAppend(v2.V{V: int64(2), T: ast.Int})
			return nil
		},
	}
	sc, err := engine.ParseV2("s.p", src, map[string]*v2.Fn{"f": fn, "w": wfn})
	if err != nil {
		return false, err.Error(), nil, ""
	}
	if e := sc.Run(nil); e != nil {
		return true, "", got, e.Error()
	}
	// a second run of the same loaded script observes the same bindings
	first := append([]string(nil), got...)
	got = nil
	if e := sc.Run(nil); e != nil {
		return true, "", first, "second run: " + e.Error()
	}
	if strings.Join(got, ";") != strings.Join(first, ";") {
		return true, "", first, fmt.Sprintf("second run of the loaded script binds %v, the first run bound %v", got, first)
	}
	// cancellation at every poll of the run: the callee either does not run or receives the same bindings
	count := &drv.Sig{}
	got = nil
	_ = sc.Run(count)
	for k := 1; k <= count.N && k <= 12; k++ {
		got = nil
		_ = sc.Run(&drv.Sig{FireAt: k})
		// (a script of several statements may be cut between them: then what ran is a prefix)
		isPrefix := strings.Contains(src, "\n") && len(got) <= len(first) && strings.Join(got, ";") == strings.Join(first[:len(got)], ";")
		if len(got) > 0 && strings.Join(got, ";") != strings.Join(first, ";") && !isPrefix {
			return true, "", first, fmt.Sprintf("with the exit signal true from poll %d on, the callee ran and received %v instead of %v", k, got, first)
		}
	}
	// the script loaded BEFORE this one (same or another text, another parameter list) still binds what it bound
	if c19Prev != nil {
		if msg := c19Prev(); msg != "" {
			c19Prev = nil
			return true, "", first, msg
		}
	}
	desc := src + " against " + c19Fmt(ps)
	c19Prev = func() string {
		got = nil
		if e := sc.Run(nil); e != nil {
			return fmt.Sprintf("the script %s, run again after a later load, fails: %v", desc, e)
		}
		if strings.Join(got, ";") != strings.Join(first, ";") {
			return fmt.Sprintf("the script %s bound %v; run again after a later load it binds %v", desc, first, got)
		}
		return ""
	}
	return true, "", first, ""
}

// c19Prev re-runs the previously loaded script (nil = none).
var c19Prev func() string

func c19Expect(ps []c19Param, bound []c19Binding) []string {
	var exp []string
	for i, b := range bound {
		switch b.Kind {
		case "arg":
			exp = append(exp, drv.Canon(c19ArgVals[b.Arg]))
		case "default":
			if ps[i].Name == "e" {
				exp = append(exp, drv.Canon(nil))
			} else {
				exp = append(exp, drv.Canon([]any{fmt.Sprintf("d%d", i)}))
			}
		case "tail":
			if len(b.Tail) == 0 {
				exp = append(exp, "[]")
			} else {
				var l []any
				for _, j := range b.Tail {
					l = append(l, c19ArgVals[j])
				}
				exp = append(exp, drv.Canon(l))
			}
		}
	}
	return exp
}

func c19CheckCall(ps []c19Param, args []c19Arg) (key, what string, outcome string) {
	return c19CheckCallIn(ps, args, 0)
}

func c19CheckCallIn(ps []c19Param, args []c19Arg, wrap int) (key, what string, outcome string) {
	src := fmt.Sprintf(c19Wraps[wrap], c19Src(args))
	reasons, bound := c19RefBind(ps, args)
	acc, lerr, obs, rerr := c19Exec(ps, src)
	outcome = fmt.Sprintf("%v|%v|%v", acc, reasons, obs)
	if len(reasons) > 0 {
		if acc {
			r := reasons[len(reasons)-1]
			if len(reasons) == 1 {
				r = reasons[0]
			}
			return "C19:call-accepted-but-unbindable:" + strings.Join(reasons, "+"),
				fmt.Sprintf("call %s against params %s is accepted at load time although it cannot be bound (%s)", src, c19Fmt(ps), r), outcome
		}
		return "", "", outcome
	}
	if !acc {
		return "C19:call-rejected-but-bindable", fmt.Sprintf("call %s against params %s is bindable but rejected: %s", src, c19Fmt(ps), lerr), outcome
	}
	if rerr != "" {
		return "C19:run-error-on-bound-call", fmt.Sprintf("call %s against params %s: run error %s", src, c19Fmt(ps), rerr), outcome
	}
	exp := c19Expect(ps, bound)
	if strings.Join(exp, ";") != strings.Join(obs, ";") {
		return "C19:wrong-binding", fmt.Sprintf("call %s against params %s: parameters received %v, reference binder says %v", src, c19Fmt(ps), obs, exp), outcome
	}
	return "", "", outcome
}

// c19NestedCheck: a call of f one of whose positional arguments is itself a call of f, as the first
// statement of a script and after a statement that has already called f (what a reused buffer would
// betray). The outer call receives exactly its arguments (the inner call's value among them), every
// evaluation of the inner call receives its own, and the second form behaves like the first.
func c19NestedCheck(ps []c19Param, outerN, innerPos, innerN int) (key, what, outcome string) {
	lit := func(n int) []string { return append([]string(nil), c19ArgLits[:n]...) }
	pos := func(n int) []c19Arg { return make([]c19Arg, n) }
	// the inner call spells its arguments in the reverse order of the literal table, so that no
	// position of the inner call holds the value the outer call has there
	n := len(c19ArgLits)
	ilits, ivals := make([]string, n), make([]any, n)
	for i := range c19ArgLits {
		ilits[i], ivals[i] = c19ArgLits[n-1-i], c19ArgVals[n-1-i]
	}
	inner := "f(" + strings.Join(ilits[:innerN], ", ") + ")"
	oargs := lit(outerN)
	oargs[innerPos] = inner
	nested := "f(" + strings.Join(oargs, ", ") + ")"
	warm := "f(" + strings.Join(lit(4), ", ") + ")"
	wr, _ := c19RefBind(ps, pos(4))
	if len(wr) > 0 {
		warm = "f(" + strings.Join(lit(len(ps)), ", ") + ")"
		if wr, _ = c19RefBind(ps, pos(len(ps))); len(wr) > 0 {
			warm = ""
		}
	}
	or, obound := c19RefBind(ps, pos(outerN))
	ir, ibound := c19RefBind(ps, pos(innerN))
	bindable := len(or) == 0 && len(ir) == 0
	acc1, lerr1, obs1, rerr1 := c19Exec(ps, nested)
	outcome = fmt.Sprintf("nested|%v|%v|%v", acc1, or, ir)
	desc := fmt.Sprintf("%s against params %s", nested, c19Fmt(ps))
	if !bindable {
		if acc1 {
			return "C19:call-accepted-but-unbindable:nested-in-own-argument", fmt.Sprintf("%s is accepted at load time although it cannot be bound (outer: %v, inner: %v)", desc, or, ir), outcome
		}
		return "", "", outcome
	}
	if !acc1 {
		return "C19:call-rejected-but-bindable:nested-in-own-argument", fmt.Sprintf("%s is bindable but rejected: %s", desc, lerr1), outcome
	}
	if rerr1 != "" {
		return "C19:run-error-on-bound-call:nested-in-own-argument", fmt.Sprintf("%s: run error %s", desc, rerr1), outcome
	}
	ovals := append([]any(nil), c19ArgVals...)
	ovals[innerPos] = int64(1) // what f returns
	expO := c19ExpectWith(ps, obound, ovals)
	expI := c19ExpectWith(ps, ibound, ivals)
	var gotO, gotI []string
	for _, e := range obs1 {
		if strings.HasPrefix(e, "@2:") {
			gotI = append(gotI, strings.TrimPrefix(e, "@2:"))
		} else {
			gotO = append(gotO, e)
		}
	}
	if strings.Join(gotO, ";") != strings.Join(expO, ";") {
		return "C19:wrong-binding:nested-in-own-argument:outer", fmt.Sprintf("%s: the outer call received %v, reference binder says %v", desc, gotO, expO), outcome
	}
	if len(ps) > 0 && (len(gotI) == 0 || len(gotI)%len(ps) != 0) {
		return "C19:wrong-binding:nested-in-own-argument:inner", fmt.Sprintf("%s: the inner call reported %v", desc, gotI), outcome
	}
	for g := 0; len(ps) > 0 && g < len(gotI); g += len(ps) {
		if strings.Join(gotI[g:g+len(ps)], ";") != strings.Join(expI, ";") {
			return "C19:wrong-binding:nested-in-own-argument:inner", fmt.Sprintf("%s: an evaluation of the inner call received %v, reference binder says %v", desc, gotI[g:g+len(ps)], expI), outcome
		}
	}
	if warm == "" {
		return "", "", outcome
	}
	acc2, lerr2, obs2, rerr2 := c19Exec(ps, warm+"\n"+nested)
	if !acc2 || rerr2 != "" {
		return "C19:nested-in-own-argument:fails-after-an-earlier-call", fmt.Sprintf("%s loads and runs alone; after the statement %s: %s %s", desc, warm, lerr2, rerr2), outcome
	}
	if len(obs2) < len(ps) || strings.Join(obs2[len(ps):], ";") != strings.Join(obs1, ";") {
		return "C19:wrong-binding:nested-in-own-argument:after-an-earlier-call", fmt.Sprintf("%s alone binds %v; after the statement %s the whole script binds %v", desc, obs1, warm, obs2), outcome
	}
	return "", "", outcome
}

func c19ExpectWith(ps []c19Param, bound []c19Binding, vals []any) []string {
	saved := c19ArgVals
	c19ArgVals = vals
	defer func() { c19ArgVals = saved }()
	return c19Expect(ps, bound)
}

func c19Fmt(ps []c19Param) string {
	var parts []string
	for _, p := range ps {
		switch p.Kind {
		case pkRequired:
			parts = append(parts, fmt.Sprintf("%q", p.Name))
		case pkOptional:
			parts = append(parts, fmt.Sprintf("%q=default", p.Name))
		case pkVariadic:
			parts = append(parts, fmt.Sprintf("...%q", p.Name))
		}
	}
	return "(" + strings.Join(parts, ", ") + ")"
}

func c19CheckDef(ps []c19Param) (key, what, outcome string) {
	why := c19RefValid(ps)
	err := v2.CheckFnParamDef(c19Real(ps))
	outcome = fmt.Sprintf("def|%v|%v", why, err == nil)
	if len(why) > 0 && err == nil {
		return "C19:paramdef-accepted:" + strings.Join(why, "+"),
			fmt.Sprintf("malformed parameter list %s (%s) passes validation", c19Fmt(ps), strings.Join(why, ",")), outcome
	}
	if len(why) == 0 && err != nil {
		return "C19:paramdef-rejected-valid", fmt.Sprintf("valid parameter list %s rejected: %v", c19Fmt(ps), err), outcome
	}
	return "", "", outcome
}

func c19Lists(maxLen int, f func(ps []c19Param)) {
	nch := 3 * len(c19ParamNames)
	var rec func(cur []c19Param, n int)
	rec = func(cur []c19Param, n int) {
		if len(cur) == n {
			f(cur)
			return
		}
		for c := 0; c < nch; c++ {
			rec(append(cur, c19Param{Kind: c / len(c19ParamNames), Name: c19ParamNames[c%len(c19ParamNames)]}), n)
		}
	}
	for n := 0; n <= maxLen; n++ {
		rec(nil, n)
	}
}

func c19Shapes(maxArgs int, f func(args []c19Arg)) {
	nch := 1 + len(c19ArgNames)
	var rec func(cur []c19Arg, n int)
	rec = func(cur []c19Arg, n int) {
		if len(cur) == n {
			f(cur)
			return
		}
		for c := 0; c < nch; c++ {
			a := c19Arg{}
			if c > 0 {
				a = c19Arg{Named: true, Name: c19ArgNames[c-1]}
			}
			rec(append(cur, a), n)
		}
	}
	for n := 0; n <= maxArgs; n++ {
		rec(nil, n)
	}
}

func c19Run(w *run.Worker) {
	var valid [][]c19Param
	c19Lists(4, func(ps []c19Param) {
		cp := append([]c19Param(nil), ps...)
		if len(c19RefValid(ps)) == 0 {
			valid = append(valid, cp)
		}
		if !w.Take() {
			return
		}
		w.Eval()
		key, what, out := c19CheckDef(cp)
		w.Outcome(out)
		if key != "" {
			w.Violate(key, what, c19Case{Params: cp, Part: "def"})
		}
	})
	if w.Shard == 0 {
		w.Note("valid_param_lists", int64(len(valid)))
	}
	// shape-major order: consecutive loads (also within one worker's share) are the SAME call text
	// against DIFFERENT parameter lists — what a cache keyed by text would confuse
	c19Shapes(5, func(args []c19Arg) {
		ca := append([]c19Arg(nil), args...)
		for _, ps := range valid {
			if !w.Take() {
				continue
			}
			w.Eval()
			key, what, out := c19CheckCall(ps, ca)
			w.Outcome(out)
			if w.WantSample() && len(ca) == 3 && len(ps) == 3 && w.Index()%977 == 0 {
				w.Sample(map[string]any{"params": c19Fmt(ps), "call": c19Src(ca), "outcome": out})
			}
			if key != "" {
				w.Violate(key, what, c19Case{Params: ps, Args: ca, Src: c19Src(ca), Part: "call"})
			}
		}
	})
	// a call of f among the positional arguments of a call of f
	for outerN := 1; outerN <= 4; outerN++ {
		for innerPos := 0; innerPos < outerN; innerPos++ {
			for innerN := 0; innerN <= 3; innerN++ {
				for _, ps := range valid {
					if !w.Take() {
						continue
					}
					w.Eval()
					key, what, out := c19NestedCheck(ps, outerN, innerPos, innerN)
					w.Outcome(out)
					if key != "" {
						w.Violate(key, what, c19Case{Params: ps, Part: "nested", Nested: []int{outerN, innerPos, innerN}})
					}
				}
			}
		}
	}
	// the same call nested inside other constructs (shapes of <=3 arguments): it is checked and bound alike
	c19Shapes(3, func(args []c19Arg) {
		ca := append([]c19Arg(nil), args...)
		for wrap := 1; wrap < len(c19Wraps); wrap++ {
			for _, ps := range valid {
				if !w.Take() {
					continue
				}
				w.Eval()
				key, what, out := c19CheckCallIn(ps, ca, wrap)
				w.Outcome(fmt.Sprintf("wrap%d|%s", wrap, out))
				if key != "" {
					w.Violate(key+":nested", what, c19Case{Params: ps, Args: ca, Src: fmt.Sprintf(c19Wraps[wrap], c19Src(ca)), Part: "call", Wrap: wrap})
				}
			}
		}
	})
}

func c19Replay(raw json.RawMessage) (bool, string) {
	var c c19Case
	if err := json.Unmarshal(raw, &c); err != nil {
		return false, err.Error()
	}
	if c.Part == "def" {
		key, what, _ := c19CheckDef(c.Params)
		return key != "", what
	}
	if c.Part == "nested" && len(c.Nested) == 3 {
		key, what, _ := c19NestedCheck(c.Params, c.Nested[0], c.Nested[1], c.Nested[2])
		return key != "", what
	}
	if c.Wrap < 0 || c.Wrap >= len(c19Wraps) {
		return false, "unknown wrap"
	}
	key, what, _ := c19CheckCallIn(c.Params, c.Args, c.Wrap)
	return key != "", what
}

func init() {
	run.Register(&run.Check{
		ID:    "C19",
		Level: "model_checking",
		Rule: "every parameter list of length 0..4 over kind {required, optional, variadic} x name {a,b,c,e,1x,\"\"} through CheckFnParamDef; " +
			"parameter names incl. malformed ones with a valid prefix; an optional parameter whose declared default is nil; every valid list x every call shape of 0..5 arguments (positional or named a|b|c|e|zz) through ParseV2 and Run with a probe reading every parameter via GetParam and the typed getters; " +
			"every valid list x every shape of <=3 arguments nested as the value of a named argument, as a positional argument, inside a list literal, as an assignment source, two calls deep; a call of f among the positional arguments of a call of f (outer arity 1..4 x position x inner arity 0..3), as the first statement and after an earlier call of f; " +
			"distinct = distinct (verdict, reference reasons, observed bindings) triples",
		Assumptions: []string{
			"the function's checker calls CheckPassParam and its body reads parameters with GetParam*, as the API intends",
			"argument values are 5 literals of pairwise distinct type/value so a mis-routed argument is visible",
		},
		Run:            c19Run,
		Replay:         c19Replay,
		QuickBudget:    5 * time.Minute,
		ThoroughBudget: 15 * time.Minute,
	})
}
