package checks

import (
	"encoding/json"
	"fmt"
	"os"
	"runtime"
	"sort"
	"strings"
	"sync"
	"sync/atomic"
	"time"

	plrt "github.com/GuanceCloud/platypus/pkg/engine/runtime"
	"github.com/GuanceCloud/platypus/pkg/parser"

	"verif/mc/internal/drv"
	"verif/mc/internal/rt"
)

// Operation bodies of C16, shared by the controlled-scheduler exploration
// (instrumented build) and the free-running race-detector pass (-race build).

type c16Op struct {
	Name string
	Do   func(env *c16Env, slot int) string
}

type c16Env struct {
	scripts map[string]*plrt.Script
}

var c16Sources = map[string]string{
	"plain.p": "add_key(leak, secret)\nadd_key(leak2, n)\nx = 1\nfor i in [1, 2] { x = x + i }\nadd_key(k, x)\nset_tag(t, \"v\")\np(x)\n",
	"grok.p":  "add_pattern(\"wd\", \"[a-z]+\")\nok = grok(_, \"%{wd:w} %{INT:n:int}\")\nadd_key(ok)\nif ok { p(w, n) }\n",
	"use.p":   "p(0)\nuse(\"plain.p\")\nuse(\"grok.p\")\nuse(\"plain.p\")\np(1)\n",
	"loop.p":  "n = 0\nfor j = 0; j < 5; j = j + 1 { n = n + j\nif n > 3 { continue } }\nadd_key(n)\nl = [1, 2, 3]\nl[0] = n\ng = [[0, 0], [1]]\ng[0][0] += n\nmm = {\"k\": [0]}\nmm[\"k\"][0] += 1\np(l[0:2], {\"a\": l}, g, mm)\ndefault_time(ts, \"America/New_York\")\nreplace(message, \"h(e)\", \"$1\")\nsecret = \"left behind by a failed run\"\nfor q in [1] { if q == 1 { p(1 / nosuchkey) } }\n",
	"all.p": "add_key(a1, 1)\nrename(a2, a1)\ncast(a2, \"str\")\nuppercase(message)\ntrim(message)\nreplace(message, \"L+\", \"l\")\nurl_decode(message)\nstrfmt(s1, \"%v-%d-%s\", a2, 3, message)\n" +
		"set_measurement(\"mm\")\ndrop_key(a2)\nj = load_json(\"[1, {\\\"a\\\": 2}]\")\nj[1][\"a\"] += 1\nj[0] = \"top\"\njd = load_json(jdoc)\njd[\"meta\"][\"hits\"] += 1\njd[\"tags\"][0] = \"seen\"\np(len(j), j[1][\"a\"], get_key(s1), j, jd)\nxml(xm, \"/a/b\", xb)\nxml(xm, \"/a/b > 6\", xc)\nxml(xm, \"count(/a/b)\", xd)\nsql_cover(sq)\ndatetime(ep, \"s\", \"RFC3339\")\ndefault_time(ts, \"Asia/Shanghai\")\ndefault_time(ts2)\n" +
		"if \"a\" in \"abc\" && 1 in [1] { p(-1 % 2 == -1) }\n",
}

var c16ParseSrc = "a = [1, 2, {\"k\": `q r`}]\nif a[0] == 1 && !b { f(a.b, x=1) } elif c { for i in a { break } } else { s = \"\\x41\\u00e9\" + 'b' + \"\"\"m\"\"\" }\nx = a[1:2:1]\nIf TRUE { y = Nil } ELIF False { Continue } Else { For q IN a { Break } }\n"
var c16Fresh int64

// SQL texts by slot: the first makes a shared tokenizer switch its escape mode, the others read differently in the two modes
var c16SQL = []string{`select * from t where dir = 'C:\tmp\'`, `select "C:\data\logs.csv" from t where id = 5`, "SELECT 'a\\' , b -- '\nFROM t"}

// a text whose diagnostic is recorded by a node constructor and whose parse then recovers from a nil node
var c16RecoverSrc = "x = 1\nfor y in 1/0 { p(y) }\nz = -1e\n"

var c16BadSrc = "a = (1 +\n\"unterminated\nb = -0x\n"

func c16Point(slot int) PointSpec {
	return PointSpec{Meas: fmt.Sprintf("m%d", slot), Tags: map[string]string{"t0": "tv"}, Fields: map[string]any{
		"message": fmt.Sprintf("hello %d", 40+slot), "xm": fmt.Sprintf("<a><b>%d</b><b>%d</b></a>", 5+slot, 3*slot), "sq": c16SQL[slot%len(c16SQL)], "ep": int64(1600000000), "ts": "2021-01-02 03:04:05", "ts2": "2021-03-04 05:06:07",
		"jdoc": `{"meta": {"hits": 0}, "tags": ["new", "x"]}`}, Time: int64(slot)}
}

func c16Ops() []c16Op {
	runOp := func(script string) c16Op {
		return c16Op{Name: "run(" + script + ")", Do: func(env *c16Env, slot int) string {
			pt := c16Point(slot).real().Build()
			res := drv.RunConcurrent(env.scripts[script], pt, nil)
			if res.Panic != "" {
				return "PANIC " + res.Panic + "\n" + res.Stack
			}
			errS := "<nil>"
			if res.Err != nil {
				errS = res.Err.Error()
			}
			return fmt.Sprintf("trace=%v point=%s err=%s", res.Trace, res.Point, errS)
		}}
	}
	parseOp := func(name, src string) c16Op {
		return c16Op{Name: "parse(" + name + ")", Do: func(env *c16Env, slot int) (out string) {
			defer func() {
				if r := recover(); r != nil {
					out = fmt.Sprintf("PANIC %v", r)
				}
			}()
			stmts, err := parser.ParsePipeline(fmt.Sprintf("p%d.p", slot), src)
			if err != nil {
				return "error: " + strings.Replace(err.Error(), fmt.Sprintf("p%d.p", slot), "pN.p", 1)
			}
			tree, cerr := drv.FromAst(stmts)
			if cerr != nil {
				return "malformed tree: " + cerr.Error()
			}
			return rt.SexpProg(tree)
		}}
	}
	loadOther := c16Op{Name: "load(other set, same texts)", Do: func(env *c16Env, slot int) (out string) {
		// another deployment: identical text for use.p and grok.p, a different plain.p
		other := map[string]string{"use.p": c16Sources["use.p"], "grok.p": c16Sources["grok.p"], "plain.p": "add_key(other_deployment, true)\n"}
		ok, errs := drv.Load(other)
		return fmt.Sprintf("loaded=%d errors=%d", len(ok), len(errs))
	}}
	// a deployment whose pattern texts nobody has seen before (every call makes new ones): whatever the
	// implementation memoises by text gets a new entry while other goroutines look theirs up
	loadFresh := c16Op{Name: "loadrun(never-seen pattern texts)", Do: func(env *c16Env, slot int) (out string) {
		n := atomic.AddInt64(&c16Fresh, 1)
		src := fmt.Sprintf("add_pattern(\"w%d\", \"[a-z]+\")\nok = grok(_, \"%%{w%d:word} %%{INT:n%d:int}\")\nreplace(message, \"l{%d}o|never%dseen\", \"L\")\ndefault_time(ts, \"Etc/GMT-%d\")\nIF ok { p(word) } ELSE { p(0) }\n", n, n, n%7, 1+n%3, n, 1+n%12)
		ok, errs := drv.Load(map[string]string{"fresh.p": src})
		if len(errs) > 0 {
			return fmt.Sprintf("load errors: %v", errs)
		}
		pt := c16Point(slot).real().Build()
		res := drv.RunConcurrent(ok["fresh.p"], pt, nil)
		if res.Panic != "" {
			return "PANIC " + res.Panic + "\n" + res.Stack
		}
		return fmt.Sprintf("trace=%v err=%v", res.Trace, res.Err)
	}}
	return []c16Op{parseOp("valid", c16ParseSrc), parseOp("bad", c16BadSrc), parseOp("recovering", c16RecoverSrc), loadOther, loadFresh, runOp("plain.p"), runOp("grok.p"), runOp("use.p"), runOp("loop.p"), runOp("all.p")}
}

func c16Load() (*c16Env, error) {
	ok, errs := drv.Load(c16Sources)
	if len(errs) > 0 {
		return nil, fmt.Errorf("harness scripts do not load: %v", errs)
	}
	return &c16Env{scripts: ok}, nil
}

// normOutcome makes outcomes comparable across slots (points differ by slot).
func c16Alone(env *c16Env, ops []c16Op, oi, slot int) string { return ops[oi].Do(env, slot) }

// multisets of size k over n operations
func multisets(n, k int) [][]int {
	var out [][]int
	var rec func(start int, cur []int)
	rec = func(start int, cur []int) {
		if len(cur) == k {
			out = append(out, append([]int{}, cur...))
			return
		}
		for i := start; i < n; i++ {
			rec(i, append(cur, i))
		}
	}
	rec(0, nil)
	return out
}

// RacePassMain is the free-running complementary pass, executed in a binary
// built with -race: every pair and triple of operations, started together
// behind a barrier, reps times; outcomes are compared with the alone-run and
// the race detector watches the real code (real sync.Pool, no scheduler).
func RacePassMain(args []string) int {
	reps := 50
	if len(args) > 0 {
		fmt.Sscanf(args[0], "%d", &reps)
	}
	drv.SilenceStdout()
	env, err := c16Load()
	if err != nil {
		fmt.Fprintln(os.Stderr, "RACEPASS-ERROR:", err)
		return 2
	}
	ops := c16Ops()
	type result struct {
		Combos     int      `json:"combinations"`
		Runs       int      `json:"runs"`
		Mismatches []string `json:"mismatches"`
		Threads    int      `json:"max_threads"`
	}
	res := result{}
	combos := append(multisets(len(ops), 2), multisets(len(ops), 3)...)
	// also wider fan-out: 8 and 16 goroutines cycling through all operations
	for _, n := range []int{8, 16} {
		var c []int
		for i := 0; i < n; i++ {
			c = append(c, i%len(ops))
		}
		combos = append(combos, c)
	}
	alone := map[[2]int]string{}
	for oi := range ops {
		for slot := 0; slot < 16; slot++ {
			alone[[2]int{oi, slot}] = ops[oi].Do(env, slot)
		}
	}
	start := time.Now()
	for _, combo := range combos {
		res.Combos++
		if len(combo) > res.Threads {
			res.Threads = len(combo)
		}
		for r := 0; r < reps; r++ {
			var wg sync.WaitGroup
			barrier := make(chan struct{})
			outs := make([]string, len(combo))
			for slot, oi := range combo {
				wg.Add(1)
				go func(slot, oi int) {
					defer wg.Done()
					<-barrier
					if (slot+r)%3 == 0 {
						runtime.Gosched() // varied start offsets
					}
					outs[slot] = ops[oi].Do(env, slot)
				}(slot, oi)
			}
			close(barrier)
			wg.Wait()
			res.Runs += len(combo)
			for slot, oi := range combo {
				if outs[slot] != alone[[2]int{oi, slot}] && len(res.Mismatches) < 20 {
					res.Mismatches = append(res.Mismatches, fmt.Sprintf("%s among %v: %s  (alone: %s)", ops[oi].Name, combo, outs[slot], alone[[2]int{oi, slot}]))
				}
			}
		}
		if time.Since(start) > 8*time.Minute {
			break
		}
	}
	sort.Strings(res.Mismatches)
	raw, _ := json.Marshal(res)
	fmt.Fprintln(os.Stderr, "RACEPASS-RESULT:", string(raw))
	return 0
}
