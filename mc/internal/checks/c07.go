package checks

import (
	"encoding/json"
	"fmt"
	"math"
	"math/big"
	"strconv"
	"strings"
	"time"
	"unicode/utf8"

	"verif/mc/internal/rt"
	"verif/mc/internal/run"
)

// C07 — literals denote exactly the values they spell.

type c07Case struct {
	Source string `json:"source"`
	Expect string `json:"expect"`
	Then   string `json:"then_parse,omitempty"` // a text parsed afterwards (the first tree must stay intact)
	Stmts  int    `json:"statements,omitempty"` // in-context cases: the number of statements the text has when the spelling is one literal
}

// refUnquote decodes the body of a "..." or '...' literal by the Go escape
// rules, with single quotes behaving like double quotes (the documented
// adaptation). ok=false: the spelling is malformed.
func refUnquote(body string, quote byte) (string, bool) {
	var out []byte
	for i := 0; i < len(body); {
		c := body[i]
		switch {
		case c == '\n':
			return "", false
		case c == quote:
			return "", false
		case c != '\\':
			out = append(out, c)
			i++
			continue
		}
		// escape
		i++
		if i >= len(body) {
			return "", false
		}
		e := body[i]
		i++
		simple := map[byte]byte{'a': 7, 'b': 8, 'f': 12, 'n': 10, 'r': 13, 't': 9, 'v': 11, '\\': '\\'}
		if v, ok := simple[e]; ok {
			out = append(out, v)
			continue
		}
		if e == quote {
			out = append(out, quote)
			continue
		}
		hexn := 0
		switch e {
		case 'x':
			hexn = 2
		case 'u':
			hexn = 4
		case 'U':
			hexn = 8
		}
		if hexn > 0 {
			if i+hexn > len(body) {
				return "", false
			}
			v, err := strconv.ParseUint(body[i:i+hexn], 16, 32)
			if err != nil || strings.ContainsAny(body[i:i+hexn], "+-_") {
				return "", false
			}
			i += hexn
			if e == 'x' {
				out = append(out, byte(v))
				continue
			}
			if v > 0x10FFFF || (v >= 0xD800 && v < 0xE000) {
				return "", false
			}
			var buf [4]byte
			n := utf8.EncodeRune(buf[:], rune(v))
			out = append(out, buf[:n]...)
			continue
		}
		if e >= '0' && e <= '7' {
			if i+2 > len(body) {
				return "", false
			}
			v := int(e - '0')
			for j := 0; j < 2; j++ {
				d := body[i+j]
				if d < '0' || d > '7' {
					return "", false
				}
				v = v*8 + int(d-'0')
			}
			i += 2
			if v > 255 {
				return "", false
			}
			out = append(out, byte(v))
			continue
		}
		return "", false
	}
	return string(out), true
}

func isQ(c byte) bool { return c == '"' || c == '\'' }

// c07Expect computes the expected result for a string-like literal.
// result: "val" with value, "reject", or "unspec".
func c07ExpectString(style int, body string) (kind string, val string) {
	if !utf8.ValidString(body) {
		return "unspec", "" // the property speaks of valid UTF-8 source text
	}
	switch style {
	case 0, 1:
		q := byte('"')
		if style == 1 {
			q = '\''
		}
		if len(body) > 0 && body[0] == q {
			// the text starts with two quote characters: it reads as an empty or a
			// triple-quoted literal followed by more text, not as this form
			return "unspec", ""
		}
		v, ok := refUnquote(body, q)
		if !ok {
			return "reject", ""
		}
		return "val", v
	case 2, 3:
		// raw triple-quoted: any three consecutive quote characters (of either kind) end the literal, so
		// the form is specified when the body holds no such run and does not end with a quote character
		// (one or two quote characters right after the opening delimiter are content)
		run := 0
		for i := 0; i < len(body); i++ {
			if isQ(body[i]) {
				run++
				if run >= 3 || i == len(body)-1 {
					return "unspec", ""
				}
			} else {
				run = 0
			}
		}
		return "val", body
	case 4:
		if strings.Contains(body, "`") {
			return "unspec", "" // ends the identifier early; what follows decides
		}
		return "val", body
	}
	return "unspec", ""
}

var c07Quotes = [][2]string{{`"`, `"`}, {`'`, `'`}, {`"""`, `"""`}, {`'''`, `'''`}, {"`", "`"}}

// c07ParseAssign parses `x = <spelling>` (or `<spelling> = 1` for identifiers)
// and returns the literal node, or an error.
func c07Literal(src string, identLHS bool) (*rt.Node, error) {
	prog, err := parseTree(src)
	if err != nil {
		return nil, err
	}
	if len(prog) != 1 || prog[0].K != rt.KAssign || len(prog[0].Kids) != 2 {
		return nil, fmt.Errorf("SHAPE: parsed as %s", rt.SexpProg(prog))
	}
	if identLHS {
		return prog[0].Kids[0], nil
	}
	return prog[0].Kids[1], nil
}

func c07Strings(w *run.Worker) {
	alpha := []string{"a", `"`, `'`, "`", `\`, "n", "x", "u", "U", "0", "1", "7", "8", "\n", "é", "\x00", "\r"}
	maxLen := 5
	if w.Thorough {
		maxLen = 6
	}
	var rec func(body string, n int)
	var prevNode *rt.Node
	var prevWant, prevSrc string
	one := func(body string) {
		for style := 0; style < 5; style++ {
			if !w.Take() {
				continue
			}
			if w.Expired() {
				return
			}
			kind, val := c07ExpectString(style, body)
			lit := c07Quotes[style][0] + body + c07Quotes[style][1]
			src := "x = " + lit
			if style == 4 {
				src = lit + " = 1"
			}
			w.Eval()
			if kind == "unspec" {
				w.Note("unspecified_cells_skipped", 1)
				// still must not crash or return neither tree nor error (C05); parse it
				_, _ = parseTree(src)
				continue
			}
			n, err := c07Literal(src, style == 4)
			mk := c07Case{Source: src, Expect: kind + ":" + strconv.Quote(val)}
			// the tree of the previous text is the caller's: a later parse must not change the value it holds
			if prevNode != nil && prevNode.S != prevWant {
				w.Violate("C07:string:earlier-tree-changed-by-a-later-parse", fmt.Sprintf("the literal parsed from %q held %q; after parsing %q it holds %q", prevSrc, prevWant, src, prevNode.S),
					c07Case{Source: prevSrc, Expect: "val:" + strconv.Quote(prevWant), Then: src})
			}
			prevNode = nil
			if err == nil && kind == "val" && n != nil && n.S == val {
				prevNode, prevWant, prevSrc = n, strings.Clone(val), src
			}
			styleName := []string{"double", "single", "triple-double", "triple-single", "backquote"}[style]
			switch {
			case kind == "reject":
				w.Outcome("reject")
				if err == nil {
					w.Violate("C07:string:"+styleName+":malformed-accepted:"+c07EscClass(body), fmt.Sprintf("malformed literal accepted: %q parsed to %s", src, rt.Sexp(n)), mk)
				}
			case err != nil:
				w.Outcome("reject!")
				w.Violate("C07:string:"+styleName+":valid-rejected:"+c07EscClass(body), fmt.Sprintf("valid literal rejected: %q (denotes %q): %v", src, val, err), mk)
			default:
				wantK := rt.KStr
				if style == 4 {
					wantK = rt.KIdent
				}
				w.OutcomeHash(hash2(n.S, styleName, 0))
				if n.K != wantK || n.S != val {
					w.Violate("C07:string:"+styleName+":wrong-value:"+c07EscClass(body), fmt.Sprintf("%q denotes %q, parsed as %s", src, val, rt.Sexp(n)), mk)
				}
			}
			if w.WantSample() && len(body) == 4 && strings.HasPrefix(body, `\x`) && style == 0 {
				w.Sample(map[string]any{"source": src, "expected": kind + " " + strconv.Quote(val)})
			}
		}
	}
	// the same literal after a statement that took the lexer through another mode (a back-quoted
	// name, each string form, a comment): what a spelling denotes does not depend on what came before
	contexts := []string{"`k` = 1\n", "s = 'q'\n", "s = \"q\\n\"\n", "s = \"\"\"q\"\"\"\n", "s = '''q'''; ", "# c `\n"}
	ctxLen := 3
	if w.Thorough {
		ctxLen = 4
	}
	ctxStmts := make([]int, len(contexts))
	for i, c := range contexts {
		if p, err := parseTree(c); err == nil {
			ctxStmts[i] = len(p)
		}
	}
	inContext := func(body string) {
		for style := 0; style < 5; style++ {
			kind, val := c07ExpectString(style, body)
			if kind == "unspec" {
				continue
			}
			lit := c07Quotes[style][0] + body + c07Quotes[style][1]
			for ci, ctx := range contexts {
				if !w.Take() {
					continue
				}
				src := ctx + "x = " + lit
				if style == 4 {
					src = ctx + lit + " = 1"
				}
				w.Eval()
				prog, err := parseTree(src)
				// as in the stand-alone part: a text that parses, but not as ONE further assignment, did not
				// accept the spelling as a literal (the quote characters formed something else)
				if err == nil && (len(prog) != ctxStmts[ci]+1 || prog[len(prog)-1].K != rt.KAssign || len(prog[len(prog)-1].Kids) != 2) {
					err = fmt.Errorf("SHAPE: parsed as %s", rt.SexpProg(prog))
				}
				mk := c07Case{Source: src, Expect: kind + ":" + strconv.Quote(val), Stmts: ctxStmts[ci] + 1}
				key := fmt.Sprintf("C07:string-in-context:%d:", ci)
				switch {
				case kind == "reject":
					w.Outcome("reject")
					if err == nil {
						w.Violate(key+"malformed-accepted:"+c07EscClass(body), fmt.Sprintf("malformed literal accepted: %q parsed to %s", src, rt.SexpProg(prog)), mk)
					}
				case err != nil:
					w.Violate(key+"valid-rejected:"+c07EscClass(body), fmt.Sprintf("valid literal rejected: %q (denotes %q): %v", src, val, err), mk)
				default:
					var n *rt.Node
					if last := prog[len(prog)-1]; len(prog) >= 1 && last.K == rt.KAssign && len(last.Kids) == 2 {
						n = last.Kids[b2i(style != 4)]
					}
					if n == nil || n.S != val {
						w.Violate(key+"wrong-value:"+c07EscClass(body), fmt.Sprintf("%q: the literal denotes %q, parsed as %s", src, val, rt.SexpProg(prog)), mk)
					} else {
						w.OutcomeHash(hash2(n.S, "ctx", ci))
					}
				}
			}
		}
	}
	rec = func(body string, n int) {
		one(body)
		if n <= ctxLen {
			inContext(body)
		}
		if n == maxLen {
			return
		}
		for _, a := range alpha {
			rec(body+a, n+1)
		}
	}
	rec("", 0)
	// every escape form in full (longer than the exhaustive bound)
	extra := []string{`\a\b\f\n\r\t\v\\`, `\x41\x7f\xff\x00`, `\101\377\000`, `\400`, `é日`, `\U0001F600`, `\U00110000`, `\ud800`, `\udfff`, ``,
		`\U0000d800`, `\x4`, `\x4g`, `\u12`, `\u123g`, `\U0001F60`, `\8`, `\18`, `\1`, `\12`, `\c`, `\ `, `\é`, `\X41`, `a\`, `\"`, `\'`, "\\`", `é日本`, "\t", "a\rb", "\uFFFD", "a\uFFFDb\n\uFFFD", "\xef\xbf", "\U0010FFFF\u2028",
		`\x41B\103D`, `\xAB\xaB\xFf`, `\uABCD\uabcd\uAbCd`, `\U0010FFFF`, `\U0010ffff`, `\U80000041`, `\UFFFFFFFF`, `a\UC0000062c`, `\U7FFFFFFF`, `\U00110000\x41`, `\uD7FF\uE000`, `\uDFFF`, `\U000E0000`, `\xG0`, `\x0G`, `\u00G0`, `%d \% %s`, `\u{41}`, `\N{dash}`, `\x-1`, `\u+041`, `\u 041`}
	for _, body := range extra {
		one(body)
	}
}

func c07EscClass(body string) string {
	i := strings.IndexByte(body, '\\')
	if i < 0 {
		for _, c := range []string{"\n", "\r", "\x00", `"`, `'`, "`", "é"} {
			if strings.Contains(body, c) {
				return "contains-" + strconv.Quote(c)
			}
		}
		return "plain"
	}
	if i+1 >= len(body) {
		return "trailing-backslash"
	}
	return "escape-" + strconv.Quote(body[i+1:i+2])
}

// ---- numbers -----------------------------------------------------------------

func c07IntValues() []*big.Int {
	seen := map[string]bool{}
	var out []*big.Int
	add := func(v *big.Int) {
		if v.Sign() < 0 {
			return
		}
		if k := v.String(); !seen[k] {
			seen[k] = true
			out = append(out, new(big.Int).Set(v))
		}
	}
	one := big.NewInt(1)
	for k := 0; k <= 64; k++ {
		p := new(big.Int).Lsh(one, uint(k))
		add(p)
		add(new(big.Int).Add(p, one))
		add(new(big.Int).Sub(p, one))
	}
	ten := big.NewInt(10)
	p := big.NewInt(1)
	for k := 0; k <= 20; k++ {
		add(p)
		add(new(big.Int).Add(p, one))
		add(new(big.Int).Sub(p, one))
		p = new(big.Int).Mul(p, ten)
	}
	for n := int64(0); n < 2000; n++ {
		add(big.NewInt(n))
	}
	return out
}

var maxI64 = big.NewInt(math.MaxInt64)

func c07Numbers(w *run.Worker) {
	prefixes := []struct {
		text string
		neg  bool
	}{{"", false}, {"+", false}, {"-", true}, {"- ", true}, {"--", false}, {"+-", true}, {"-+", true}, {"- -", false}}
	check := func(spelling string, prefixIdx int, expectKind string, iv int64, fv float64, class string) {
		if !w.Take() {
			return
		}
		pf := prefixes[prefixIdx]
		src := "x = " + pf.text + spelling
		w.Eval()
		n, err := c07Literal(src, false)
		mk := c07Case{Source: src, Expect: expectKind}
		switch expectKind {
		case "reject":
			w.Outcome("reject")
			if err == nil {
				w.Violate("C07:number:malformed-accepted:"+class, fmt.Sprintf("malformed number accepted: %q parsed to %s", src, rt.Sexp(n)), mk)
			}
		case "reject-or-inf":
			if err == nil && !(n.K == rt.KFloat && math.IsInf(n.F, 0)) {
				w.Violate("C07:number:overflow-wrong-value:"+class, fmt.Sprintf("%q parsed to %s", src, rt.Sexp(n)), mk)
			}
			w.Note("unspecified_cells_skipped", 1)
		case "int":
			if pf.neg {
				iv = -iv
			}
			if err != nil {
				w.Violate("C07:number:valid-rejected:"+class, fmt.Sprintf("%q rejected: %v", src, err), mk)
			} else if n.K != rt.KInt || n.I != iv {
				w.Violate("C07:number:wrong-value:"+class, fmt.Sprintf("%q denotes the integer %d, parsed as %s", src, iv, rt.Sexp(n)), mk)
			} else {
				w.OutcomeHash(uint64(n.I))
			}
		case "float":
			if pf.neg {
				fv = -fv
			}
			if err != nil {
				w.Violate("C07:number:valid-rejected:"+class, fmt.Sprintf("%q rejected: %v", src, err), mk)
			} else if n.K != rt.KFloat || (math.Float64bits(n.F) != math.Float64bits(fv) && !(math.IsNaN(n.F) && math.IsNaN(fv))) {
				w.Violate("C07:number:wrong-value:"+class, fmt.Sprintf("%q denotes the float %v, parsed as %s", src, fv, rt.Sexp(n)), mk)
			} else {
				w.OutcomeHash(math.Float64bits(n.F))
			}
		}
		if w.WantSample() && class == "decimal" && strings.HasPrefix(spelling, "922337203685477580") {
			w.Sample(map[string]any{"source": src, "expected": expectKind})
		}
	}
	// (B) integers
	for _, v := range c07IntValues() {
		spellings := []struct{ s, class string }{{v.String(), "decimal"}}
		if v.Sign() > 0 || true {
			h := v.Text(16)
			mixed := []byte(h)
			for i := range mixed {
				if i%2 == 0 && mixed[i] >= 'a' && mixed[i] <= 'f' {
					mixed[i] = mixed[i] - 'a' + 'A'
				}
			}
			spellings = append(spellings, struct{ s, class string }{"0x" + h, "hex"}, struct{ s, class string }{"0X" + strings.ToUpper(h), "hex"}, struct{ s, class string }{"0x" + string(mixed), "hex"})
		}
		for _, sp := range spellings {
			for pi := range prefixes {
				if v.Cmp(maxI64) <= 0 {
					check(sp.s, pi, "int", v.Int64(), 0, sp.class)
				} else if sp.class == "decimal" {
					f, _ := strconv.ParseFloat(sp.s, 64)
					check(sp.s, pi, "float", 0, f, sp.class)
				} else {
					if w.Take() {
						w.Note("unspecified_cells_skipped", 1) // hex literal >= 2^63
					}
				}
			}
		}
	}
	// (C) floats: d[.d][e[+-]d] with <=3 significant digits over the whole exponent range
	var mants []string
	for a := 0; a <= 9; a++ {
		mants = append(mants, fmt.Sprint(a))
		for b := 0; b <= 9; b++ {
			mants = append(mants, fmt.Sprintf("%d.%d", a, b))
			if w.Thorough || (a+b)%3 == 0 {
				for c := 0; c <= 9; c++ {
					mants = append(mants, fmt.Sprintf("%d.%d%d", a, b, c))
				}
			}
		}
	}
	mants = append(mants, "1.", "0.", "12.", "123", "999", "0.001", "00.5"[1:])
	exps := []string{""}
	for e := -330; e <= 312; e++ {
		if w.Thorough || e%7 == 0 || e > 300 || e < -318 || (e > -4 && e < 4) {
			exps = append(exps, fmt.Sprintf("e%d", e))
			if e >= 0 && e%14 == 0 {
				exps = append(exps, fmt.Sprintf("E+%d", e))
			}
		}
	}
	for _, m := range mants {
		for _, e := range exps {
			sp := m + e
			isFloatSpelling := strings.ContainsAny(sp, ".eE")
			if !isFloatSpelling {
				continue // plain integers are covered above
			}
			f, err := strconv.ParseFloat(sp, 64)
			for _, pi := range []int{0, 2} {
				if err != nil {
					check(sp, pi, "reject-or-inf", 0, 0, "float-overflow")
				} else {
					check(sp, pi, "float", 0, f, "float")
				}
			}
		}
	}
	// shortest round-trip spellings of +-2^k and neighbours
	for k := -1074; k <= 1023; k++ {
		if !w.Thorough && k%5 != 0 && k > -1070 && k < 1020 {
			continue
		}
		base := math.Ldexp(1, k)
		for _, f := range []float64{base, math.Nextafter(base, math.Inf(1)), math.Nextafter(base, 0)} {
			if f == 0 || math.IsInf(f, 0) {
				continue
			}
			sp := strconv.FormatFloat(f, 'g', -1, 64)
			if !strings.ContainsAny(sp, ".e") {
				sp += ".0"
			}
			check(sp, 0, "float", 0, f, "float-roundtrip")
			check(sp, 2, "float", 0, f, "float-roundtrip")
			sp2 := strconv.FormatFloat(f, 'e', 17, 64)
			check(sp2, 0, "float", 0, f, "float-roundtrip")
		}
	}
	// inf / nan in any letter case
	for _, word := range []string{"inf", "nan"} {
		for mask := 0; mask < 8; mask++ {
			sp := caseVariant(word, mask)
			if word == "inf" {
				check(sp, 0, "float", 0, math.Inf(1), "inf")
				check(sp, 2, "float", 0, math.Inf(1), "inf")
			} else {
				check(sp, 0, "float", 0, math.NaN(), "nan")
			}
		}
	}
	// malformed numbers
	for _, sp := range []string{"1e", "1.e", "1e+", "1e-", "0x", "0X", "1_0", "0b1", "0o7", "1.2.3", "1e2e3", "1e2.5", "0xg", "1a", "0x1p4", "1.5f", "12abc", "1..2", "0x1.8", "1e+-2"} {
		for _, pi := range []int{0, 2} {
			check(sp, pi, "reject", 0, 0, "malformed-"+sp)
		}
	}
}

func caseVariant(word string, mask int) string {
	b := []byte(word)
	for i := range b {
		if mask&(1<<uint(i)) != 0 {
			b[i] = b[i] - 'a' + 'A'
		}
	}
	return string(b)
}

func c07Keywords(w *run.Worker) {
	words := []struct {
		w    string
		kind rt.Kind
		b    bool
	}{{"true", rt.KBool, true}, {"false", rt.KBool, false}, {"nil", rt.KNil, false}, {"null", rt.KNil, false}}
	for _, kw := range words {
		for mask := 0; mask < 1<<uint(len(kw.w)); mask++ {
			if !w.Take() {
				continue
			}
			sp := caseVariant(kw.w, mask)
			src := "x = " + sp
			w.Eval()
			n, err := c07Literal(src, false)
			mk := c07Case{Source: src, Expect: kw.w}
			if err != nil {
				w.Violate("C07:keyword:rejected:"+kw.w, fmt.Sprintf("%q rejected: %v", src, err), mk)
			} else if n.K != kw.kind || (kw.kind == rt.KBool && n.B != kw.b) {
				w.Violate("C07:keyword:wrong-value:"+kw.w, fmt.Sprintf("%q parsed as %s", src, rt.Sexp(n)), mk)
			}
			w.Outcome(sp)
		}
	}
}

func c07Run(w *run.Worker) {
	c07Keywords(w)
	c07Numbers(w)
	c07Strings(w)
}

func c07Replay(raw json.RawMessage) (bool, string) {
	var c c07Case
	if err := json.Unmarshal(raw, &c); err != nil {
		return false, err.Error()
	}
	if c.Then != "" {
		first, err := c07Literal(c.Source, strings.HasPrefix(c.Source, "`"))
		if err != nil || first == nil {
			return false, fmt.Sprintf("first text does not parse: %v", err)
		}
		before := strings.Clone(first.S)
		_, _ = c07Literal(c.Then, strings.HasPrefix(c.Then, "`"))
		return first.S != before, fmt.Sprintf("first literal held %q, after parsing %q it holds %q", before, c.Then, first.S)
	}
	prog, err := parseTree(c.Source)
	got := "error: "
	if err != nil {
		got += err.Error()
	} else {
		got = rt.SexpProg(prog)
	}
	if err == nil && c.Stmts > 0 && len(prog) != c.Stmts {
		err = fmt.Errorf("SHAPE: %d statements", len(prog))
		got = "not one literal: " + got
	}
	bad := true
	switch {
	case strings.HasPrefix(c.Expect, "reject:"):
		bad = err == nil
	case strings.HasPrefix(c.Expect, "val:") && err == nil && len(prog) > 0:
		if want, uerr := strconv.Unquote(strings.TrimPrefix(c.Expect, "val:")); uerr == nil {
			last := prog[len(prog)-1]
			for _, k := range last.Kids {
				if k != nil && (k.K == rt.KStr || k.K == rt.KIdent) && k.S == want {
					bad = false
				}
			}
		}
	}
	return bad, fmt.Sprintf("%q\nparsed  : %s\nexpected: %s", c.Source, got, c.Expect)
}

func init() {
	run.Register(&run.Check{
		ID:    "C07",
		Level: "model_checking",
		Rule: "(A) every string body of length <=5 (thorough <=6) over the 17 symbols {a \" ' ` \\ n x u U 0 1 7 8 newline é NUL CR} between each of 5 quote styles, plus 51 longer escape forms (incl. a literal U+FFFD and truncated UTF-8); after every accepted literal the NEXT parse must leave the value held by the earlier tree unchanged; every body of length <=3 (thorough <=4) once more after a statement that took the lexer through another mode (a back-quoted name, each of the four string forms, a comment); " +
			"(B) all integers 2^k, 2^k+-1 (k<=64), 10^k, 10^k+-1, 0..1999 spelled decimal and 0x/0X x 8 sign prefixes; (C) every float spelling d[.d[d]][e[+-]d] over the whole exponent range, shortest and 17-digit spellings of +-2^k and neighbours, inf/nan in all letter cases, 20 malformed numbers; " +
			"(D) true/false/nil/null in all letter-case variants; oracle: reference decoder written from the Go escape rules (single quotes like double quotes), strconv.ParseFloat as trusted arithmetic",
		Assumptions: []string{"unspecified cells skipped and counted: other triple quote inside a raw string, hex literals >= 2^63, float overflow (rejected or +-Inf both accepted), back quote inside a back-quoted identifier"},
		Run:            c07Run,
		Replay:         c07Replay,
		QuickBudget:    4 * time.Minute,
		ThoroughBudget: 25 * time.Minute,
	})
}
