//go:build verif

package checks

import (
	"encoding/json"
	"fmt"
	"os"
	"os/exec"
	"strings"
	"time"

	plrt "github.com/GuanceCloud/platypus/pkg/engine/runtime"
	"github.com/GuanceCloud/platypus/pkg/inimpl/guancecloud/input"
	"github.com/GuanceCloud/platypus/pkg/parser"
	v2 "github.com/GuanceCloud/platypus/pkg/engine/runtimev2"
	vsync "github.com/GuanceCloud/platypus/pkg/verifsync"

	"verif/mc/internal/drv"
	"verif/mc/internal/run"
)

// C15 — each run depends only on its script, its functions and its input
// point. Explicit-state search over operation histories; the answers of every
// pool Get are explorer choices (instrumented build: sync.Pool shim).

type c15Case struct {
	History []int `json:"history"` // operation indices
	Choices []int `json:"choices"` // pool answers (index into pooled items, n = New); shorter = defaults after
}

type c15Op struct {
	Name string
	Do   func(env *c15Env) string // returns the canonical outcome
}

type c15Env struct {
	scripts map[string]*plrt.Script // loaded once, shared by all histories (as a host would)
	v2      map[string]*v2.Script   // the same for the v2 interpreter
	kept    map[string]*plrt.Script // loaded by an operation of the current history and still held by the host
}

var c15V2Sources = map[string]string{
	// default values of a callee changed in place by the script: every call gets new ones
	"dflt.p": "r = dflt()\np(r)\nl = r[0]\nl[0] = \"changed\"\nm = r[1]\nm[\"k\"] = 2\nm[\"added\"] = true\np(r)\n",
	"vars.p": "x = 1\nsecret = [1]\nfor i in [1, 2] { if i == 2 { p(1 / nil) } }\n",
	"read.p": "p(one())\ny = 2\nif y { p(y) }\n",
}

func c15LoadV2() map[string]*v2.Script {
	out := map[string]*v2.Script{}
	for name, src := range c15V2Sources {
		if sc, err := drv.LoadV2(name, src); err == nil {
			out[name] = sc
		}
	}
	return out
}

var c15Sources = map[string]string{
	"ok.p":     "add_key(k, 1)\nx = 5\nadd_key(y, x)\nset_measurement(\"mm\")\nadd_key(total, f1 + 1)\nadd_key(where, t1 + \"!\")\nadd_key(twice, f2 * 2)\nsql_cover(sq)\nstrfmt(out, \"%v/%v\", f1, f2)\nprintf(\"%v|%v\\n\", f1, t1)\n",
	"loop.p":   "secret = \"leaked-by-loop\"\nsecret2 = [9]\nfor i in [1, 2, 3] {\n inner = i\n add_key(k, i)\n if i == 2 { p(1 / zz) }\n}\n",
	"exit.p":   "x = 1\nsecret = \"leaked-by-exit\"\nfor i in [1, 2] { if i == 1 { if true { inner = 7\nadd_key(e, i)\nexit() } } }\nadd_key(after, 1)\n",
	"setv.p":   "secret = 42\nsecret2 = [1, 2]\n_ = \"shadowed message\"\nadd_key(done, 1)\n",
	"readv.p":  "add_key(leak, secret)\nadd_key(leak2, secret2)\nadd_key(leak3, inner)\nadd_key(leak4, i)\nadd_key(leak5, x)\nadd_key(msgcopy, _)\nif secret == nil { add_key(clean, true) }\n",
	"grok.p":   "add_pattern(\"wd\", \"[a-z]+\")\nok = grok(_, \"%{wd:w} %{INT:n:int}\")\nadd_key(ok)\nuse(\"ok.p\")\n",
	"retag.p":  "drop_key(t1)\nset_tag(f1)\nadd_key(t1, \"now field\")\nrename(g, f1)\ncast(f2, \"str\")\nadd_key(t2, drop_key(nokey))\nrename(t9, t2)\nset_tag(f3, obj.attr)\nrename(t8, f3)\nadd_key(f4, nil)\nrename(t7, f4)\nrename(t6, nokey)\nsql_cover(sq)\n",
	"spin.p":   "n = 0\nfor ;; { n = n + 1\nadd_key(n) }\n",
	// a decoded document changed in place, and an error raised two use() levels away from a builtin whose
	// literal argument cannot be compiled (the error object must be made anew on every run)
	"jsonmut.p": "j = load_json(fj)\nj[\"a\"][0] += 1\nj[\"level\"] = \"masked\"\nadd_key(ja, j[\"a\"][0])\nadd_key(jl, j[\"level\"])\n",
	"badre.p":   "add_key(before, 1)\nreplace(message, \"(unclosed\", \"x\")\nadd_key(after, 1)\n",
	"usebad.p":  "add_key(k, len(message))\nuse(\"badre.p\")\n",
	"pf.p":      "x = [1, 2]\nfor i = 0; i < 5; i = i + 1 { printf(\"%v %v\\n\", \"item\", x[i]) }\n",
	// an unknown zone (asked for again by every run), a known one, and the default
	"tz.p": "default_time(ts, \"Mars/Olympus_Mons\")\nadd_key(after, 1)\ndefault_time(ts2, \"Asia/Tokyo\")\n",
	// slices with literal steps larger than one input and smaller than another; a collection without JSON text written over a string field
	"slice.p":   "add_key(s1, message[::5])\nadd_key(s2, message[1:9:3])\nl = [1, 2, 3, 4, 5, 6, 7]\nadd_key(s3, l[::4])\nadd_key(s4, f1s[::2])\n",
	"nanlist.p": "big = 1e308 * 10.0\nadd_key(message, [1, big - big])\nadd_key(f1, {\"limit\": big})\nadd_key(after, 1)\n",
	"lit.p":    "g = [[0, 0], [1]]\ng[0][0] += 1\nm = {\"k\": [0], \"j\": {\"n\": 0}}\nm[\"k\"][0] += 1\nm[\"j\"][\"n\"] = m[\"j\"][\"n\"] + 1\nadd_key(g0, g[0][0])\nadd_key(mk, m[\"k\"][0])\nadd_key(mj, m[\"j\"][\"n\"])\nif \"a\" in [\"a\", \"b\"] { add_key(found, true) }\nsql_cover(sq)\nset_tag(newtag, \"set on a point that came without tags\")\n",
}

func c15Points() []PointSpec {
	return []PointSpec{
		{Meas: "m1", Tags: map[string]string{"t1": "tv"}, Fields: map[string]any{"message": "hello 42", "f1": int64(7), "f2": 2.5, "sq": `select * from t where dir = 'c:\temp\'`, "fj": `{"a": [1], "level": "info"}`, "f1s": "a fairly long string field", "ts": "2021-01-02 03:04:05", "ts2": "2021-03-04 05:06:07"}, Time: 1600000000000000000},
		{Meas: "m2", Tags: nil, Fields: map[string]any{"message": "x", "sq": "SELECT 'a\\' , b -- '\nFROM t"}, Time: 1}, // no tags at all (as every text input)
		{Meas: "m3", Tags: map[string]string{"t1": "a", "t2": "b", "t3": "c"}, Fields: map[string]any{"message": nil, "f1": "s", "f2": true, "f3": int64(1), "f4": int64(2), "sq": `select "prod\users" from t where p = 'x\'`}, Time: 2},
	}
}

// runOnPooledPoint runs a loaded script on a point taken from the point pool
// (as the command-line runner does) and returns the canonical outcome.
func runOnPooledPoint(sc *plrt.Script, ps PointSpec, fireAt int) string {
	pt := input.GetPoint()
	defer input.PutPoint(pt)
	var tags map[string]string // nil when the point comes without tags
	for k, v := range ps.Tags {
		if tags == nil {
			tags = map[string]string{}
		}
		tags[k] = v
	}
	fields := map[string]any{}
	for k, v := range ps.Fields {
		fields[k] = v
	}
	input.InitPt(pt, ps.Meas, tags, fields, time.Unix(0, ps.Time))
	var sig *drv.Sig
	if fireAt > 0 {
		sig = &drv.Sig{FireAt: fireAt}
	} else {
		sig = &drv.Sig{FireAt: 500}
	}
	res := drv.Run(sc, pt, sig)
	if res.Panic != "" {
		return "PANIC " + res.Panic
	}
	errS := "<nil>"
	if res.Err != nil {
		errS = res.Err.Error()
	}
	return fmt.Sprintf("trace=%v point=%s err=%s drop=%v", res.Trace, res.Point, errS, pt.Drop)
}

func c15Ops() []c15Op {
	load := func(name, src string) c15Op {
		return c15Op{Name: "load(" + name + ")", Do: func(env *c15Env) string {
			stmts, err := parser.ParsePipeline("l.p", src)
			if err != nil {
				return "parse-error: " + err.Error()
			}
			ok, errs := drv.Load(map[string]string{"l.p": src})
			if e, bad := errs["l.p"]; bad {
				return "load-error: " + e.Error()
			}
			tree, _ := drv.FromAst(stmts)
			return fmt.Sprintf("loaded %d statements, %d call refs, tree %d", len(ok["l.p"].Ast), len(ok["l.p"].CallRef), len(tree))
		}}
	}
	pts := c15Points()
	runOp := func(script string, pi int, fireAt int) c15Op {
		name := fmt.Sprintf("run(%s, point%d)", script, pi+1)
		if fireAt > 0 {
			name = fmt.Sprintf("run(%s, point%d, cancelled at poll %d)", script, pi+1, fireAt)
		}
		return c15Op{Name: name, Do: func(env *c15Env) string { return runOnPooledPoint(env.scripts[script], pts[pi], fireAt) }}
	}
	// load a fresh script set and run its entry script: the outcome shows what the load produced
	loadRun := func(name string, set map[string]string, main string, pi int) c15Op {
		return c15Op{Name: "loadrun(" + name + ")", Do: func(env *c15Env) string {
			ok, errs := drv.Load(set)
			if e, bad := errs[main]; bad {
				return "load-error: " + e.Error()
			}
			return runOnPooledPoint(ok[main], pts[pi], 0)
		}}
	}
	runV2 := func(name string) c15Op {
		return c15Op{Name: "runv2(" + name + ")", Do: func(env *c15Env) string {
			sc := env.v2[name]
			if sc == nil {
				return "v2 script does not load"
			}
			res := drv.RunV2(sc, &drv.Sig{FireAt: 500})
			if res.Panic != "" {
				return "PANIC " + res.Panic
			}
			return fmt.Sprintf("trace=%v err=%v", res.Trace, res.Err)
		}}
	}
	// a script loaded by one operation, held by the host, and run by a later operation: whatever was
	// parsed, loaded or run in between, it still is the script its text says
	escSrc := "add_key(e1, \"a\\tb\")\nadd_key(e2, \"q\\\"r\\\\s\\x41\")\n`k y` = 'v\\u00e9'\nadd_key(e3, `k y`)\nif _ == \"hello\\x2042\" { add_key(eq, true) }\nreplace(message, \"h\\x65llo\", \"J\\x41\")\nadd_key(m, {\"k\\n\": [1.5, \"\\\\\"]})\n" +
		// ... and one construct of every other kind (whatever a later parse does to storage this tree lives in shows in the run)
		"if f1 == 8 { add_key(br, 1) } elif f1 == 7 { add_key(br, 2) } elif f1 == 7 { add_key(br, 4) } else { add_key(br, 3) }\nfor ci = 0; ci < 2; ci = ci + 1 { add_key(cnt, ci) }\nfor cw in [\"p\", \"q\"] { add_key(last, cw) }\nadd_key(sl, message[1:5:2])\nadd_key(neg, -f1 + 2 * 3)\n"
	keepLoad := c15Op{Name: "keepload(esc.p)", Do: func(env *c15Env) string {
		ok, errs := drv.Load(map[string]string{"esc.p": escSrc})
		if e, bad := errs["esc.p"]; bad {
			return "load-error: " + e.Error()
		}
		env.kept["esc.p"] = ok["esc.p"]
		return fmt.Sprintf("kept %d statements", len(ok["esc.p"].Ast))
	}}
	runKept := c15Op{Name: "runkept(esc.p)", Do: func(env *c15Env) string {
		if env.kept["esc.p"] == nil {
			ok, errs := drv.Load(map[string]string{"esc.p": escSrc})
			if e, bad := errs["esc.p"]; bad {
				return "load-error: " + e.Error()
			}
			env.kept["esc.p"] = ok["esc.p"]
		}
		return runOnPooledPoint(env.kept["esc.p"], pts[0], 0)
	}}
	grokExpr := "grok(_, \"%{WORD:first} %{INT:n:int}\")\n"
	return []c15Op{
		loadRun("grok with global patterns", map[string]string{"g.p": "if true {\n" + grokExpr + "}\n"}, "g.p", 0),
		loadRun("grok under a local pattern of the same name", map[string]string{"g.p": "add_pattern(\"WORD\", \"[a-z]+ [0-9]\")\nif true {\n" + grokExpr + "}\n"}, "g.p", 0),
		loadRun("other deployment with the same entry text", map[string]string{"grok.p": c15Sources["grok.p"], "ok.p": "add_key(other_deployment, true)\n"}, "grok.p", 0),
		load("valid", "x = [1, 2]\nif x { add_key(k, len(x)) }\ngrok(_, \"%{WORD:w}\")\n"),
		load("syntax-error", "a = (1 +\nb = 2\n"),
		load("lexer-error", "a = \"unterminated\nb = 2\n"),
		load("parser-panic-input", "x = -0x\nfor a in 1e {}\n"),
		// a constructor fault in the very last token of the text, no line break after it
		load("fault-at-end-of-input", "x = -a[1/0]"),
		load("check-error", "add_key(k, 1)\nnosuch(1)\n"),
		load("check-error-inside-loops", "for ;; { for v in [1] { nosuch(1) } }\n"),
		load("stray-break", "x = 1\nif x { break }\n"),
		// every lexer mode entered and left: back-quoted names, the three string forms, comments, nesting
		load("all-token-kinds", "`a b` = [1, {\"k\": `q r`}, 'x', \"\"\"m\nn\"\"\", '''t'''] # c\nif `a b`[0] == 0x1F && !nil { f(a.b, x=1.5e3) } elif c { for i in a { break } } else { s = \"\\x41\\u00e9\" }\n"),
		// errors whose text depends on the lexer's mode flags and nesting counters
		load("escape-in-string-error", "s = \"a\\`b\"\n"),
		load("error-inside-nesting", "x = [1, (2, {\"k\": `unterminated\n"),
		runOp("ok.p", 0, 0),
		runOp("loop.p", 1, 0),
		runOp("exit.p", 0, 0),
		runOp("setv.p", 2, 0),
		runOp("readv.p", 0, 0),
		runOp("grok.p", 0, 0),
		runOp("retag.p", 2, 0),
		runOp("lit.p", 1, 0),
		runOp("loop.p", 0, 1),
		runOp("spin.p", 1, 7),
		runOp("jsonmut.p", 0, 0),
		runOp("usebad.p", 0, 0),
		runOp("pf.p", 1, 0),
		runOp("tz.p", 0, 0),
		runOp("slice.p", 1, 0),
		runOp("slice.p", 0, 0),
		runOp("nanlist.p", 0, 0),
		keepLoad,
		runKept,
		runV2("dflt.p"),
		runV2("vars.p"),
		runV2("read.p"),
	}
}

func c15Pools() []*vsync.Pool { return allPools() }

func c15Drain() {
	for _, p := range c15Pools() {
		p.Drain()
	}
}

type c15Point struct {
	n      int  // number of pooled items at the choice
	timers bool // callbacks armed by an earlier operation (time.AfterFunc) are pending here
}

type c15Timer struct {
	t  *time.Timer
	f  func()
	op int // position in the history of the operation that armed it
}

// c15Exec runs a history under a choice prefix; returns the outcome of the
// last operation, the choice points met and the choices taken.
func c15Exec(env *c15Env, ops []c15Op, hist []int, prefix []int) (last string, points []c15Point, taken []int, badPrefix bool) {
	c15Drain()
	env.kept = map[string]*plrt.Script{}
	// timer seam: a callback armed by one operation and still pending is delivered — if the explorer
	// says so — right after a pool Get of a LATER operation (an answer -(a+1) means: answer a, then
	// deliver). A timer the code has stopped is never delivered.
	var timers []c15Timer
	curOp, deliver := 0, false
	pendingEarlier := func() bool {
		for _, tm := range timers {
			if tm.f != nil && tm.op < curOp {
				return true
			}
		}
		return false
	}
	vsync.Hooks.Timer = func(t *time.Timer, d time.Duration, f func()) { timers = append(timers, c15Timer{t: t, f: f, op: curOp}) }
	vsync.Hooks.OnGet = func(p *vsync.Pool, obj any, fresh bool) {
		if !deliver {
			return
		}
		deliver = false
		for i := range timers {
			if timers[i].f != nil && timers[i].op < curOp {
				f := timers[i].f
				timers[i].f = nil
				if timers[i].t.Stop() {
					f()
				}
			}
		}
	}
	defer func() {
		vsync.Hooks.Timer, vsync.Hooks.OnGet = nil, nil
		for _, tm := range timers {
			if tm.f != nil {
				tm.t.Stop()
			}
		}
	}()
	vsync.Hooks.Choose = func(p *vsync.Pool, n int) int {
		i := len(points)
		points = append(points, c15Point{n: n, timers: pendingEarlier()})
		choice := n - 1 // default: LIFO top; with an empty pool: New (n == 0 -> -1 is out of range, i.e. New)
		if n == 0 {
			choice = 0
		}
		given := choice
		if i < len(prefix) {
			given = prefix[i]
			choice = given
			if given < 0 {
				choice = -given - 1
				deliver = true
			}
			if choice > n {
				badPrefix = true
				choice = n
			}
		}
		taken = append(taken, given)
		return choice
	}
	var poolProblem string
	vsync.Hooks.OnPut = func(p *vsync.Pool, obj any) {
		if obj == nil {
			return
		}
		for _, it := range p.Items() {
			if it == obj && poolProblem == "" {
				poolProblem = fmt.Sprintf("POOL-DISCIPLINE: %T put into its pool while already in it", obj)
			}
		}
	}
	defer func() { vsync.Hooks.Choose, vsync.Hooks.OnPut = nil, nil }()
	for k, oi := range hist {
		curOp = k
		last = ops[oi].Do(env)
	}
	if poolProblem != "" {
		last = poolProblem + " | " + last
	}
	return last, points, taken, badPrefix
}

func c15Run(w *run.Worker) {
	ops := c15Ops()
	env := &c15Env{}
	c15Drain()
	loaded, errs := drv.Load(c15Sources)
	if len(errs) > 0 {
		w.Violate("C15:harness-scripts-do-not-load", fmt.Sprint(errs), c15Case{})
		return
	}
	env.scripts = loaded
	env.v2 = c15LoadV2()
	// baselines: each operation executed FIRST IN A FRESH PROCESS (package-level state
	// such as caches cannot be reset from inside a process)
	base := make([]string, len(ops))
	exe, _ := os.Executable()
	for i := range ops {
		raw, err := exec.Command(exe, "c15base", fmt.Sprint(i)).Output()
		if err != nil {
			w.Violate("C15:harness:baseline-process-failed", fmt.Sprintf("%s: %v", ops[i].Name, err), c15Case{History: []int{i}})
			return
		}
		base[i] = string(raw)
		out, _, _, _ := c15Exec(env, ops, []int{i}, nil)
		if out != base[i] && w.Shard == 0 {
			// the worker process itself is fresh at this point apart from the operations before i
			w.Violate("C15:outcome-depends-on-history:"+ops[i].Name+":after-earlier-baselines",
				fmt.Sprintf("%s in a fresh process gives %s\nafter the operations %v in this process it gives %s", ops[i].Name, base[i], opNames(ops[:i]), out), c15Case{History: []int{i}})
		}
		if strings.HasPrefix(base[i], "PANIC") {
			w.Violate("C15:panic", base[i], c15Case{History: []int{i}})
		}
	}
	maxLen, bound := 3, 2
	if w.Thorough {
		maxLen, bound = 4, 2
	}
	if w.Shard == 0 {
		w.Note("operations", int64(len(ops)))
	}
	var explore func(hist []int, prefix []int, devs int)
	explore = func(hist []int, prefix []int, devs int) {
		last, points, taken, bad := c15Exec(env, ops, hist, prefix)
		w.Eval()
		if bad {
			w.Violate("C15:harness:replay-diverged", fmt.Sprintf("choice prefix %v does not fit history %v", prefix, hist), c15Case{History: hist, Choices: prefix})
			return
		}
		li := hist[len(hist)-1]
		w.Outcome(fmt.Sprintf("%v|%v|%s", hist, taken, last))
		if last != base[li] {
			var names []string
			for _, h := range hist {
				names = append(names, ops[h].Name)
			}
			kind := "after-default-pool-reuse"
			if devs > 0 {
				kind = "after-pool-answer-deviation"
			}
			for _, c := range taken {
				if c < 0 {
					kind = "after-a-timer-callback-armed-by-an-earlier-operation"
				}
			}
			w.Violate("C15:outcome-depends-on-history:"+ops[li].Name+":"+kind,
				fmt.Sprintf("history %v with pool answers %v:\nlast operation gives  %s\nalone in a fresh state %s", names, taken, last, base[li]), c15Case{History: hist, Choices: taken})
		}
		// the longest histories get one deviation less (the number of executions grows with the square of
		// the choice points per deviation)
		b := bound
		if len(hist) == maxLen {
			b = bound - 1
		}
		if devs >= b {
			return
		}
		for i := len(prefix); i < len(points); i++ {
			n := points[i].n
			def := taken[i]
			for alt := 0; alt <= n; alt++ {
				if alt == def {
					continue
				}
				np := append(append([]int{}, taken[:i]...), alt)
				explore(hist, np, devs+1)
			}
			if points[i].timers && def >= 0 {
				// one more deviation: the callbacks pending from earlier operations arrive right after this Get
				np := append(append([]int{}, taken[:i]...), -def-1)
				explore(hist, np, devs+1)
			}
		}
	}
	hist := []int{}
	var rec func()
	rec = func() {
		if len(hist) > 0 {
			if w.Take() {
				if w.Expired() {
					return
				}
				explore(append([]int{}, hist...), nil, 0)
				if w.WantSample() && len(hist) == 3 && w.Index()%173 == 0 {
					var names []string
					for _, h := range hist {
						names = append(names, ops[h].Name)
					}
					w.Sample(map[string]any{"history": names, "pool_answers": "default LIFO, then every single deviation (any other pooled object or New) at every Get"})
				}
			}
		}
		if len(hist) == maxLen {
			return
		}
		for i := range ops {
			hist = append(hist, i)
			rec()
			hist = hist[:len(hist)-1]
		}
	}
	rec()
}

func opNames(ops []c15Op) []string {
	var out []string
	for _, o := range ops {
		out = append(out, o.Name)
	}
	return out
}

// c15BaseMain: one operation in a fresh process, outcome on stdout.
func c15BaseMain(args []string) int {
	ops := c15Ops()
	env := &c15Env{}
	loaded, errs := drv.Load(c15Sources)
	if len(errs) > 0 || len(args) < 1 {
		return 2
	}
	env.scripts = loaded
	env.v2 = c15LoadV2()
	var i int
	fmt.Sscanf(args[0], "%d", &i)
	if i < 0 || i >= len(ops) {
		return 2
	}
	out, _, _, _ := c15Exec(env, ops, []int{i}, nil)
	fmt.Fprint(drv.RealStdout, out)
	return 0
}

func c15Replay(raw json.RawMessage) (bool, string) {
	var c c15Case
	if err := json.Unmarshal(raw, &c); err != nil {
		return false, err.Error()
	}
	ops := c15Ops()
	env := &c15Env{}
	c15Drain()
	loaded, errs := drv.Load(c15Sources)
	if len(errs) > 0 {
		return false, fmt.Sprint(errs)
	}
	env.scripts = loaded
	env.v2 = c15LoadV2()
	if len(c.History) == 0 {
		return false, "empty history"
	}
	li := c.History[len(c.History)-1]
	exe, _ := os.Executable()
	braw, _ := exec.Command(exe, "c15base", fmt.Sprint(li)).Output()
	base := string(braw)
	last, _, taken, _ := c15Exec(env, ops, c.History, c.Choices)
	return last != base, fmt.Sprintf("history %v answers %v\nlast : %s\nalone: %s", c.History, taken, last, base)
}

func init() {
	run.Subcommands["c15base"] = c15BaseMain
	run.Register(&run.Check{
		ID:    "C15",
		Level: "model_checking",
		Rule: "operation histories of length <=3 (thorough <=4) over 36 operations: slices with literal steps on a short and on a long input; a collection without JSON text written over existing fields; a script full of escaped literals loaded by one operation, held, and run by a later one; a run asking for an unknown, a known and the default time zone; load-and-run of a grok script with global patterns / under a local pattern of the same name / of another deployment whose entry file has the same text as a loaded one; load of a valid / syntax-error / lexer-error / parser-panic / check-error source, of texts entering every lexer mode, of a text whose last token (no line break after it) raises a constructor fault; v2 runs of scripts that change default parameter values in place, fail inside a loop after assigning variables, read names; run of scripts that succeed, fail inside a loop, exit inside nested blocks, set variables, read the same names unbound, use grok + use(), delete and re-add tags and fields, each on a point taken from the point pool; runs cancelled at poll 1 and 7; " +
			"instrumented build with a sync.Pool shim: the answer of EVERY pool Get (parser, task, point, metadata) is an explorer choice — default LIFO reuse, then every deviation (any other pooled object, or a fresh one) at every Get, <=2 deviations per history (<=1 for the histories of maximal length); time.AfterFunc goes through a seam of the same overlay: a callback armed by one operation and not stopped may be delivered right after any pool Get of a later operation (one more kind of deviation; the unchanged tree arms no timer); " +
			"oracle: the last operation's outcome (load verdict and error text / probe trace, canonical final point, error text, drop flag) equals the outcome of the same operation executed first in a fresh process (baselines are computed in separate subprocesses); loaded scripts are shared by all histories",
		Assumptions: []string{"the pools and the loaded syntax trees are the only state that survives an operation (package-level variables were listed by reading the sources)"},
		Run:            c15Run,
		Replay:         c15Replay,
		QuickBudget:    5 * time.Minute,
		ThoroughBudget: 40 * time.Minute,
	})
}
