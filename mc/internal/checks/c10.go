package checks

import (
	"encoding/json"
	"fmt"
	"sort"
	"strconv"
	"strings"
	"time"

	"github.com/GuanceCloud/platypus/pkg/ast"
	plrt "github.com/GuanceCloud/platypus/pkg/engine/runtime"
	"github.com/GuanceCloud/platypus/pkg/inimpl/guancecloud/input"

	"verif/mc/internal/deephash"
	"verif/mc/internal/drv"
	"verif/mc/internal/ref"
	"verif/mc/internal/rt"
	"verif/mc/internal/run"
)

// C10 — the point's key index always agrees with its tags and fields.
// Explicit-state search: states are real input.Point values, transitions are
// one-line scripts run by the real engine on a deep clone.

type c10Case struct {
	Init   int      `json:"init"`
	Events []string `json:"events"`
	Probe  string   `json:"probe,omitempty"`
	Source string   `json:"source,omitempty"` // json-text part: a whole script, run on a point holding an ANSI-coloured message
}

// clonePoint: a structure-preserving deep copy of the whole object (unexported fields and sharing
// between index entries included), so that anything the implementation keeps inside a point is part of the
// state the search carries from one event to the next.
func clonePoint(p *input.Point) *input.Point { return deepCopy(p) }

// c10Hidden: a structural hash of everything inside the point object (also what canonState does not
// render), so that two states are merged only if the whole objects are alike.
func c10Hidden(p *input.Point) uint64 {
	return deephash.New("github.com/GuanceCloud/platypus").Hash(map[string]any{"pt": p})
}

// canonState includes the key index (Meta), unlike drv.CanonPoint.
func canonState(p *input.Point) string {
	var meta []string
	for k, m := range p.Meta {
		meta = append(meta, fmt.Sprintf("%s:%d/%d", strconv.Quote(k), m.DType, m.PtFlag))
	}
	sort.Strings(meta)
	return drv.CanonPoint(p) + ";I={" + strings.Join(meta, ",") + "}"
}

func c10Inits() []PointSpec {
	return []PointSpec{
		{Meas: "m", Tags: map[string]string{"t1": "tv"}, Fields: map[string]any{"a": int64(1), "message": "msg"}},
		{Meas: "m", Tags: map[string]string{"t1": ""}, Fields: map[string]any{"a": 1.5, "message": nil}},
		{Meas: "m", Tags: map[string]string{"t1": "x", "t2": "second tag", "t3": "third"}, Fields: map[string]any{"a": true, "message": "2021-01-02 03:04:05"}}, // several tags: each has its own index entry
		{Meas: "m", Tags: map[string]string{"t1": "tv"}, Fields: map[string]any{"a": "str", "message": int32(3), "u": uint8(9), "f32": float32(0.5)}},
	}
}

var c10Keys = []string{"a", "t1", "message", "n1", "n2"}

type c10Event struct {
	Src     string
	Script  *plrt.Script // the event alone: the transition
	Full    *plrt.Script // the event followed by a plain-expression read of its key (I7), run on a separate clone
	Tree    []*rt.Node
	HasRef  bool
	ReadKey string // key read back inside the Full script
}

func c10Events() []*c10Event {
	var srcs []string
	vals := []string{"7", "1.5", "true", `"s"`, "nil", "[1, 2]", `{"a": 1}`}
	for _, k := range c10Keys {
		for _, v := range vals {
			srcs = append(srcs, fmt.Sprintf("add_key(%s, %s)", k, v))
		}
		srcs = append(srcs, fmt.Sprintf("add_key(%s)", k))
		srcs = append(srcs, fmt.Sprintf("set_tag(%s)", k))
		srcs = append(srcs, fmt.Sprintf(`set_tag(%s, "v")`, k))
		srcs = append(srcs, fmt.Sprintf(`set_tag(%s, obj.attr)`, k)) // a value without a string form
		srcs = append(srcs, fmt.Sprintf(`add_key(%s, obj.attr)`, k))
		srcs = append(srcs, fmt.Sprintf(`set_tag(%s, a)`, k)) // value read from another key
		srcs = append(srcs, fmt.Sprintf("drop_key(%s)", k))
		for _, t := range []string{"bool", "int", "float", "str", "string"} {
			srcs = append(srcs, fmt.Sprintf(`cast(%s, "%s")`, k, t))
		}
		srcs = append(srcs, fmt.Sprintf("set_measurement(%s, true)", k))
		srcs = append(srcs, fmt.Sprintf("default_time(%s)", k))
		srcs = append(srcs, fmt.Sprintf("uppercase(%s)", k))
		for _, k2 := range c10Keys {
			if k2 != k {
				srcs = append(srcs, fmt.Sprintf("rename(%s, %s)", k, k2))
			}
		}
	}
	// the `_` spelling stands for message in every builtin
	srcs = append(srcs, "set_tag(_)", `set_tag(_, "v")`, "add_key(_, 7)", "add_key(_, nil)", "drop_key(_)", "rename(_, n1)", "rename(n1, _)", "rename(t1, _)", "rename(_, message)", "rename(message, _)", `cast(_, "int")`, "uppercase(_)", "set_measurement(_, true)")
	srcs = append(srcs, `grok(message, "%{WORD:n1}")`, `grok(a, "%{INT:n1:int}")`, `grok(t1, "%{WORD:a} ?%{WORD:t1}?")`)
	var out []*c10Event
	for _, s := range srcs {
		full, rkey := c10Full(s)
		sc, err := drv.Load1("e.p", s)
		if err != nil {
			panic("c10: event does not load: " + s + ": " + err.Error())
		}
		fsc, err := drv.Load1("e.p", full)
		if err != nil {
			panic("c10: event does not load: " + full + ": " + err.Error())
		}
		tree, err := parseToTree("e.p", s)
		if err != nil {
			panic(err)
		}
		name := s[:strings.Index(s, "(")]
		_, hasRef := refStd.Builtins[name]
		if name == "grok" || name == "default_time" {
			hasRef = true
		}
		out = append(out, &c10Event{Src: s, Script: sc, Full: fsc, Tree: tree, HasRef: hasRef, ReadKey: rkey})
	}
	return out
}

// c10Full: the event followed, in the same script and with no call in between, by a plain-expression
// read of the key the event is about; the value is probed afterwards (I7).
func c10Full(src string) (string, string) {
	i, j := strings.Index(src, "("), strings.IndexAny(src, ",)")
	key := strings.TrimSpace(src[i+1 : j])
	if key == "_" {
		key = "message"
	}
	return src + "\nrbv = " + key + "\np(rbv)\n", key
}

var refStd = func() *ref.World { w := ref.NewWorld(); ref.StdBuiltins(w); return w }()

var c10ProbeKeys = []string{"a", "t1", "message", "n1", "n2", "n9", "pl_msg", "u", "f32"}

type c10Probes struct {
	read   map[string]*plrt.Script
	drop   map[string]*plrt.Script
	rename map[string]*plrt.Script
}

func c10LoadProbes() *c10Probes {
	p := &c10Probes{read: map[string]*plrt.Script{}, drop: map[string]*plrt.Script{}, rename: map[string]*plrt.Script{}}
	for _, k := range c10ProbeKeys {
		var err error
		if p.read[k], err = drv.Load1("r.p", fmt.Sprintf("p(%s)", k)); err != nil {
			panic(err)
		}
		if p.drop[k], err = drv.Load1("d.p", fmt.Sprintf("drop_key(%s)", k)); err != nil {
			panic(err)
		}
		if p.rename[k], err = drv.Load1("n.p", fmt.Sprintf("rename(zz9, %s)", k)); err != nil {
			panic(err)
		}
	}
	return p
}

func goTypeOK(v any) bool {
	switch v.(type) {
	case nil, int64, float64, bool, string:
		return true
	}
	return false
}

// c10Invariants checks I1..I5 on one state; returns (class, message) of the
// first violated invariant.
func c10Invariants(pt *input.Point, pr *c10Probes) (string, string, string) {
	for k := range pt.Fields {
		if _, both := pt.Tags[k]; both {
			return "I2-key-is-tag-and-field", fmt.Sprintf("key %q is both a tag (%q) and a field (%s)", k, pt.Tags[k], drv.Canon(pt.Fields[k])), k
		}
	}
	for k, v := range pt.Fields {
		if !goTypeOK(v) {
			return "I3-field-of-unsupported-type", fmt.Sprintf("field %q holds %s", k, drv.Canon(v)), k
		}
	}
	keys := map[string]bool{}
	for k := range pt.Fields {
		keys[k] = true
	}
	for k := range pt.Tags {
		keys[k] = true
	}
	for k := range keys {
		var want any
		if tv, ok := pt.Tags[k]; ok {
			want = tv
		} else {
			want = pt.Fields[k]
		}
		got, dt, err := pt.Get(k)
		if err != nil {
			return "I1-output-key-unreadable", fmt.Sprintf("key %q is in the output (%s) but Point.Get fails: %v", k, drv.Canon(want), err), k
		}
		if drv.CanonDT(got, dt) != drv.Canon(want) {
			return "I1-read-differs-from-output", fmt.Sprintf("key %q: output holds %s, Point.Get returns %s", k, drv.Canon(want), drv.CanonDT(got, dt)), k
		}
		if sc, ok := pr.read[k]; ok {
			res := drv.Run(sc, clonePoint(pt), nil)
			if res.Panic != "" {
				return "panic", res.Panic, k
			}
			if len(res.Trace) != 1 || res.Trace[0] != "p("+drv.Canon(want)+")" {
				return "I1-script-read-differs-from-output", fmt.Sprintf("key %q: output holds %s, a script reading it sees %v (err %v)", k, drv.Canon(want), res.Trace, res.Err), k
			}
		}
	}
	// I6: every key has its own index entry (entries are pooled objects: one entry under two keys is
	// released twice and then handed to two later keys at once)
	owner := map[*input.TFMeta]string{}
	for k, m := range pt.Meta {
		if m == nil {
			continue
		}
		if other, dup := owner[m]; dup {
			a, b := k, other
			if b < a {
				a, b = b, a
			}
			return "I6-index-entry-shared-by-two-keys", fmt.Sprintf("keys %q and %q share one index entry object", a, b), a
		}
		owner[m] = k
	}
	// I4: reading never returns a value the output does not hold
	for k := range pt.Meta {
		got, dt, err := pt.Get(k)
		if err != nil || got == nil {
			continue
		}
		var have any
		var present bool
		if tv, ok := pt.Tags[k]; ok {
			have, present = tv, true
		} else if fv, ok := pt.Fields[k]; ok {
			have, present = fv, true
		}
		if !present || drv.Canon(have) != drv.CanonDT(got, dt) {
			return "I4-read-returns-value-not-in-output", fmt.Sprintf("Point.Get(%q) returns %s, the output holds %v (present=%v)", k, drv.CanonDT(got, dt), have, present), k
		}
	}
	// I5: every output key can be dropped and renamed
	for k := range keys {
		if sc, ok := pr.drop[k]; ok {
			c := clonePoint(pt)
			res := drv.Run(sc, c, nil)
			if res.Panic != "" {
				return "panic", res.Panic, k
			}
			_, inF := c.Fields[k]
			_, inT := c.Tags[k]
			if inF || inT {
				return "I5-key-cannot-be-dropped", fmt.Sprintf("drop_key(%s) leaves the key in the output (field=%v tag=%v)", k, inF, inT), k
			}
		}
		if sc, ok := pr.rename[k]; ok {
			c := clonePoint(pt)
			var want any
			if tv, ok := pt.Tags[k]; ok {
				want = tv
			} else {
				want = pt.Fields[k]
			}
			res := drv.Run(sc, c, nil)
			if res.Panic != "" {
				return "panic", res.Panic, k
			}
			_, inF := c.Fields[k]
			_, inT := c.Tags[k]
			var moved any
			var ok2 bool
			if tv, ok := c.Tags["zz9"]; ok {
				moved, ok2 = tv, true
			} else if fv, ok := c.Fields["zz9"]; ok {
				moved, ok2 = fv, true
			}
			if inF || inT || !ok2 || drv.Canon(moved) != drv.Canon(want) {
				return "I5-key-cannot-be-renamed", fmt.Sprintf("rename(zz9, %s): old key still present=%v, new key present=%v value=%v (want %s)", k, inF || inT, ok2, moved, drv.Canon(want)), k
			}
			if got, dt, err := c.Get("zz9"); err != nil || drv.CanonDT(got, dt) != drv.Canon(want) {
				return "I5-renamed-key-unreadable", fmt.Sprintf("after rename(zz9, %s) the new key reads as %v (err %v), output holds %s", k, got, err, drv.Canon(want)), k
			}
		}
	}
	return "", "", ""
}

type c10Node struct {
	pt    *input.Point
	rp    *ref.Point // nil = reference no longer tracks this state
	depth int
	path  []string
	from *input.Point // the state this one was reached from (never modified: every step works on a clone)
	ev   *c10Event    // by this event
}

// c10I7: the event once more on a separate clone of the predecessor, followed in the same script by a
// plain-expression read of its key: what the script reads right after the builtin is what the point holds.
// (Done apart from the transition itself so that the extra read does not disturb the state explored.)
func c10I7(n *c10Node) string {
	if n.ev == nil || n.from == nil {
		return ""
	}
	c := clonePoint(n.from)
	res := drv.Run(n.ev.Full, c, nil)
	if res.Panic != "" || res.Err != nil || len(res.Trace) == 0 {
		return ""
	}
	want := "p(nil)"
	if got, dt, err := c.Get(n.ev.ReadKey); err == nil {
		want = "p(" + drv.CanonDT(got, dt) + ")"
	}
	if last := res.Trace[len(res.Trace)-1]; last != want {
		return fmt.Sprintf("key %q read inside the script right after %s gives %s, the point then holds %s", n.ev.ReadKey, n.ev.Src, last, want)
	}
	return ""
}

func c10Step(n *c10Node, ev *c10Event) (*c10Node, string) {
	c := clonePoint(n.pt)
	res := drv.Run(ev.Script, c, nil)
	if res.Panic != "" {
		return nil, res.Panic
	}
	nn := &c10Node{pt: c, depth: n.depth + 1, path: append(append([]string{}, n.path...), ev.Src), from: n.pt, ev: ev}
	if n.rp != nil && ev.HasRef {
		w := ref.NewWorld()
		ref.StdBuiltins(w)
		if _, compiled, _, _ := ref.GrokLoad(ev.Tree); true {
			ref.ExtractBuiltins(w, compiled)
		}
		w.Scripts["e.p"] = ev.Tree
		rp := n.rp.Clone()
		rerr := w.RunScript("e.p", rp)
		if w.Unspec == "" && (rerr != nil) == (res.Err != nil) {
			nn.rp = rp
		} else if w.Unspec == "" {
			nn.rp = rp // error presence differs: let the differential report it
		}
	}
	return nn, ""
}

// c10JSONText: lists and maps are stored as their JSON text - for every kind of string an element, a
// value or a map key may be (control characters, quotes, backslashes, DEL, non-ASCII and non-BMP
// characters, the characters an HTML-safe encoder rewrites, line separators, text that is not valid
// UTF-8), in flat and nested collections with and without floats; and the stored text decodes back to
// the value.
func c10JSONText(w *run.Worker) {
	I, S, Id := rt.Int, rt.Str, rt.Id
	strs := []string{"plain", "", "a\x1bb", "nul\x00", "q\"r", "back\\slash", "del\x7f", "é", "😀", "<>&", "sep\u2028\u2029", "tab\tnl\ncr\r", "bell\a\v\f\b", "bad\xff", "cut\xe6\x97"}
	for si, s := range strs {
		s := s
		shapes := []nodeFn{
			func() *rt.Node { return rt.List(S(s)) }, func() *rt.Node { return rt.List(S("lvl"), S(s)) }, func() *rt.Node { return rt.List(S(s), I(1), rt.Nil(), rt.Bool(true)) },
			func() *rt.Node { return rt.List(S(s), rt.Float(1.5)) }, func() *rt.Node { return rt.List(rt.List(S(s))) }, func() *rt.Node { return rt.Map(S("k"), S(s)) },
			func() *rt.Node { return rt.Map(S(s), I(1)) }, func() *rt.Node { return rt.Map(S("k"), rt.List(S(s), rt.Map(S(s), S(s)))) }, func() *rt.Node { return rt.List(rt.Id("message"), S(s)) },
		}
		for hi, sh := range shapes {
			for mode := 0; mode < 2; mode++ {
				if !w.Take() {
					continue
				}
				var stmts []*rt.Node
				if mode == 0 {
					stmts = []*rt.Node{rt.Call("add_key", Id("k"), sh())}
				} else {
					stmts = []*rt.Node{rt.Assign("=", Id("k"), sh()), rt.Call("add_key", Id("k"))}
				}
				valid := si < len(strs)-2
				if valid {
					stmts = append(stmts, rt.Call("p", rt.Bin("==", rt.Call("load_json", rt.Call("get_key", Id("k"))), sh())))
				}
				p := &Prog{Scripts: map[string][]*rt.Node{"s.p": stmts}, Main: "s.p", Point: PointSpec{Meas: "m", Fields: map[string]any{"message": "m\x1b[31m\"red\""}}}
				w.Eval()
				v := Differential(p)
				w.Outcome("json-text|" + v.Outcome)
				if v.Skipped != "" {
					w.Note("unspecified_cells_skipped", 1)
					continue
				}
				if !v.OK {
					w.Violate(fmt.Sprintf("C10:json-text:%s:shape%d", v.Key, hi), v.What, c10Case{Source: p.Sources()["s.p"]})
				} else if valid && mode == 0 && len(v.Real.Trace) == 1 && v.Real.Trace[0] != "p(b:true)" {
					w.Violate("C10:json-text:stored-text-does-not-decode-back", fmt.Sprintf("%s\ntrace %v point %s", p.Sources()["s.p"], v.Real.Trace, v.Real.Point), c10Case{Source: p.Sources()["s.p"]})
				}
			}
		}
	}
}

func c10Run(w *run.Worker) {
	c10JSONText(w)
	events := c10Events()
	probes := c10LoadProbes()
	inits := c10Inits()
	maxDepth := 3
	if w.Thorough {
		maxDepth = 4
	}
	if w.Shard == 0 {
		w.Note("events", int64(len(events)))
	}
	// hash of a canonical state -> the smallest depth at which it was met. A state is checked when it is first
	// met and expanded again whenever it is met at a smaller depth (a state first met as a leaf still has
	// successors within the bound when it is met again nearer the root).
	seen := map[uint64]uint8{}
	transitions := int64(0)
	// the deepest level of the thorough tier uses the events about the keys a, t1 and n1 only
	var core []*c10Event
	for _, ev := range events {
		if arg := ev.Src[strings.Index(ev.Src, "("):]; !strings.Contains(arg, "message") && !strings.Contains(arg, "n2") && !strings.Contains(arg, "_") {
			core = append(core, ev)
		}
	}
	if w.Shard == 0 {
		w.Note("core_events(deepest level of the thorough tier)", int64(len(core)))
	}
	check := func(n *c10Node, initIdx int) (sound bool) {
		sound = true
		cs := canonState(n.pt)
		w.Outcome(cs)
		if msg := c10I7(n); msg != "" {
			sound = false
			last := n.path[len(n.path)-1]
			w.Violate("C10:I7-read-inside-the-script-differs-from-the-point:after-"+last[:strings.Index(last, "(")], fmt.Sprintf("%s\nhistory: %v\nstate: %s", msg, n.path, cs), c10Case{Init: initIdx, Events: n.path})
		}
		if class, msg, key := c10Invariants(n.pt, probes); class != "" {
			sound = false
			last := "initial"
			if len(n.path) > 0 {
				last = n.path[len(n.path)-1]
				last = last[:strings.Index(last, "(")]
			}
			w.Violate("C10:"+class+":after-"+last, fmt.Sprintf("%s\nhistory: %v\nstate: %s", msg, n.path, cs), c10Case{Init: initIdx, Events: n.path, Probe: key})
		}
		if n.rp != nil {
			if got, want := failureNoteRe.ReplaceAllString(drv.CanonPoint(n.pt), `"pl_msg"=s:"time convert failed"`), n.rp.Canon(); got != want {
				last := n.path[len(n.path)-1]
				w.Violate("C10:differs-from-reference-point:after-"+last[:strings.Index(last, "(")],
					fmt.Sprintf("history: %v\nreal: %s\nref : %s", n.path, got, want), c10Case{Init: initIdx, Events: n.path})
				n.rp = nil
			}
		}
		return sound
	}
	for ii, ps := range inits {
		root := &c10Node{pt: ps.real().Build(), rp: ps.model()}
		if w.Shard == 0 {
			check(root, ii)
		}
		// level 1 is sharded across workers; below that each worker searches its subtrees with local de-duplication
		for ei, ev := range events {
			_ = ei
			if !w.Take() {
				continue
			}
			first, pmsg := c10Step(root, ev)
			transitions++
			w.Eval()
			if first == nil {
				w.Violate("C10:panic", pmsg, c10Case{Init: ii, Events: []string{ev.Src}})
				continue
			}
			frontier := []*c10Node{first}
			for len(frontier) > 0 {
				n := frontier[0]
				frontier = frontier[1:]
				key := canonState(n.pt)
				if n.rp == nil {
					key += "|untracked"
				}
				hk := hash2(key, "", ii) ^ c10Hidden(n.pt)
				prev, met := seen[hk]
				if met && (prev == 255 || int(prev) <= n.depth) {
					continue // met at this depth or nearer the root already, or met before and found corrupted
				}
				seen[hk] = uint8(n.depth)
				if met {
					// checked when first met; expanded again from here because more of the bound is left
				} else if !check(n, ii) {
					seen[hk] = 255
					continue // successors of a corrupted state are not explored: every report is a first violation
				}
				if w.WantSample() && n.depth == 3 && len(seen)%97 == 0 {
					w.Sample(map[string]any{"init": ii, "history": n.path, "state": canonState(n.pt)})
				}
				if n.depth >= maxDepth || w.Expired() {
					continue
				}
				next := events
				if n.depth >= 3 {
					next = core
				}
				for _, e2 := range next {
					nn, pmsg := c10Step(n, e2)
					transitions++
					w.Eval()
					if nn == nil {
						w.Violate("C10:panic", pmsg, c10Case{Init: ii, Events: append(append([]string{}, n.path...), e2.Src)})
						continue
					}
					if nn.depth >= maxDepth {
						// a leaf of the search: checked at once, not queued
						k2 := canonState(nn.pt)
						if nn.rp == nil {
							k2 += "|untracked"
						}
						h2 := hash2(k2, "", ii) ^ c10Hidden(nn.pt)
						if _, met := seen[h2]; !met {
							seen[h2] = uint8(nn.depth)
							if !check(nn, ii) {
								seen[h2] = 255
							}
						}
						continue
					}
					frontier = append(frontier, nn)
				}
			}
		}
	}
	w.Note("transitions", transitions)
	w.Note("distinct_states_this_worker_sum", int64(len(seen)))
}

func c10Replay(raw json.RawMessage) (bool, string) {
	var c c10Case
	if err := json.Unmarshal(raw, &c); err != nil {
		return false, err.Error()
	}
	if c.Source != "" {
		return replaySource(c.Source, PointSpec{Meas: "m", Fields: map[string]any{"message": "m\x1b[31m\"red\""}})
	}
	inits := c10Inits()
	if c.Init < 0 || c.Init >= len(inits) {
		return false, "bad init"
	}
	pt := inits[c.Init].real().Build()
	rp := inits[c.Init].model()
	tracked := true
	inScript := ""
	for ei, src := range c.Events {
		if ei == len(c.Events)-1 {
			// I7 for the last event, on a clone
			full, rkey := c10Full(src)
			if fsc, err := drv.Load1("e.p", full); err == nil {
				c2 := clonePoint(pt)
				if r2 := drv.Run(fsc, c2, nil); r2.Err == nil && r2.Panic == "" && len(r2.Trace) > 0 {
					want := "p(nil)"
					if got, dt, err := c2.Get(rkey); err == nil {
						want = "p(" + drv.CanonDT(got, dt) + ")"
					}
					if last := r2.Trace[len(r2.Trace)-1]; last != want {
						inScript = fmt.Sprintf("after %s the script read %s, the point holds %s", src, last, want)
					}
				}
			}
		}
		sc, err := drv.Load1("e.p", src)
		if err != nil {
			return false, err.Error()
		}
		res := drv.Run(sc, pt, nil)
		if res.Panic != "" {
			return true, res.Panic
		}
		tree, _ := parseToTree("e.p", src)
		w := ref.NewWorld()
		ref.StdBuiltins(w)
		_, compiled, _, _ := ref.GrokLoad(tree)
		ref.ExtractBuiltins(w, compiled)
		w.Scripts["e.p"] = tree
		if _, ok := w.Builtins[src[:strings.Index(src, "(")]]; !ok {
			tracked = false
		}
		if tracked {
			w.RunScript("e.p", rp)
			if w.Unspec != "" {
				tracked = false
			}
		}
	}
	class, msg, _ := c10Invariants(pt, c10LoadProbes())
	if class == "" && inScript != "" {
		class, msg = "I7", inScript
	}
	out := fmt.Sprintf("state: %s\ninvariant: %s %s", canonState(pt), class, msg)
	if tracked {
		out += "\nreference: " + rp.Canon()
		if rp.Canon() != failureNoteRe.ReplaceAllString(drv.CanonPoint(pt), `"pl_msg"=s:"time convert failed"`) {
			return true, out
		}
	}
	return class != "", out
}

var _ = ast.Nil

func init() {
	run.Register(&run.Check{
		ID:    "C10",
		Level: "model_checking",
		Rule: "explicit-state search: states = real input.Point objects, cloned whole (unexported fields and sharing between index entries included) and merged only when the whole objects hash alike (measurement, time, tags, fields with Go types AND the key index), initial states = 4 points over {a field, t1 tag, message, small-int/float32 fields} covering every supported field type; " +
			"transitions = 146 scripts (one builtin call each, incl. the `_` spelling) run by the real engine on a deep clone (add_key x 5 keys x 7 value kinds, add_key(k), set_tag(k[, literal | attribute expression | other key]), add_key(k, attribute expression), drop_key, rename over all ordered key pairs, cast x 5 type names, set_measurement(k,true), default_time, uppercase, grok writing typed captures); " +
			"breadth-first to depth 3 (thorough: a fourth level over the events about three of the keys) with depth-aware de-duplication on the canonical state (a state is expanded again when met nearer the root); in every state: I1 every output key reads back (Point.Get and a script read) with exactly the stored value and type, I2 no key is tag and field, I3 field types, I4 no read returns a value the output lacks, I5 every output key can be dropped and renamed (one-step look-ahead), I6 no two keys share one (pooled) index entry object, I7 a plain-expression read of the event's key inside the event script, directly after the builtin, gives what the point then holds; plus agreement with the reference point model",
		Assumptions: []string{"level 1 is sharded across workers, de-duplication is per worker (states reached in several subtrees are checked more than once)"},
		Run:            c10Run,
		Replay:         c10Replay,
		QuickBudget:    5 * time.Minute,
		ThoroughBudget: 60 * time.Minute,
	})
}
