package checks

import (
	"encoding/json"
	"fmt"
	"math"
	"strings"
	"time"

	"verif/mc/internal/rt"
	"verif/mc/internal/run"
)

// C02 — operators evaluate exactly as the language reference specifies.

type opVal struct {
	Name  string
	Node  func() *rt.Node // literal (or literal-only expression) spelling
	Field any             // Go value when representable as a point field; fieldOK says so
	FieldOK bool
	IsLit bool // Node() is a plain literal (for the load-time zero-divisor rule)
	Comp  func() *rt.Node // the same value produced by a computation instead of a literal (slice, load_json), or nil
}

func c02Values() []opVal {
	lit := func(name string, n func() *rt.Node, field any, ok bool) opVal {
		return opVal{Name: name, Node: n, Field: field, FieldOK: ok, IsLit: true}
	}
	i := func(v int64) opVal {
		return lit(fmt.Sprint(v), func() *rt.Node { return rt.Int(v) }, v, true)
	}
	f := func(name string, v float64) opVal {
		return lit(name, func() *rt.Node { return rt.Float(v) }, v, true)
	}
	s := func(v string) opVal {
		return lit(fmt.Sprintf("%q", v), func() *rt.Node { return rt.Str(v) }, v, true)
	}
	vals := []opVal{
		lit("nil", func() *rt.Node { return rt.Nil() }, nil, true),
		lit("true", func() *rt.Node { return rt.Bool(true) }, true, true),
		lit("false", func() *rt.Node { return rt.Bool(false) }, false, true),
		i(0), i(1), i(-1), i(2), i(3),
		i(1 << 53), i(-(1 << 53)), i(1<<53 + 1), i(-(1<<53 + 1)),
		i(math.MaxInt64),
		{Name: "minint", Node: func() *rt.Node {
			return rt.Paren(rt.Bin("-", rt.Int(-math.MaxInt64), rt.Int(1)))
		}, Field: int64(math.MinInt64), FieldOK: true},
		f("0.0", 0), f("0.5", 0.5), f("-1.5", -1.5), f("2.0", 2), f("1e308", 1e308), f("2^53.0", 9007199254740992), f("2^63.0", 9223372036854775808), f("-2^63.0", -9223372036854775808),
		f("inf", math.Inf(1)), f("nan", math.NaN()),
		s(""), s("a"), s("ab"), s("1"),
		lit("[]", func() *rt.Node { return rt.List() }, nil, false),
		lit("[1]", func() *rt.Node { return rt.List(rt.Int(1)) }, nil, false),
		lit(`["a"]`, func() *rt.Node { return rt.List(rt.Str("a")) }, nil, false),
		lit("{}", func() *rt.Node { return rt.Map() }, nil, false),
		lit(`{"a":1}`, func() *rt.Node { return rt.Map(rt.Str("a"), rt.Int(1)) }, nil, false),
		lit(`{"a":nil}`, func() *rt.Node { return rt.Map(rt.Str("a"), rt.Nil()) }, nil, false),
		lit(`{"b":nil}`, func() *rt.Node { return rt.Map(rt.Str("b"), rt.Nil()) }, nil, false),
	}
	// computed spellings: the same value, but not built by a literal
	tail := func(n *rt.Node) func() *rt.Node {
		return func() *rt.Node { return rt.Slice(n, rt.Int(1), nil, nil, false) }
	}
	for k := range vals {
		switch vals[k].Name {
		case "[]":
			vals[k].Comp = tail(rt.List(rt.Int(7)))
		case "[1]":
			vals[k].Comp = tail(rt.List(rt.Int(7), rt.Int(1)))
		case `["a"]`:
			vals[k].Comp = func() *rt.Node { return rt.Call("load_json", rt.Str(`["a"]`)) }
		case "{}":
			vals[k].Comp = func() *rt.Node { return rt.Call("load_json", rt.Str(`{}`)) }
		case `{"a":nil}`:
			vals[k].Comp = func() *rt.Node { return rt.Call("load_json", rt.Str(`{"a":null}`)) }
		case `""`:
			vals[k].Comp = tail(rt.Str("x"))
		case `"ab"`:
			vals[k].Comp = tail(rt.Str("xab"))
		case "nil":
			vals[k].Comp = func() *rt.Node { return rt.Call("load_json", rt.Str(`null`)) }
		case "2.0":
			vals[k].Comp = func() *rt.Node { return rt.Call("load_json", rt.Str(`2`)) }
		case "true":
			vals[k].Comp = func() *rt.Node { return rt.Call("load_json", rt.Str(`true`)) }
		}
	}
	return vals
}

var c02BinOps = []string{"+", "-", "*", "/", "%", "==", "!=", "<", "<=", ">", ">=", "&&", "||", "in"}
var c02AsgOps = []string{"+=", "-=", "*=", "/=", "%="}
var c02UnOps = []string{"-", "+", "!"}

const (
	srcLit = iota
	srcVar
	srcField
	srcRetyped // a point field that held a value of another type and was overwritten by the script
	srcCompL  // variables; the left operand is produced by a computation (slice, load_json) instead of a literal
	srcCompR  // ... the right operand
	srcCompLR // ... both
)

var srcNames = []string{"literal", "variable", "field", "re-typed field", "computed left", "computed right", "computed both"}

type c02Case struct {
	Form string `json:"form"` // bin | asg | un | tree
	Op   string `json:"op,omitempty"`
	L    int    `json:"l"`
	R    int    `json:"r"`
	Src  int    `json:"src"`
	Tree string `json:"tree,omitempty"`
	Src_ string `json:"source,omitempty"`
}

func isZeroLit(n *rt.Node) bool {
	return (n.K == rt.KInt && n.I == 0) || (n.K == rt.KFloat && n.F == 0)
}

// c02Build builds the program of a table cell. expectLoadErr: the literal
// form contains a literal zero divisor, which must be rejected at load time.
func c02Build(c c02Case, vals []opVal) (p *Prog, expectLoadErr bool, ok bool) {
	lv, rv := vals[c.L], vals[c.R]
	p = &Prog{Scripts: map[string][]*rt.Node{}, Main: "s.p", Point: PointSpec{Meas: "m", Fields: map[string]any{}}}
	var prelude []*rt.Node
	var le, re *rt.Node
	switch c.Src {
	case srcLit:
		le, re = lv.Node(), rv.Node()
		if (c.Op == "/" || c.Op == "%" || c.Op == "/=" || c.Op == "%=") && rv.IsLit && isZeroLit(re) && c.Form != "un" {
			expectLoadErr = true
		}
	case srcVar:
		prelude = append(prelude, rt.Assign("=", rt.Id("x"), lv.Node()), rt.Assign("=", rt.Id("y"), rv.Node()))
		le, re = rt.Id("x"), rt.Id("y")
	case srcCompL, srcCompR, srcCompLR:
		ln, rn := lv.Node(), rv.Node()
		if c.Src != srcCompR {
			if lv.Comp == nil {
				return nil, false, false
			}
			ln = lv.Comp()
		}
		if c.Src != srcCompL && c.Form != "un" {
			if rv.Comp == nil {
				return nil, false, false
			}
			rn = rv.Comp()
		}
		prelude = append(prelude, rt.Assign("=", rt.Id("x"), ln), rt.Assign("=", rt.Id("y"), rn))
		le, re = rt.Id("x"), rt.Id("y")
	case srcField:
		if !lv.FieldOK || (c.Form != "un" && !rv.FieldOK) {
			return nil, false, false
		}
		p.Point.Fields["f1"] = lv.Field
		p.Point.Fields["f2"] = rv.Field
		le, re = rt.Id("f1"), rt.Id("f2")
	case srcRetyped:
		if !lv.FieldOK || (c.Form != "un" && !rv.FieldOK) || lv.Field == nil || rv.Field == nil {
			return nil, false, false
		}
		other := func(v any) any {
			switch v.(type) {
			case string:
				return int64(7)
			case int64:
				return 2.5
			case float64:
				return true
			}
			return "old"
		}
		p.Point.Fields["f1"] = other(lv.Field)
		p.Point.Fields["f2"] = other(rv.Field)
		prelude = append(prelude, rt.Call("add_key", rt.Id("f1"), lv.Node()), rt.Call("add_key", rt.Id("f2"), rv.Node()))
		le, re = rt.Id("f1"), rt.Id("f2")
	}
	var body []*rt.Node
	switch c.Form {
	case "bin":
		e := rt.Normalize(rt.Bin(c.Op, le, re))
		body = []*rt.Node{rt.Call("add_key", rt.Id("r"), rt.Call("p", e))}
	case "un":
		e := rt.Normalize(rt.Un(c.Op, le))
		if c.Src == srcLit && (le.K == rt.KInt || le.K == rt.KFloat) && c.Op != "!" {
			// sign folding: `-<literal>` is itself a literal; keep the text, the
			// reference evaluates the same arithmetic
			if le.K == rt.KInt && le.I < 0 || le.K == rt.KFloat && (le.F < 0 || math.Signbit(le.F)) {
				e = rt.Un(c.Op, rt.Paren(le))
			}
		}
		body = []*rt.Node{rt.Call("add_key", rt.Id("r"), rt.Call("p", e))}
	case "unbin-l", "unbin-r":
		// a unary operator applied to one operand of a binary operator, written without parentheses:
		// the unary operator binds tighter than every binary one
		uop, bop, _ := strings.Cut(c.Op, " ")
		var e *rt.Node
		if c.Form == "unbin-l" {
			e = rt.Bin(bop, rt.Un(uop, le), re)
		} else {
			e = rt.Bin(bop, le, rt.Un(uop, re))
		}
		body = []*rt.Node{rt.Call("add_key", rt.Id("r"), rt.Call("p", rt.Normalize(e)))}
	case "asg":
		// z = L; z op= R; p(z)
		body = []*rt.Node{
			rt.Assign("=", rt.Id("z"), le),
			rt.Assign(c.Op, rt.Id("z"), re),
			rt.Call("add_key", rt.Id("r"), rt.Call("p", rt.Id("z"))),
		}
	case "asg-list":
		// zl = [0, L]; zl[1] op= R; p(zl)
		body = []*rt.Node{
			rt.Assign("=", rt.Id("zl"), rt.List(rt.Int(0), le)),
			rt.Assign(c.Op, rt.Index("zl", rt.Int(1)), re),
			rt.Call("p", rt.Id("zl")),
		}
	case "asg-map":
		// zm = {"k": {"j": L}}; zm["k"]["j"] op= R; p(zm)
		body = []*rt.Node{
			rt.Assign("=", rt.Id("zm"), rt.Map(rt.Str("k"), rt.Map(rt.Str("j"), le))),
			rt.Assign(c.Op, rt.Index("zm", rt.Str("k"), rt.Str("j")), re),
			rt.Call("p", rt.Id("zm")),
		}
	}
	p.Scripts["s.p"] = append(prelude, body...)
	return p, expectLoadErr, true
}

func c02Cell(w *run.Worker, c c02Case, vals []opVal) {
	p, expectLoadErr, ok := c02Build(c, vals)
	if !ok {
		return
	}
	w.Eval()
	v := Differential(p)
	src := p.Sources()["s.p"]
	c.Src_ = src
	if expectLoadErr && v.Key == "unexpected-load-error" {
		// a literal zero divisor may be rejected at load time already; if it is
		// accepted the run must report the division error (compared below)
		w.Outcome("loaderr-literal-zero-divisor")
		w.Note("literal_zero_divisor_rejected_at_load", 1)
		return
	}
	w.Outcome(v.Outcome)
	if v.Skipped != "" {
		w.Note("unspecified_cells_skipped", 1)
		return
	}
	if w.WantSample() && c.L == 4 && c.R == 15 {
		w.Sample(map[string]any{"program": src, "outcome": v.Outcome})
	}
	if !v.OK {
		key := fmt.Sprintf("C02:%s:%s:%s", c.Form, c.Op, c02Class(v))
		w.Violate(key, v.What, c)
	}
}

// c02Class summarises a mismatch by operand/result classes so that distinct
// defects get distinct keys while one defect does not produce thousands.
func c02Class(v Verdict) string {
	switch v.Key {
	case "trace-differs", "point-differs":
		rc, fc := "?", "?"
		if len(v.Real.Trace) > 0 {
			rc = c02ResultClass(v.Real.Trace[len(v.Real.Trace)-1])
		}
		if len(v.RefTrace) > 0 {
			fc = c02ResultClass(v.RefTrace[len(v.RefTrace)-1])
		}
		if rc == fc {
			return v.Key + ":wrong-" + rc + "-value"
		}
		return v.Key + ":" + rc + "-instead-of-" + fc
	}
	return v.Key
}

func c02ResultClass(rec string) string {
	// rec = p(<canon>)
	s := strings.TrimSuffix(strings.TrimPrefix(rec, "p("), ")")
	if strings.HasPrefix(s, "MISMATCH") || strings.HasPrefix(s, "GO<") {
		return "ill-typed"
	}
	return valueClass(s)
}

// ---- (B) expression trees with probed leaves --------------------------------

func c02Atoms() []func() *rt.Node {
	return []func() *rt.Node{
		func() *rt.Node { return rt.Bool(true) },
		func() *rt.Node { return rt.Bool(false) },
		func() *rt.Node { return rt.Int(0) },
		func() *rt.Node { return rt.Int(3) },
		func() *rt.Node { return rt.Float(0.5) },
		func() *rt.Node { return rt.Str("a") },
		func() *rt.Node { return rt.Nil() },
		func() *rt.Node { return rt.List(rt.Str("a"), rt.Int(0)) },
	}
}

// shapes of binary trees with k internal nodes; leaves numbered left to right.
type shape struct{ l, r *shape }

func shapesOf(k int) []*shape {
	if k == 0 {
		return []*shape{nil}
	}
	var out []*shape
	for i := 0; i < k; i++ {
		for _, l := range shapesOf(i) {
			for _, r := range shapesOf(k - 1 - i) {
				out = append(out, &shape{l, r})
			}
		}
	}
	return out
}

func c02TreeRun(w *run.Worker, d dctx, k int, natoms int) {
	atoms := c02Atoms()[:natoms]
	ops := c02BinOps
	for _, sh := range shapesOf(k) {
		nOps, nLeaves := k, k+1
		opIdx := make([]int, nOps)
		for {
			leafIdx := make([]int, nLeaves)
			for {
				if w.Take() {
					if w.Expired() {
						return
					}
					oi, li := 0, 0
					var build func(s *shape) *rt.Node
					build = func(s *shape) *rt.Node {
						if s == nil {
							n := rt.Call("p", rt.Int(int64(li)), atoms[leafIdx[li]]())
							li++
							return n
						}
						myOp := ops[opIdx[oi]]
						oi++
						l := build(s.l)
						r := build(s.r)
						return rt.Bin(myOp, l, r)
					}
					e := rt.Normalize(build(sh))
					hasZeroDiv := false
					_ = hasZeroDiv
					p := &Prog{Scripts: map[string][]*rt.Node{"s.p": {rt.Call("p", rt.Str("="), e)}}, Main: "s.p", Point: PointSpec{Meas: "m"}}
					w.Eval()
					v := d.diff(p)
					w.Outcome(v.Outcome)
					if v.Skipped != "" {
						w.Note("unspecified_cells_skipped", 1)
					} else if !v.OK {
						src := p.Sources()["s.p"]
						opsUsed := []string{}
						for _, x := range opIdx {
							opsUsed = append(opsUsed, ops[x])
						}
						w.Violate(d.id+":tree:"+strings.Join(opsUsed, ",")+":"+c02Class(v), v.What, c02Case{Form: "tree", Tree: src})
					} else if w.WantSample() && k == 2 && opIdx[0] == 5 {
						w.Sample(map[string]any{"program": p.Sources()["s.p"], "trace": v.Real.Trace})
					}
				}
				// next leaf assignment
				j := nLeaves - 1
				for ; j >= 0; j-- {
					leafIdx[j]++
					if leafIdx[j] < len(atoms) {
						break
					}
					leafIdx[j] = 0
				}
				if j < 0 {
					break
				}
			}
			j := nOps - 1
			for ; j >= 0; j-- {
				opIdx[j]++
				if opIdx[j] < len(ops) {
					break
				}
				opIdx[j] = 0
			}
			if j < 0 {
				break
			}
		}
	}
}

// c02Mutating: left-to-right evaluation when one operand's evaluation (a grok capture) rewrites the key
// the other operand reads: the earlier operand sees the old value, the later one the new value.
func c02Mutating(w *run.Worker) {
	S, Id := rt.Str, rt.Id
	g := func() *rt.Node { return rt.Call("grok", Id("_"), S("%{NUMBER:f1:int}")) }
	for _, op := range []string{"+", "-", "*", "==", "<", "&&", "||"} {
		for _, swap := range []bool{false, true} {
			for _, form := range []string{"bin", "asg", "nested"} {
				if !w.Take() {
					continue
				}
				l, r := Id("f1"), g()
				if swap {
					l, r = g(), Id("f1")
				}
				var body []*rt.Node
				switch form {
				case "bin":
					body = []*rt.Node{rt.Call("p", rt.Normalize(rt.Bin(op, l, r)), Id("f1"))}
				case "asg":
					if op == "==" || op == "<" || op == "&&" || op == "||" {
						continue
					}
					body = []*rt.Node{rt.Assign("=", Id("z"), rt.Int(10)), rt.Assign(op+"=", Id("z"), rt.Normalize(rt.Bin("+", l, r))), rt.Call("p", Id("z"), Id("f1"))}
				case "nested":
					body = []*rt.Node{rt.Call("p", rt.Normalize(rt.Bin(op, rt.Bin("+", l, rt.Int(0)), rt.Bin("+", r, rt.Int(0)))), rt.List(l, r))}
				}
				p := &Prog{Scripts: map[string][]*rt.Node{"s.p": body}, Main: "s.p", Extract: true,
					Point: PointSpec{Meas: "m", Fields: map[string]any{"message": "42", "f1": int64(1)}}}
				w.Eval()
				v := Differential(p)
				w.Outcome(v.Outcome)
				if v.Skipped != "" {
					w.Note("unspecified_cells_skipped", 1)
					continue
				}
				if !v.OK {
					w.Violate("C02:mutating-operand:"+op+":"+c02Class(v), v.What, c02Case{Form: "mutating", Op: op, Src_: p.Sources()["s.p"]})
				}
			}
		}
	}
}

// c02Once: the right operand of a compound assignment is evaluated exactly once (probe on it), on a
// variable, a list element and a map element; and an operator keeps working after several hundred
// short-circuited && / || in the same run.
func c02Once(w *run.Worker) {
	I, S, Id := rt.Int, rt.Str, rt.Id
	for _, op := range c02AsgOps {
		for form := 0; form < 3; form++ {
			if !w.Take() {
				continue
			}
			var body []*rt.Node
			switch form {
			case 0:
				body = []*rt.Node{rt.Assign("=", Id("z"), I(10)), rt.Assign(op, Id("z"), rt.Call("p", I(3))), rt.Call("p", Id("z"))}
			case 1:
				body = []*rt.Node{rt.Assign("=", Id("zl"), rt.List(I(0), I(10))), rt.Assign(op, rt.Index("zl", rt.Call("p", I(1))), rt.Call("p", I(3))), rt.Call("p", Id("zl"))}
			case 2:
				body = []*rt.Node{rt.Assign("=", Id("zm"), rt.Map(S("k"), I(10))), rt.Assign(op, rt.Index("zm", rt.Call("p", S("k"))), rt.Call("p", I(3))), rt.Call("p", Id("zm"))}
			}
			p := &Prog{Scripts: map[string][]*rt.Node{"s.p": body}, Main: "s.p", Point: PointSpec{Meas: "m"}}
			w.Eval()
			v := Differential(p)
			w.Outcome(v.Outcome)
			if v.Skipped == "" && !v.OK {
				w.Violate("C02:compound-once:"+op+":"+c02Class(v), v.What, c02Case{Form: "tree", Tree: p.Sources()["s.p"]})
			}
		}
	}
	if w.Take() {
		inc := func(v string) *rt.Node { return rt.Assign("=", Id(v), rt.Bin("+", Id(v), I(1))) }
		body := []*rt.Node{rt.Assign("=", Id("n"), I(0)),
			rt.For(rt.Assign("=", Id("i"), I(0)), rt.Bin("<", Id("i"), I(300)), inc("i"), rt.Block(
				rt.If(rt.Bin("&&", rt.Bool(false), Id("i")), rt.Block()),
				rt.If(rt.Bin("||", rt.Bool(true), Id("i")), rt.Block(inc("n"))))),
			rt.Call("p", rt.Bin("+", Id("n"), I(1)), rt.Bin("&&", rt.Bool(true), rt.Bool(true)), rt.Un("-", Id("n")), rt.In(I(1), rt.List(I(1))), rt.Paren(rt.Bin("*", Id("n"), I(2))))}
		p := &Prog{Scripts: map[string][]*rt.Node{"s.p": body}, Main: "s.p", Point: PointSpec{Meas: "m"}, Polls: 5000}
		w.Eval()
		v := Differential(p)
		w.Outcome(v.Outcome)
		if v.Skipped == "" && !v.OK {
			w.Violate("C02:after-many-short-circuits:"+c02Class(v), v.What, c02Case{Form: "tree", Tree: p.Sources()["s.p"]})
		}
	}
}

// c02Again: the same operator node evaluated again, in the next round of a loop, with an operand of
// another type or value: the second evaluation is decided by ITS operands (nothing remembered per node).
func c02Again(w *run.Worker, d dctx) {
	Id := rt.Id
	all := c02Values()
	pick := map[string]bool{"nil": true, "true": true, "0": true, "1": true, "-1": true, fmt.Sprint(int64(1<<53 + 1)): true, "0.5": true, "2.0": true, `""`: true, `"a"`: true, "[1]": true, `{"a":1}`: true}
	var vals []opVal
	for _, v := range all {
		if pick[v.Name] {
			vals = append(vals, v)
		}
	}
	for _, op := range c02BinOps {
		for side := 0; side < 2; side++ {
			for _, a := range vals {
				for _, b := range vals {
					for _, c := range vals {
						if !w.Take() {
							continue
						}
						var e *rt.Node
						if side == 0 {
							e = rt.Bin(op, Id("v"), c.Node())
						} else {
							e = rt.Bin(op, c.Node(), Id("v"))
						}
						body := []*rt.Node{rt.ForIn("v", rt.List(a.Node(), b.Node()), rt.Block(rt.Call("p", rt.Normalize(e))))}
						p := &Prog{Scripts: map[string][]*rt.Node{"s.p": body}, Main: "s.p", Point: PointSpec{Meas: "m"}}
						w.Eval()
						v := d.diff(p)
						if v.Key == "unexpected-load-error" && (op == "/" || op == "%") && side == 0 && isZeroLit(c.Node()) {
							w.Outcome("loaderr-literal-zero-divisor")
							continue
						}
						w.Outcome(v.Outcome)
						if v.Skipped != "" {
							w.Note("unspecified_cells_skipped", 1)
							continue
						}
						if !v.OK {
							w.Violate(d.id+":again:"+op+":"+c02Class(v), v.What, c02Case{Form: "tree", Op: op, Tree: p.Sources()["s.p"]})
						}
					}
				}
			}
		}
	}
	for _, op := range c02UnOps {
		for _, a := range vals {
			for _, b := range vals {
				if !w.Take() {
					continue
				}
				body := []*rt.Node{rt.ForIn("v", rt.List(a.Node(), b.Node()), rt.Block(rt.Call("p", rt.Un(op, Id("v")))))}
				p := &Prog{Scripts: map[string][]*rt.Node{"s.p": body}, Main: "s.p", Point: PointSpec{Meas: "m"}}
				w.Eval()
				v := d.diff(p)
				w.Outcome(v.Outcome)
				if v.Skipped != "" {
					w.Note("unspecified_cells_skipped", 1)
					continue
				}
				if !v.OK {
					w.Violate(d.id+":again:un"+op+":"+c02Class(v), v.What, c02Case{Form: "tree", Op: op, Tree: p.Sources()["s.p"]})
				}
			}
		}
	}
}

func c02Run(w *run.Worker) {
	vals := c02Values()
	c02Mutating(w)
	c02Again(w, dctx{id: "C02", diff: Differential})
	c02Once(w)
	// (A) the complete operator table
	for src := srcLit; src <= srcCompLR; src++ {
		for _, op := range c02BinOps {
			for l := range vals {
				for r := range vals {
					if !w.Take() {
						continue
					}
					c02Cell(w, c02Case{Form: "bin", Op: op, L: l, R: r, Src: src}, vals)
				}
			}
		}
		for _, form := range []string{"asg", "asg-list", "asg-map"} {
			for _, op := range c02AsgOps {
				for l := range vals {
					for r := range vals {
						if !w.Take() {
							continue
						}
						c02Cell(w, c02Case{Form: form, Op: op, L: l, R: r, Src: src}, vals)
					}
				}
			}
		}
		for _, op := range c02UnOps {
			for l := range vals {
				if !w.Take() {
					continue
				}
				c02Cell(w, c02Case{Form: "un", Op: op, L: l, R: l, Src: src}, vals)
			}
		}
	}
	// (A2) unary under binary, unparenthesised, over variables
	for _, uop := range c02UnOps {
		for _, bop := range c02BinOps {
			for _, form := range []string{"unbin-l", "unbin-r"} {
				for l := range vals {
					for r := range vals {
						if !w.Take() {
							continue
						}
						c02Cell(w, c02Case{Form: form, Op: uop + " " + bop, L: l, R: r, Src: srcVar}, vals)
					}
				}
			}
		}
	}
	// (B) trees with probed leaves: evaluation order, exactly-once, short-circuit
	d := dctx{id: "C02", diff: Differential}
	c02TreeRun(w, d, 1, 8)
	c02TreeRun(w, d, 2, 8)
	if w.Thorough {
		c02TreeRun(w, d, 3, 6)
	} else {
		c02TreeRun(w, d, 3, 2)
	}
}

func c02Replay(raw json.RawMessage) (bool, string) {
	var c c02Case
	if err := json.Unmarshal(raw, &c); err != nil {
		return false, err.Error()
	}
	if c.Form == "tree" {
		return replaySource(c.Tree, PointSpec{Meas: "m"})
	}
	if c.Form == "mutating" {
		tree, err := parseToTree("s.p", c.Src_)
		if err != nil {
			return false, err.Error()
		}
		v := Differential(&Prog{Scripts: map[string][]*rt.Node{"s.p": tree}, Main: "s.p", Extract: true, Point: PointSpec{Meas: "m", Fields: map[string]any{"message": "42", "f1": int64(1)}}})
		return !v.OK && v.Skipped == "", v.What
	}
	p, expectLoadErr, ok := c02Build(c, c02Values())
	if !ok {
		return false, "cell not representable"
	}
	v := Differential(p)
	if expectLoadErr && v.Key == "unexpected-load-error" {
		return false, "literal zero divisor rejected at load time"
	}
	return !v.OK, v.What
}

func init() {
	run.Register(&run.Check{
		ID:    "C02",
		Level: "model_checking",
		Rule: "(A) every operator (14 binary incl. in/&&/||, 5 compound assignments on a variable, a list element and a nested map element, 3 unary) x every ordered pair of a 33-value set covering all operand classes (incl. the floats +-2^63 next to the int64 extremes) " +
			"x operand source {literal, variable, point field, point field that held another type and was overwritten by add_key, variables whose left / right / both values were produced by a computation (a slice, load_json) instead of a literal: empty and one-element lists, maps, strings, nil, true, 2.0}; (B) every expression tree with <=2 (quick; 3 with 2 atoms) / <=3 (thorough, 6 atoms) binary operators over 8 atoms with every leaf wrapped in the probe; " +
			"(C) operands whose evaluation (a grok capture) rewrites the key the other operand reads, on either side of 7 operators, plain, compound and nested; each program is run on the real engine and on the reference interpreter; distinct = distinct real outcomes (trace, point, error flag)",
		Assumptions: []string{
			"pinned cells (bool acts as 0/1, deep equality of collections, RHS of an assignment evaluated before index keys) follow the repository's tests and both interpreters",
			"unspecified cells (DESIGN.md section 5) are skipped and counted",
		},
		Run:            c02Run,
		Replay:         c02Replay,
		QuickBudget:    4 * time.Minute,
		ThoroughBudget: 20 * time.Minute,
	})
}
