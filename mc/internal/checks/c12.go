package checks

import (
	"encoding/json"
	"fmt"
	"time"

	"verif/mc/internal/rt"
	"verif/mc/internal/run"
)

// C12 — extraction builtins store exactly what their pattern engine extracts.

type c12Case struct {
	Source string            `json:"source"`
	Tags   map[string]string `json:"tags"`
	Fields map[string]any    `json:"fields"`
	Time   int64             `json:"time"`
}

func c12Exec(w *run.Worker, part string, stmts []*rt.Node, pt PointSpec, keyExtra string) Verdict {
	p := &Prog{Scripts: map[string][]*rt.Node{"s.p": stmts}, Main: "s.p", Point: pt, Extract: true}
	w.Eval()
	v := Differential(p)
	w.Outcome(part + "|" + v.Outcome)
	if v.Skipped != "" {
		w.Note("unspecified_cells_skipped", 1)
		return v
	}
	if !v.OK {
		key := "C12:" + part + ":" + v.Key
		if keyExtra != "" {
			key += ":" + keyExtra
		}
		w.Violate(key, v.What, c12Case{Source: p.Sources()["s.p"], Tags: pt.Tags, Fields: pt.Fields, Time: pt.Time})
	}
	return v
}

// ---- (1) add_pattern scoping ---------------------------------------------------

const c12Slots = 8

// skeleton builds the 3-level block skeleton with the given statements per slot.
func c12Skeleton(slot [c12Slots][]*rt.Node, c1, c2 bool) []*rt.Node {
	Id := rt.Id
	blk := func(s []*rt.Node, more ...*rt.Node) *rt.Node { return rt.Block(append(append([]*rt.Node{}, s...), more...)...) }
	var out []*rt.Node
	out = append(out, slot[0]...)
	inner := rt.If(rt.Bool(c2), blk(slot[2]), blk(slot[3]))
	out = append(out, rt.If(rt.Bool(c1), blk(slot[1], append([]*rt.Node{inner}, slot[4]...)...), blk(slot[5])))
	out = append(out, rt.ForIn("i", rt.List(rt.Int(1)), blk(slot[6])))
	out = append(out, slot[7]...)
	out = append(out, rt.Call("p", rt.Call("get_key", Id("x")), rt.Call("get_key", Id("w")), rt.Call("get_key", Id("n")), rt.Call("get_key", Id("gi"))))
	return out
}

func c12Scoping(w *run.Worker) {
	S, Id := rt.Str, rt.Id
	defs := []nodeFn{
		func() *rt.Node { return rt.Call("add_pattern", S("pa"), S("[a-z]+")) },
		func() *rt.Node { return rt.Call("add_pattern", S("pb"), S(`\d+`)) },
		func() *rt.Node { return rt.Call("add_pattern", S("pc"), S("%{pa:w} %{pb:n:int}")) },
	}
	groks := []nodeFn{
		func() *rt.Node { return rt.Call("p", rt.Call("grok", Id("_"), S("%{pa:x}"))) },
		func() *rt.Node { return rt.Call("p", rt.Call("grok", Id("_"), S("^%{pb:x}"))) },
		func() *rt.Node { return rt.Call("p", rt.Call("grok", Id("_"), S("%{pc}"))) },
		func() *rt.Node { return rt.Call("p", rt.Call("grok", Id("_"), S("%{INT:gi:int}"))) },
		func() *rt.Node { return rt.Call("p", rt.Call("grok", Id("_"), S("%{pa:x} %{INT:gi}"))) },
	}
	pt := PointSpec{Meas: "m", Fields: map[string]any{"message": "hello 42"}}
	pcSlots := []int{-1, 0, 1, 2, 5, 6, 7}
	for sa := -1; sa < c12Slots; sa++ {
		for sb := -1; sb < c12Slots; sb++ {
			for _, sc := range pcSlots {
				for gi := range groks {
					for gs := 0; gs < c12Slots; gs++ {
						for _, grokFirst := range []bool{false, true} {
							if !w.Take() {
								continue
							}
							if w.Expired() {
								return
							}
							var slot [c12Slots][]*rt.Node
							if grokFirst {
								slot[gs] = append(slot[gs], groks[gi]())
							}
							for di, ds := range []int{sa, sb, sc} {
								if ds >= 0 {
									slot[ds] = append(slot[ds], defs[di]())
								}
							}
							if !grokFirst {
								slot[gs] = append(slot[gs], groks[gi]())
							}
							c1, c2 := true, true
							if gs == 3 {
								c2 = false
							}
							if gs == 5 {
								c1 = false
							}
							v := c12Exec(w, "scoping", c12Skeleton(slot, c1, c2), pt, "")
							if w.WantSample() && w.Index()%2003 == 0 {
								src, _ := rt.PrintProg(c12Skeleton(slot, c1, c2), nil)
								w.Sample(map[string]any{"program": src, "outcome": v.Outcome})
							}
						}
					}
				}
			}
		}
	}
}

// c12Shadowing: a name defined at the top and defined again in a nested block. Inside that
// block (and below it) the inner definition is the one in force; once the block is left the outer one
// is again — for grok and for composite definitions made afterwards.
func c12Shadowing(w *run.Worker) {
	S, Id := rt.Str, rt.Id
	outer := func() *rt.Node { return rt.Call("add_pattern", S("pa"), S("[a-z]+")) }
	shadow := func() *rt.Node { return rt.Call("add_pattern", S("pa"), S("[0-9]+")) }
	users := []func() []*rt.Node{
		func() []*rt.Node { return []*rt.Node{rt.Call("p", rt.Call("grok", Id("_"), S("%{pa:x}")), Id("x"))} },
		func() []*rt.Node {
			return []*rt.Node{rt.Call("add_pattern", S("pair"), S("%{pa:y:str}")), rt.Call("p", rt.Call("grok", Id("_"), S("%{pair}")), Id("y"))}
		},
		func() []*rt.Node { return []*rt.Node{rt.Call("p", rt.Call("grok", Id("_"), S("^%{pa:z} %{INT:n:int}$")), Id("z"), Id("n"))} },
	}
	pt := PointSpec{Meas: "m", Fields: map[string]any{"message": "hello 42"}}
	for ss := 0; ss < c12Slots; ss++ {
		for gs := 0; gs < c12Slots; gs++ {
			for ui := range users {
				for _, userFirst := range []bool{false, true} {
					for _, twice := range []bool{false, true} {
						if !w.Take() {
							continue
						}
						var slot [c12Slots][]*rt.Node
						slot[0] = append(slot[0], outer())
						if userFirst {
							slot[gs] = append(slot[gs], users[ui]()...)
						}
						slot[ss] = append(slot[ss], shadow())
						if !userFirst {
							slot[gs] = append(slot[gs], users[ui]()...)
						}
						if twice {
							// and once more at the very end, after every block has been left
							slot[c12Slots-1] = append(slot[c12Slots-1], users[0]()...)
						}
						c1, c2 := true, true
						if gs == 3 || ss == 3 {
							c2 = false
						}
						if gs == 5 || ss == 5 {
							c1 = false
						}
						c12Exec(w, "shadowing", c12Skeleton(slot, c1, c2), pt, "")
					}
				}
			}
		}
	}
}

// ---- (2) typed captures, trim_space, subjects ----------------------------------

func c12Typed(w *run.Worker) {
	S, Id := rt.Str, rt.Id
	patterns := []string{"%{WORD:w}", "%{NUMBER:n:int}", "%{NUMBER:n:float}", "%{WORD:b:bool}", "%{NOTSPACE:s:str}", "%{NOTSPACE:s:string}",
		"%{INT:i:int} %{WORD:w:str}", "%{GREEDYDATA:g}", "^%{DATA:d} %{GREEDYDATA:g:int}$", "%{WORD:k}", "%{WORD:message}", "(?P<raw>l+)", "%{IP:ip}", "nomatch%{INT:z}",
		// captures that match the empty string (optional group, alternation branch): stored as "", also over an existing key
		"%{WORD:w}(?: %{INT:o1})?", "(?P<pre>x?)%{NOTSPACE:s}", "(?:%{INT:num}|%{WORD:wd})",
		// typed captures landing on keys that already exist with another type (o1 is an int field, o2 a tag, o3 a nil field, o4 a float field)
		"%{WORD:o1}", "%{NUMBER:o2:int}", "%{NUMBER:o3:int}", "%{WORD:o4:str}", "%{WORD:o4:bool}",
		// literal text in front, an alternation further on: the subject may match through a later branch
		"hello %{INT:n:int}|abc|%{NUMBER:num} big", "^3%{GREEDYDATA:g}$|^tr%{WORD:w}"}
	texts := []any{"hello 42", "12", "3.5", "true", "abc", "  padded  ", "", " 7 x ", "1.2.3.4 ok", "99999999999999999999 big", int64(42), 2.5, false, nil,
		// numbers whose string form must be plain decimals (no exponent), whatever their size
		12345678.0, 0.00005, 1e21, int64(1<<53 + 1), -2500000.5}
	for _, pat := range patterns {
		for trim := 0; trim < 3; trim++ {
			for sit := 0; sit < sitCount; sit++ {
				for ti, tx := range texts {
					if !w.Take() {
						continue
					}
					pt := PointSpec{Meas: "m", Tags: map[string]string{"o2": "t"}, Fields: map[string]any{"o1": int64(5), "o3": nil, "o4": 1.5}}
					var pre []*rt.Node
					str, isStr := tx.(string)
					lit := func() *rt.Node {
						switch x := tx.(type) {
						case string:
							return S(x)
						case int64:
							return rt.Int(x)
						case float64:
							return rt.Float(x)
						case bool:
							return rt.Bool(x)
						}
						return rt.Nil()
					}
					switch sit {
					case sitVar:
						pre = append(pre, rt.Assign("=", Id("k"), lit()))
					case sitField:
						pt.Fields["k"] = tx
					case sitTag:
						if !isStr {
							continue
						}
						pt.Tags["k"] = str
					case sitVarOverField:
						pt.Fields["k"] = "fieldval 1"
						pre = append(pre, rt.Assign("=", Id("k"), lit()))
					case sitVarOverTag:
						pt.Tags["k"] = "tagval 2"
						pre = append(pre, rt.Assign("=", Id("k"), lit()))
					case sitAbsent:
						if ti != 0 {
							continue
						}
					}
					args := []*rt.Node{Id("k"), S(pat)}
					if trim == 1 {
						args = append(args, rt.Bool(true))
					} else if trim == 2 {
						args = append(args, rt.Bool(false))
					}
					// read back every capture key through a plain expression (value AND recorded type)
					stmts := append(pre, rt.Assign("=", Id("r"), rt.Call("grok", args...)), rt.Call("p", Id("r"), Id("k")),
						rt.Call("p", Id("o1"), Id("o2"), Id("o3"), Id("o4"), Id("w"), Id("n"), Id("s"), Id("pre"), Id("num"), Id("wd")))
					c12Exec(w, "typed", stmts, pt, "")
				}
			}
		}
	}
}

// ---- (3) time -------------------------------------------------------------------

func c12DocLayouts() []string {
	return []string{
		"2014-04-26 17:24:37.3186369", "May 8, 2009 5:57:51 PM", "2012-08-03 18:31:59.257000000", "oct 7, 1970",
		"2014-04-26 17:24:37.123", "oct 7, '70", "2013-04-01 22:43", "oct. 7, 1970",
		"2013-04-01 22:43:22", "oct. 7, 70", "2014-12-16 06:20:00 UTC", "Mon Jan  2 15:04:05 2006",
		"2014-12-16 06:20:00 GMT", "Mon Jan  2 15:04:05 MST 2006", "2014-04-26 05:24:37 PM", "Mon Jan 02 15:04:05 -0700 2006",
		"2014-04-26 13:13:43 +0800", "Monday, 02-Jan-06 15:04:05 MST", "2014-04-26 13:13:43 +0800 +08", "Mon, 02 Jan 2006 15:04:05 MST",
		"2014-04-26 13:13:44 +09:00", "Tue, 11 Jul 2017 16:28:13 +0200 (CEST)", "2012-08-03 18:31:59.257000000 +0000 UTC", "Mon, 02 Jan 2006 15:04:05 -0700",
		"2015-09-30 18:48:56.35272715 +0000 UTC", "Thu, 4 Jan 2018 17:53:36 +0000", "2015-02-18 00:12:00 +0000 GMT", "Mon 30 Sep 2018 09:09:09 PM UTC",
		"2015-02-18 00:12:00 +0000 UTC", "Mon Aug 10 15:44:11 UTC+0100 2015", "2015-02-08 03:02:00 +0300 MSK m=+0.000000001",
		"2015-02-08 03:02:00.001 +0300 MSK m=+0.000000001", "Fri Jul 03 2015 18:04:07 GMT+0100 (GMT Daylight Time)", "2017-07-19 03:21:51+00:00", "September 17, 2012 10:09am",
		"2014-04-26", "September 17, 2012 at 10:09am PST-08", "2014-04", "September 17, 2012, 10:10:09",
		"2014", "2014:3:31", "2014-05-11 08:20:13,787", "2014:03:31",
		"3.31.2014", "2014:4:8 22:05", "03.31.2014", "2014:04:08 22:05",
		"08.21.71", "2014:04:2 03:00:51", "2014.03", "2014:4:02 03:00:51",
		"2014.03.30", "2012:03:19 10:11:59", "20140601", "2012:03:19 10:11:59.3186369",
		"20140722105203", "2014年04月08日", "1332151919", "2006-01-02T15:04:05+0000",
		"1384216367189", "2009-08-12T22:15:09-07:00", "1384216367111222", "2009-08-12T22:15:09",
		"1384216367111222333", "2009-08-12T22:15:09Z",
		// house patterns
		"06/Jan/2017:16:16:37 +0000", "14 May 2019 19:11:40.164", "171113 14:14:20", "2021/02/27 - 14:14:20", "Tue May 18 06:25:05.176170 2021", "2021-05-27 06:54:14.760 UTC",
		// not timestamps
		"not a time", "", "25:61:61", "2021-13-45 00:00:00", "  2021-01-02 03:04:05  ",
	}
}

// c12HouseGrid: every house layout written out for a grid of instants, with
// and without leading zeros in day / hour (Go's layouts accept both where the
// layout element is not zero-padded... and the parser decides), and with
// positive, negative and half-hour numeric zones where the layout has one.
func c12HouseGrid() []string {
	type inst struct {
		y, mo, d, h, mi, s, ms int
	}
	mon := []string{"Jan", "Feb", "Mar", "Apr", "May", "Jun", "Jul", "Aug", "Sep", "Oct", "Nov", "Dec"}
	wd := func(i inst) string {
		return time.Date(i.y, time.Month(i.mo), i.d, 0, 0, 0, 0, time.UTC).Weekday().String()[:3]
	}
	var out []string
	for _, i := range []inst{{2021, 12, 2, 11, 55, 34, 164}, {2017, 1, 6, 6, 5, 7, 0}, {1999, 10, 10, 23, 59, 59, 999}, {2038, 2, 28, 0, 0, 0, 1}, {2024, 2, 29, 9, 30, 0, 500}} {
		for _, pad := range []bool{true, false} {
			dd, hh := fmt.Sprintf("%02d", i.d), fmt.Sprintf("%02d", i.h)
			if !pad {
				dd, hh = fmt.Sprint(i.d), fmt.Sprint(i.h)
			}
			for _, z := range []string{"+0000", "-0500", "+0530", "-1130", "+1400", "-0000"} {
				out = append(out, fmt.Sprintf("%s/%s/%04d:%s:%02d:%02d %s", dd, mon[i.mo-1], i.y, hh, i.mi, i.s, z))
			}
			out = append(out,
				fmt.Sprintf("%s %s %04d %s:%02d:%02d.%03d", dd, mon[i.mo-1], i.y, hh, i.mi, i.s, i.ms),
				fmt.Sprintf("%02d%02d%02d %s:%02d:%02d", i.y%100, i.mo, i.d, hh, i.mi, i.s),
				fmt.Sprintf("%04d/%02d/%02d - %s:%02d:%02d", i.y, i.mo, i.d, hh, i.mi, i.s),
				fmt.Sprintf("%s %s %s %s:%02d:%02d.%06d %04d", wd(i), mon[i.mo-1], dd, hh, i.mi, i.s, i.ms*1000, i.y),
				fmt.Sprintf("%s %s  %s %s:%02d:%02d.%06d %04d", wd(i), mon[i.mo-1], fmt.Sprint(i.d), hh, i.mi, i.s, i.ms*1000, i.y),
				fmt.Sprintf("%04d-%02d-%02d %s:%02d:%02d.%03d UTC", i.y, i.mo, i.d, hh, i.mi, i.s, i.ms),
				fmt.Sprintf("%s %s %s:%02d:%02d.%03d", dd, mon[i.mo-1], hh, i.mi, i.s, i.ms), // year-less (an unspecified cell: depends on the clock)
			)
		}
	}
	return out
}

func c12Time(w *run.Worker) {
	S, Id := rt.Str, rt.Id
	zones := []string{"", "+0", "+8", "-3:30", "+5:45", "+5:30", "-8", "-5", "+9", "+3", "Asia/Shanghai", "America/New_York", "Europe/London", "UTC", "CST", "+99", "-13", "Mars/Base", "+8:00", "8", "+08"}
	base := []string{"2021-01-02 03:04:05", "2021-01-15 23:59:59.123", "06/Jan/2017:16:16:37 +0000", "171113 14:14:20"}
	run1 := func(text any, tz *string, sit int) {
		pt := PointSpec{Meas: "m", Tags: map[string]string{"o2": "t"}, Fields: map[string]any{"o1": int64(5)}, Time: 1600000000000000000}
		var pre []*rt.Node
		lit := func() *rt.Node {
			switch x := text.(type) {
			case string:
				return S(x)
			case int64:
				return rt.Int(x)
			case float64:
				return rt.Float(x)
			}
			return rt.Nil()
		}
		switch sit {
		case sitVar:
			pre = append(pre, rt.Assign("=", Id("k"), lit()))
		case sitField:
			pt.Fields["k"] = text
		case sitTag:
			s, ok := text.(string)
			if !ok {
				return
			}
			pt.Tags["k"] = s
		case sitVarOverField:
			pt.Fields["k"] = "2000-01-01 00:00:00"
			pre = append(pre, rt.Assign("=", Id("k"), lit()))
		case sitAbsent:
		}
		args := []*rt.Node{Id("k")}
		if tz != nil {
			args = append(args, S(*tz))
		}
		stmts := append(pre, rt.Call("default_time", args...), rt.Call("p", Id("k"), rt.Call("get_key", Id("k"))))
		c12Exec(w, "default_time", stmts, pt, "")
	}
	for _, lay := range c12DocLayouts() {
		for _, sit := range []int{sitField, sitVar, sitTag} {
			if !w.Take() {
				continue
			}
			run1(lay, nil, sit)
		}
	}
	eight, sh := "+8", "Asia/Shanghai"
	for gi, g := range c12HouseGrid() {
		for zi, z := range []*string{nil, &eight, &sh} {
			if !w.Take() {
				continue
			}
			run1(g, z, []int{sitField, sitVar, sitTag}[(gi+zi)%3])
		}
	}
	// every documented layout (the all-digit unix forms among them) and numeric subjects under zone arguments
	// that resolve and that do not: the zone decides for every kind of subject
	for li, lay := range append(append([]any{}, func() (o []any) {
		for _, l := range c12DocLayouts() {
			o = append(o, l)
		}
		return
	}()...), int64(1609556645), int64(1609556645123), int64(1609556645123456), int64(1609556645123456789), "1609556645", "1609556645123", "1609556645123456", "1609556645123456789", 1609556645.5) {
		for zi, z := range []string{"Mars/Base", "+99", "-3:45", "Asia/Tokyo", "+9", "America/New_York"} {
			if !w.Take() {
				continue
			}
			z := z
			run1(lay, &z, []int{sitField, sitVar}[(li+zi)%2])
		}
	}
	for _, b := range base {
		for _, z := range zones {
			for _, sit := range []int{sitField, sitVarOverField, sitAbsent} {
				if !w.Take() {
					continue
				}
				z := z
				run1(b, &z, sit)
			}
		}
	}
	// every numeric label of the documented table: the DST-free ones with a January date, the southern ones
	// (which are on their standard offset then) with a July date
	for _, z := range []string{"+0", "+1", "+2", "+3", "+3:30", "+4", "+4:30", "+5", "+5:30", "+5:45", "+6", "+6:30", "+7", "+8", "+8:45", "+9", "+9:30",
		"-1", "-2", "-3", "-3:30", "-5", "-6", "-7", "-8", "-9", "-10", "-11"} {
		for _, b := range []string{"2021-01-02 03:04:05", "171113 14:14:20"} {
			if !w.Take() {
				continue
			}
			z := z
			run1(b, &z, sitField)
		}
	}
	for _, z := range []string{"-4", "+10", "+10:30", "+11", "+12", "+12:45", "+13", "+14", "-9:30", "-10", "+9:30", "+8:45"} {
		for _, b := range []string{"2021-07-15 12:00:00", "2022-06-30 23:59:59.5", "15 Jul 2023 01:02:03.000"} {
			if !w.Take() {
				continue
			}
			z := z
			run1(b, &z, sitVar)
		}
	}
	// an unknown zone resolved twice in one run (and so at least twice in the process): both fail alike
	for _, z := range []string{"Mars/Base", "Nope/Zone", "+99", "Asia/Shangha1"} {
		for _, b := range []string{"2021-01-02 03:04:05", "06/Jan/2017:16:16:37 +0000"} {
			if !w.Take() {
				continue
			}
			pt := PointSpec{Meas: "m", Fields: map[string]any{"k": b, "k2": b, "o1": int64(5)}, Time: 1600000000000000000}
			stmts := []*rt.Node{rt.Call("default_time", Id("k"), S(z)), rt.Call("default_time", Id("k2"), S(z)), rt.Call("p", Id("k"), Id("k2"))}
			c12Exec(w, "default_time-twice", stmts, pt, "")
		}
	}
	// named zones with a summer date (daylight saving time in effect where the zone has it)
	for _, b := range []string{"2021-07-15 12:00:00", "2021-03-28 01:30:00", "2021-10-31 01:30:00"} {
		for _, z := range []string{"UTC", "Europe/London", "America/New_York", "Asia/Shanghai", "Asia/Kolkata", "Etc/GMT+5", "Etc/GMT-3", "America/Port-au-Prince", "Asia/Ust-Nera", "America/Blanc-Sablon", "Local", "utc"} {
			for _, sit := range []int{sitField, sitVar} {
				if !w.Take() {
					continue
				}
				z := z
				run1(b, &z, sit)
			}
		}
	}
	for _, tx := range []any{int64(1600000000), int64(1600000000123), 2.5, nil, 1638253518.0, 1638253518.5, 1.6e12, 12345678.0, 0.00005} {
		for _, sit := range []int{sitField, sitVar} {
			if w.Take() {
				run1(tx, nil, sit)
			}
		}
	}
	// datetime
	formats := []string{"ANSIC", "UnixDate", "RubyDate", "RFC822", "RFC822Z", "RFC850", "RFC1123", "RFC1123Z", "RFC3339", "RFC3339Nano", "Kitchen", "Stamp", "StampMilli", "StampMicro", "StampNano", "Nope", "", "rfc3339"}
	epochs := []any{int64(0), int64(1), int64(1600000000), int64(1600000000123), int64(-1), 1600000000.0, 1.6e12, 1638253518.5, 1638253518999.75, "1638253518.5", "1600000000", "1600000000123", "12abc", "", true, nil,
		// seconds far from the present: a sentinel, the year 3000, the FILETIME epoch, the last second of the year 9999
		int64(9999999999), int64(32503680000), int64(-11644473600), int64(253402300799)}
	for _, f := range formats {
		for _, prec := range []string{"s", "ms", "us", ""} {
			for _, ep := range epochs {
				for _, sit := range []int{sitField, sitVar, sitAbsent} {
					if !w.Take() {
						continue
					}
					pt := PointSpec{Meas: "m", Fields: map[string]any{"o1": int64(5)}}
					var pre []*rt.Node
					lit := func() *rt.Node {
						switch x := ep.(type) {
						case string:
							return S(x)
						case int64:
							return rt.Int(x)
						case float64:
							return rt.Float(x)
						case bool:
							return rt.Bool(x)
						}
						return rt.Nil()
					}
					switch sit {
					case sitField:
						pt.Fields["k"] = ep
					case sitVar:
						pre = append(pre, rt.Assign("=", Id("k"), lit()))
					}
					stmts := append(pre, rt.Call("datetime", Id("k"), S(prec), S(f)), rt.Call("p", Id("k"), rt.Call("get_key", Id("k"))))
					c12Exec(w, "datetime", stmts, pt, "")
				}
			}
		}
	}
}

// ---- (4) xml, (5) sql_cover -------------------------------------------------------

func c12XMLSQL(w *run.Worker) {
	S, Id := rt.Str, rt.Id
	docs := []string{
		`<a><b>1</b><b>2</b></a>`, `<a x="attr"><b> padded </b><c><d>deep</d></c></a>`, `<?xml version="1.0"?><root><item id="7">seven</item></root>`,
		`<a><b/></a>`, `<a>text<b>inner</b>tail</a>`, `not xml`, `<a><b>unclosed</a>`, ``, `<a xmlns:n="u"><n:b>ns</n:b></a>`,
		// not well-formed in ways a lenient decoder would tolerate: the subject must be left alone
		`<a><b>x & y</b></a>`, `<a><b>x&nbsp;y</b></a>`, `<a x=1><b>2</b></a>`, `<a><b checked>3</b></a>`, `<a><b>4</c></a>`, `<a><b>5</b></a><a><b>6</b></a>`, `<a><b>7</b>`,
		`<a><b>&amp;&#65;&lt;</b></a>`, `<a><![CDATA[<b>8</b>]]><b>9</b></a>`, "<a>\n <b>\n  10\n </b>\n</a>", `<A><B>upper</B></A>`,
	}
	queries := []string{"/a/b", "/a/b[2]", "//d", "/a/@x", "/a/b/text()", "/root/item[@id='7']", "/nomatch", "//*", "/a", "count(/a/b)", "/a/b[", "", "//b[last()]",
		// well-formed expressions on which the XPath engine gives up while evaluating (argument types, bad inner regexp)
		"//b[starts-with(1, 2)]", "//b[substring(., 0, 1)='1']", "//b[matches(., '(')]", "//b[contains(1, 2)]", "//b[sum('x')]", "//b[ends-with(1, 2)]"}
	dests := []nodeFn{func() *rt.Node { return Id("dst") }, func() *rt.Node { return S("dst") }, func() *rt.Node { return rt.Attr(Id("dst"), Id("sub")) }, func() *rt.Node { return Id("k") }}
	for _, d := range docs {
		for _, q := range queries {
			for di, dest := range dests {
				for _, sit := range []int{sitField, sitVar, sitTag, sitAbsent} {
					if di > 0 && sit != sitField {
						continue
					}
					if !w.Take() {
						continue
					}
					pt := PointSpec{Meas: "m", Tags: map[string]string{"o2": "t"}, Fields: map[string]any{"o1": int64(5)}}
					var pre []*rt.Node
					switch sit {
					case sitField:
						pt.Fields["k"] = d
					case sitVar:
						pre = append(pre, rt.Assign("=", Id("k"), S(d)))
					case sitTag:
						pt.Tags["k"] = d
					}
					stmts := append(pre, rt.Call("xml", Id("k"), S(q), dest()), rt.Call("p", rt.Call("get_key", Id("dst")), rt.Call("get_key", S("dst.sub")), rt.Call("get_key", Id("k"))))
					c12Exec(w, "xml", stmts, pt, "")
				}
			}
		}
	}
	sqls := []any{
		"select * from t where id = 42", "SELECT a, b FROM t WHERE name = 'bob' AND x IN (1, 2, 3)", "insert into t values (1, 'a', 2.5)", "update t set a = 'x' where b = 7 -- comment",
		"not sql at all", "", "select '", "select \"col\" from `t`", "/* c */ select 1", "select * from t where a = $1", "delete from t where a between 1 and 2",
		"select 1; select 2", "sElEcT 1", "select * from t limit 10 offset 5", "call proc(1, 'x')", "select * from t where a like '%x%'", "   ", "select é from t where n = 'é'",
		// digits inside identifiers are not literals
		"select col1, col2 from t1 where md5 = 'abc' and utf8mb4 = 7", "insert into shard_07 (c1) values (1)",
		int64(5), nil,
	}
	// two statements in one run: the result for the second must not depend on the first
	// (backslashes make the tokenizer retry in its other escape mode)
	bs := []string{`select * from t where dir = 'C:\'`, `select "prod\users" from t`, `select * from t where a = 'x\'y' and secret = 1`, `select 'a\\b', "c\\d"`, "select 1 -- plain", `update t set p = 'a\b' where q = "\"`}
	for _, q1 := range bs {
		for _, q2 := range bs {
			if !w.Take() {
				continue
			}
			pt := PointSpec{Meas: "m", Tags: map[string]string{"k3": q2}, Fields: map[string]any{"k1": q1, "k2": q2}}
			stmts := []*rt.Node{rt.Call("sql_cover", Id("k1")), rt.Call("sql_cover", Id("k2")), rt.Call("sql_cover", Id("k3")), rt.Call("p", Id("k1"), Id("k2"), Id("k3"))}
			c12Exec(w, "sql_cover-sequence", stmts, pt, "")
		}
	}
	for _, q := range sqls {
		for _, sit := range []int{sitField, sitVar, sitTag, sitVarOverField, sitAbsent} {
			if !w.Take() {
				continue
			}
			pt := PointSpec{Meas: "m", Tags: map[string]string{"o2": "t"}, Fields: map[string]any{"o1": int64(5)}}
			var pre []*rt.Node
			lit := func() *rt.Node {
				switch x := q.(type) {
				case string:
					return S(x)
				case int64:
					return rt.Int(x)
				}
				return rt.Nil()
			}
			switch sit {
			case sitField:
				pt.Fields["k"] = q
			case sitVar:
				pre = append(pre, rt.Assign("=", Id("k"), lit()))
			case sitTag:
				s, ok := q.(string)
				if !ok {
					continue
				}
				pt.Tags["k"] = s
			case sitVarOverField:
				pt.Fields["k"] = "select 1"
				pre = append(pre, rt.Assign("=", Id("k"), lit()))
			}
			stmts := append(pre, rt.Call("sql_cover", Id("k")), rt.Call("p", Id("k"), rt.Call("get_key", Id("k"))))
			c12Exec(w, "sql_cover", stmts, pt, "")
		}
	}
}

// c12AfterJump: pattern definitions and grok calls that follow a conditional break/continue inside
// a loop body (reachable code: the jump sits in a nested branch), and after the loop. They are checked,
// compiled and scoped like anywhere else.
func c12AfterJump(w *run.Worker) {
	S, Id := rt.Str, rt.Id
	def := func() *rt.Node { return rt.Call("add_pattern", S("pa"), S("[a-z]+")) }
	useLocal := func() *rt.Node { return rt.Call("p", rt.Call("grok", Id("_"), S("%{pa:x}")), Id("x")) }
	useGlobal := func() *rt.Node { return rt.Call("p", rt.Call("grok", Id("_"), S("%{INT:gi:int}")), Id("gi")) }
	useUnknown := func() *rt.Node { return rt.Call("p", rt.Call("grok", Id("_"), S("%{nosuch:x}"))) }
	type tail struct {
		before, inBody, after []nodeFn
	}
	tails := []tail{
		{inBody: []nodeFn{useGlobal}},
		{inBody: []nodeFn{def, useLocal}},
		{inBody: []nodeFn{useUnknown}},
		{inBody: []nodeFn{useLocal}},
		{before: []nodeFn{def}, inBody: []nodeFn{useLocal}},
		{inBody: []nodeFn{def}, after: []nodeFn{useLocal}},
		{inBody: []nodeFn{def, useLocal}, after: []nodeFn{useGlobal}},
		{inBody: []nodeFn{useGlobal}, after: []nodeFn{useUnknown}},
		{after: []nodeFn{useGlobal}},
		{after: []nodeFn{def, useLocal}},
	}
	jumps := []nodeFn{rt.Break, rt.Continue}
	guards := []func(j *rt.Node) *rt.Node{
		func(j *rt.Node) *rt.Node { return rt.If(rt.Bool(false), rt.Block(j)) },
		func(j *rt.Node) *rt.Node { return rt.If(rt.Bool(true), rt.Block(), rt.Block(j)) },
		func(j *rt.Node) *rt.Node { return rt.If(rt.Bin("==", Id("i"), rt.Int(2)), rt.Block(j)) },
		func(j *rt.Node) *rt.Node {
			return rt.If(rt.Bool(false), rt.Block(rt.If(rt.Bool(true), rt.Block(j))))
		},
		func(j *rt.Node) *rt.Node { // the jump belongs to an inner loop that has ended
			return rt.ForIn("q", rt.List(rt.Int(1)), rt.Block(j))
		},
	}
	loops := []func(body *rt.Node) *rt.Node{
		func(body *rt.Node) *rt.Node { return rt.ForIn("i", rt.List(rt.Int(1), rt.Int(2)), body) },
		func(body *rt.Node) *rt.Node {
			return rt.For(rt.Assign("=", Id("i"), rt.Int(1)), rt.Bin("<", Id("i"), rt.Int(3)), rt.Assign("=", Id("i"), rt.Bin("+", Id("i"), rt.Int(1))), body)
		},
	}
	pt := PointSpec{Meas: "m", Fields: map[string]any{"message": "hello 42"}}
	mk := func(fs []nodeFn) (out []*rt.Node) {
		for _, f := range fs {
			out = append(out, f())
		}
		return out
	}
	for _, t := range tails {
		for _, j := range jumps {
			for _, g := range guards {
				for _, l := range loops {
					for _, wrap := range []bool{false, true} {
						if !w.Take() {
							continue
						}
						body := append([]*rt.Node{g(j())}, mk(t.inBody)...)
						loop := l(rt.Block(body...))
						stmts := mk(t.before)
						if wrap {
							stmts = append(stmts, rt.If(rt.Bool(true), rt.Block(append([]*rt.Node{loop}, mk(t.after)...)...)))
						} else {
							stmts = append(append(stmts, loop), mk(t.after)...)
						}
						c12Exec(w, "after-jump", stmts, pt, "")
					}
				}
			}
		}
	}
}

// c12Sequences: the same extraction call executed again in ONE run after its subject got another
// value - by assignment, by add_key on the point, as the variable of a for-in loop, or because the
// call itself wrote into its subject. What is stored must be what the engine extracts from the text
// the subject holds AT THAT CALL (nothing remembered per subject name, per call site or per run).
func c12Sequences(w *run.Worker) {
	S, Id := rt.Str, rt.Id
	type maker func(k string) []*rt.Node
	type family struct {
		name     string
		makers   []maker
		subjects []string
	}
	fams := []family{
		{"grok", []maker{
			func(k string) []*rt.Node {
				return []*rt.Node{rt.Call("p", rt.Call("grok", Id(k), S("%{INT:gi:int} %{WORD:gw}")), rt.Call("get_key", Id("gi")), rt.Call("get_key", Id("gw")))}
			},
			func(k string) []*rt.Node {
				return []*rt.Node{rt.Call("p", rt.Call("grok", Id(k), S("^%{WORD:gw}$")), rt.Call("get_key", Id("gw")))}
			},
			func(k string) []*rt.Node { // captures into its own subject
				return []*rt.Node{rt.Call("p", rt.Call("grok", Id(k), S("%{INT:"+k+"}")), Id(k))}
			},
		}, []string{"12 ab", "7 zz", "word", "no match here", ""}},
		{"xml", []maker{
			func(k string) []*rt.Node {
				return []*rt.Node{rt.Call("xml", Id(k), S("/a/b"), Id("dst")), rt.Call("p", rt.Call("get_key", Id("dst")))}
			},
			func(k string) []*rt.Node {
				return []*rt.Node{rt.Call("xml", Id(k), S("//d"), Id("dst2")), rt.Call("p", rt.Call("get_key", Id("dst2")))}
			},
			func(k string) []*rt.Node { // unwraps into its own subject
				return []*rt.Node{rt.Call("xml", Id(k), S("/a/b"), Id(k)), rt.Call("p", Id(k), rt.Call("get_key", Id(k)))}
			},
		}, []string{`<a><b>1</b></a>`, `<a><b>2</b><c><d>deep</d></c></a>`, `<a><b><![CDATA[<a><b>inner</b></a>]]></b></a>`, `<c><d>other</d></c>`, `not xml`}},
		{"sql_cover", []maker{
			func(k string) []*rt.Node { return []*rt.Node{rt.Call("sql_cover", Id(k)), rt.Call("p", Id(k))} },
		}, []string{"select * from t where id = 42", `select * from t where dir = 'C:\'`, "not sql '", `select "a\b" from t where x = 'y'`}},
		{"default_time", []maker{
			func(k string) []*rt.Node { return []*rt.Node{rt.Call("default_time", Id(k)), rt.Call("p", Id(k))} },
			func(k string) []*rt.Node {
				return []*rt.Node{rt.Call("default_time", Id(k), S("Asia/Tokyo")), rt.Call("p", Id(k))}
			},
		}, []string{"2014-04-26 17:24:37", "2021-01-02T03:04:05Z", "1609556645", "garbage"}},
	}
	for _, f := range fams {
		for m1, mk1 := range f.makers {
			for m2, mk2 := range f.makers {
				for _, s1 := range f.subjects {
					for _, s2 := range f.subjects {
						for mode := 0; mode < 4; mode++ {
							if mode >= 2 && m1 != m2 {
								continue
							}
							if f.name == "default_time" && mode != 1 {
								continue
							}
							if !w.Take() {
								continue
							}
							pt := PointSpec{Meas: "m", Tags: map[string]string{"o2": "t"}, Fields: map[string]any{"o1": int64(5)}, Time: 1600000000000000000}
							var stmts []*rt.Node
							switch mode {
							case 0: // a variable assigned between the calls
								stmts = append(stmts, rt.Assign("=", Id("k"), S(s1)))
								stmts = append(stmts, mk1("k")...)
								stmts = append(stmts, rt.Assign("=", Id("k"), S(s2)))
								stmts = append(stmts, mk2("k")...)
							case 1: // a point field rewritten by add_key between the calls
								pt.Fields["k"] = s1
								stmts = append(stmts, mk1("k")...)
								stmts = append(stmts, rt.Call("add_key", Id("k"), S(s2)))
								stmts = append(stmts, mk2("k")...)
							case 2: // the variable of a for-in loop
								stmts = append(stmts, rt.ForIn("d", rt.List(S(s1), S(s2), S(s1)), rt.Block(mk1("d")...)))
							case 3: // a three-clause loop indexing a list of subjects
								stmts = append(stmts, rt.Assign("=", Id("docs"), rt.List(S(s1), S(s2), S(s1))))
								body := append([]*rt.Node{rt.Assign("=", Id("k"), rt.Index("docs", Id("i")))}, mk1("k")...)
								stmts = append(stmts, rt.For(rt.Assign("=", Id("i"), rt.Int(0)), rt.Bin("<", Id("i"), rt.Int(3)), rt.Assign("=", Id("i"), rt.Bin("+", Id("i"), rt.Int(1))), rt.Block(body...)))
							}
							c12Exec(w, "sequence-"+f.name, stmts, pt, "")
						}
					}
				}
			}
		}
	}
}

func c12Run(w *run.Worker) {
	c12AfterJump(w)
	c12Sequences(w)
	c12XMLSQL(w)
	c12Time(w)
	c12Typed(w)
	c12Scoping(w)
	c12Shadowing(w)
}

func c12Replay(raw json.RawMessage) (bool, string) {
	var c c12Case
	if err := json.Unmarshal(raw, &c); err != nil {
		return false, err.Error()
	}
	tree, err := parseToTree("s.p", c.Source)
	if err != nil {
		return false, err.Error()
	}
	fields := map[string]any{}
	for k, v := range c.Fields {
		if f, ok := v.(float64); ok && f == float64(int64(f)) && k == "o1" {
			fields[k] = int64(f)
			continue
		}
		fields[k] = v
	}
	p := &Prog{Scripts: map[string][]*rt.Node{"s.p": tree}, Main: "s.p", Point: PointSpec{Meas: "m", Tags: c.Tags, Fields: fields, Time: c.Time}, Extract: true}
	v := Differential(p)
	return !v.OK, fmt.Sprintf("%s %s", v.Key, v.What)
}

func init() {
	run.Register(&run.Check{
		ID:    "C12",
		Level: "model_checking",
		Rule: "(1) every placement of up to 3 add_pattern definitions (one referring to the other two) and a grok call using a local, a dependent or a global pattern over the 8 slots of a 3-level block skeleton (top, if, nested if/else, else, for body, after), definition before or after the use: load verdict and run-time captures; a name defined at the top and again in each of the 8 slots, used by grok / a composite definition in each slot, before or after the inner definition and once more after all blocks; " +
			"(2) 14 patterns (all capture types, convertible and inconvertible text, pattern capturing into its own subject) x trim_space {absent,true,false} x 6 subject situations x 14 subject values; " +
			"(1b) 10 arrangements of definitions and grok calls after a conditional break/continue in a loop body and after the loop x 2 jumps x 5 guards (never taken, else branch, taken in the second round, nested, jump of an inner loop) x 2 loop kinds x plain / inside an if block; subjects include floats and ints whose string form must be plain decimals (12345678.0, 0.00005, 1e21, 2^53+1); " + 
			"(3) default_time on the 66 documented layouts + 6 house layouts + non-timestamps, every house layout written for 5 instants x {padded, unpadded day/hour} x 6 numeric zones (positive, negative, half-hour) x 3 zone arguments, 4 base timestamps x 21 zone arguments (fixed-offset labels, IANA names, invalid) x subject situations, every numeric label of the documented table (DST-free ones in January, southern ones in July); datetime over 18 formats x 4 precisions x 16 epoch values (incl. floats with a fractional part) x 3 situations; " +
			"(2b) the same grok / xml / sql_cover / default_time call executed again in one run after its subject got another value (assignment, add_key, for-in variable, indexed list in a three-clause loop, the call writing into its own subject): all ordered pairs of calls of a family x all ordered pairs of 4-5 subjects; " +
			"(4) xml: 20 documents (well-formed, and malformed in ways a lenient decoder tolerates) x 13 XPath queries x 4 destination spellings x subject situations; (5) sql_cover: 20 strings x 5 situations, all ordered pairs of 6 backslash-bearing statements in one run; oracle: whole final point incl. time, probe trace (grok's boolean), load verdict",
		Assumptions: []string{"grok, xmlquery/xpath, dateparse, time, obfuscate are the trusted engines, called directly by the reference", "zone labels are checked against fixed offsets for DST-free zones / winter dates; DST-in-January labels, the CST label and year-less layouts are unspecified cells; IANA names incl. UTC are also run with summer and DST-switch dates", "the text of the failure note after the prefix `time convert failed` is not compared"},
		Run:            c12Run,
		Replay:         c12Replay,
		QuickBudget:    5 * time.Minute,
		ThoroughBudget: 15 * time.Minute,
	})
}
