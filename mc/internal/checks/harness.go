// Package checks holds the per-property checks C01..C20.
package checks

import (
	"fmt"
	"regexp"
	"sort"
	"strings"

	"github.com/GuanceCloud/grok"

	"github.com/GuanceCloud/platypus/pkg/parser"

	"verif/mc/internal/drv"
	"verif/mc/internal/ref"
	"verif/mc/internal/rt"
)

// Prog is one generated test program: a script set, the entry script and the
// input point.
type Prog struct {
	Scripts map[string][]*rt.Node
	Main    string
	Point   PointSpec
	Capture bool // compare standard output too
	Extract bool // grok/add_pattern load-time scoping + extraction builtins in the reference
	Polls   int  // poll cap of the real run (0 = realPollCap); longer loops need more
	// SrcOverride gives the source text of scripts that cannot be printed from a tree
	// (a script without statements is written as a comment, blank lines or a lone semicolon).
	SrcOverride map[string]string
}

// PointSpec is an input point in harness terms (usable for both sides).
type PointSpec struct {
	Meas   string
	Tags   map[string]string
	Fields map[string]any // Go values: nil bool int64 float64 string
	Time   int64
}

func (p PointSpec) real() drv.PointSpec {
	return drv.PointSpec{Meas: p.Meas, Tags: p.Tags, Fields: p.Fields, Time: p.Time}
}

func (p PointSpec) model() *ref.Point {
	f := map[string]ref.Value{}
	for k, v := range p.Fields {
		switch x := v.(type) { // small integer / float types are normalised to 64 bits when the point is built
		case int:
			v = int64(x)
		case int8:
			v = int64(x)
		case int16:
			v = int64(x)
		case int32:
			v = int64(x)
		case uint:
			v = int64(x)
		case uint8:
			v = int64(x)
		case uint16:
			v = int64(x)
		case uint32:
			v = int64(x)
		case uint64:
			v = int64(x)
		case float32:
			v = float64(x)
		}
		f[k] = v
	}
	return ref.NewPoint(p.Meas, p.Tags, f, p.Time)
}

func (p PointSpec) String() string {
	var parts []string
	for k, v := range p.Tags {
		parts = append(parts, fmt.Sprintf("tag %s=%q", k, v))
	}
	for k, v := range p.Fields {
		parts = append(parts, fmt.Sprintf("field %s=%s", k, drv.Canon(v)))
	}
	sort.Strings(parts)
	return fmt.Sprintf("{meas=%q %s}", p.Meas, strings.Join(parts, " "))
}

// Sources prints every script of the program.
func (p *Prog) Sources() map[string]string {
	out := map[string]string{}
	for name, stmts := range p.Scripts {
		src, _ := rt.PrintProg(stmts, nil)
		if o, ok := p.SrcOverride[name]; ok && len(stmts) == 0 {
			src = o
		}
		out[name] = src
	}
	return out
}

// Verdict of one differential run.
type Verdict struct {
	OK      bool
	Skipped string // non-empty: comparison skipped (unspecified cell), with reason
	Key     string // violation class suffix
	What    string
	Outcome string // canonical real outcome (for the distinct count)
	LoadErr string
	Real    drv.Result
	RefTrace []string
	RefPoint string
	RefErr   *ref.RErr
}

var failureNoteRe = regexp.MustCompile(`"pl_msg"=s:"time convert failed(\\.|[^"\\])*"`)

const (
	realPollCap = 400
	refStepCap  = 6000
)

// mapOrderChooser lets the reference try the iteration orders of 2-key maps.
type mapOrderChooser struct {
	bits uint
	used int
	w    *ref.World
}

func (m *mapOrderChooser) order(keys []string) []string {
	if len(keys) < 2 {
		return keys
	}
	if len(keys) > 2 {
		if m.w != nil && m.w.Unspec == "" {
			m.w.Unspec = "iteration over a map with more than two keys"
		}
		return keys
	}
	i := m.used
	m.used++
	if m.bits&(1<<uint(i)) != 0 {
		return []string{keys[1], keys[0]}
	}
	return keys
}

func runRef(p *Prog, v2 bool, bits uint) (*ref.World, *ref.Point, *ref.RErr, int) {
	w := ref.NewWorld()
	w.V2 = v2
	w.MaxSteps = refStepCap
	if p.Polls > 0 {
		w.MaxSteps = p.Polls * 40
	}
	ref.StdBuiltins(w)
	for name, s := range p.Scripts {
		w.Scripts[name] = s
	}
	if p.Extract {
		all := map[*rt.Node]*grok.GrokRegexp{}
		for _, s := range p.Scripts {
			_, compiled, redefined, _ := ref.GrokLoad(s)
			for k, v := range compiled {
				all[k] = v
			}
			if redefined {
				w.Unspec = "redefinition of an add_pattern name"
			}
		}
		ref.ExtractBuiltins(w, all)
	}
	ch := &mapOrderChooser{bits: bits, w: w}
	w.MapOrder = ch.order
	pt := p.Point.model()
	err := w.RunScript(p.Main, pt)
	return w, pt, err, ch.used
}

func isPrefix(a, b []string) bool {
	if len(a) > len(b) {
		a, b = b, a
	}
	for i := range a {
		if a[i] != b[i] {
			return false
		}
	}
	return true
}

// Differential loads and runs the program on the real v1 engine and on the
// reference model and compares trace, final point and error presence.
func Differential(p *Prog) Verdict {
	srcs := p.Sources()
	loaded, errs := drv.Load(srcs)
	if p.Extract {
		refOK, _, redefined, why := ref.GrokLoad(p.Scripts[p.Main])
		_, realBad := errs[p.Main]
		if redefined {
			return Verdict{OK: true, Skipped: "redefinition of an add_pattern name", Outcome: "unspec"}
		}
		if !refOK {
			if realBad {
				return Verdict{OK: true, Outcome: "load-rejected:" + why}
			}
			return Verdict{Key: "pattern-out-of-scope-accepted", Outcome: "accepted!", What: fmt.Sprintf("script accepted at load time although the reference rejects it (%s)\n%s", why, srcs[p.Main])}
		}
	}
	if e, bad := errs[p.Main]; bad {
		return Verdict{Key: "unexpected-load-error", LoadErr: e.Error(),
			What: fmt.Sprintf("script rejected at load time: %v\n%s", e, srcs[p.Main]), Outcome: "loaderr"}
	}
	sc := loaded[p.Main]
	pt := p.Point.real().Build()
	pollCap := realPollCap
	if p.Polls > 0 {
		pollCap = p.Polls
	}
	sig := &drv.Sig{FireAt: pollCap}
	var res drv.Result
	if p.Capture {
		res = drv.RunCapture(sc, pt, sig)
	} else {
		res = drv.Run(sc, pt, sig)
	}
	v := Verdict{Real: res}
	if res.Panic != "" {
		v.Key = "panic"
		v.What = fmt.Sprintf("run panicked: %s\n%s", res.Panic, srcs[p.Main])
		v.Outcome = "panic"
		return v
	}
	canceled := sig.N >= pollCap
	if p.Extract {
		res.Point = failureNoteRe.ReplaceAllString(res.Point, `"pl_msg"=s:"time convert failed"`)
		v.Real.Point = res.Point
	}
	realOut := strings.Join(res.Trace, ";") + "|" + res.Point + "|" + fmt.Sprint(res.Err != nil)
	if p.Capture {
		realOut += "|out=" + res.Stdout
	}
	v.Outcome = realOut
	var firstW *ref.World
	var firstPt *ref.Point
	var firstErr *ref.RErr
	for bits := uint(0); ; bits++ {
		w, rp, rerr, used := runRef(p, false, bits)
		if bits == 0 {
			firstW, firstPt, firstErr = w, rp, rerr
		}
		if w.Unspec != "" {
			v.Skipped = w.Unspec
			v.OK = true
			return v
		}
		if canceled || w.OutOfGas {
			if isPrefix(res.Trace, w.Trace) {
				v.OK = true
				v.Skipped = "" // compared as prefixes
				v.Outcome = "prefix:" + strings.Join(res.Trace, ";")
				return v
			}
		} else {
			refOut := strings.Join(w.Trace, ";") + "|" + rp.Canon() + "|" + fmt.Sprint(rerr != nil)
			if p.Capture {
				refOut += "|out=" + w.Stdout.String()
			}
			if refOut == realOut {
				v.OK = true
				v.RefErr = rerr
				return v
			}
		}
		if used == 0 || used > 6 || bits+1 >= 1<<uint(used) {
			break
		}
	}
	v.RefTrace, v.RefPoint, v.RefErr = firstW.Trace, firstPt.Canon(), firstErr
	switch {
	case (res.Err != nil) != (firstErr != nil) && !canceled && !firstW.OutOfGas:
		if res.Err != nil {
			v.Key = "error-where-reference-yields-value"
		} else {
			v.Key = "value-where-reference-errors"
		}
	case strings.Join(res.Trace, ";") != strings.Join(firstW.Trace, ";"):
		v.Key = "trace-differs"
	case res.Point != firstPt.Canon():
		v.Key = "point-differs"
	default:
		v.Key = "stdout-differs"
	}
	refErrS := "<nil>"
	if firstErr != nil {
		refErrS = firstErr.Msg
	}
	v.What = fmt.Sprintf("program:\n%s\npoint: %s\nreal : trace=%v point=%s err=%v\nref  : trace=%v point=%s err=%s",
		srcs[p.Main], p.Point, res.Trace, res.Point, res.Err, firstW.Trace, firstPt.Canon(), refErrS)
	if p.Capture {
		v.What += fmt.Sprintf("\nreal stdout: %q\nref  stdout: %q", res.Stdout, firstW.Stdout.String())
	}
	return v
}

// valueClass names the type class of a canonical value string ("i:5" -> int).
func valueClass(c string) string {
	switch {
	case c == "nil":
		return "nil"
	case strings.HasPrefix(c, "b:"):
		return "bool"
	case strings.HasPrefix(c, "i:"):
		return "int"
	case strings.HasPrefix(c, "f:"):
		return "float"
	case strings.HasPrefix(c, "s:"):
		return "str"
	case strings.HasPrefix(c, "["):
		return "list"
	case strings.HasPrefix(c, "{"):
		return "map"
	}
	return "other"
}

// replaySource re-runs a single-script program given as source text (the
// reference tree is recovered through the real parser).
func replaySource(src string, pt PointSpec) (bool, string) {
	stmts, err := parser.ParsePipeline("s.p", src)
	if err != nil {
		return false, "replay: source does not parse: " + err.Error()
	}
	tree, err := drv.FromAst(stmts)
	if err != nil {
		return false, "replay: " + err.Error()
	}
	p := &Prog{Scripts: map[string][]*rt.Node{"s.p": tree}, Main: "s.p", Point: pt}
	v := Differential(p)
	return !v.OK, v.What
}

// parseToTree recovers a reference tree from source text through the real parser.
func parseToTree(name, src string) ([]*rt.Node, error) {
	stmts, err := parser.ParsePipeline(name, src)
	if err != nil {
		return nil, fmt.Errorf("replay: %s does not parse: %v", name, err)
	}
	return drv.FromAst(stmts)
}

// dctx parameterises generators shared between the v1 checks and C18 (v2).
type dctx struct {
	id   string
	diff func(*Prog) Verdict
	v2   bool
}

// v1CoincidesOn lists the unspecified cells of the reference on which v1 and v2 are required to
// agree with each other (cells that do not touch a documented difference of the dialects).
var v1CoincidesOn = map[string]bool{
	"indexing through a missing map key": true,
	"membership across int/float":        true,
	"membership of NaN":                  true,
	"slice bound evaluating to nil":      true,
	"slice of a non-ASCII string":        true,
}

// DifferentialV2 runs a single-script program on the real v2 interpreter and
// on the reference in its v2 dialect; compares probe trace and error flag.
func DifferentialV2(p *Prog) Verdict {
	src := p.Sources()[p.Main]
	sc, err := drv.LoadV2(p.Main, src)
	if err != nil {
		return Verdict{Key: "unexpected-load-error", LoadErr: err.Error(), What: fmt.Sprintf("script rejected at load time: %v\n%s", err, src), Outcome: "loaderr"}
	}
	sig := &drv.Sig{FireAt: realPollCap}
	res := drv.RunV2(sc, sig)
	v := Verdict{Real: res}
	if res.Panic != "" {
		v.Key, v.What, v.Outcome = "panic", fmt.Sprintf("run panicked: %s\n%s", res.Panic, src), "panic"
		return v
	}
	canceled := sig.N >= realPollCap
	realOut := strings.Join(res.Trace, ";") + "|" + fmt.Sprint(res.Err != nil)
	v.Outcome = realOut
	var firstW *ref.World
	var firstErr *ref.RErr
	for bits := uint(0); ; bits++ {
		w := ref.NewWorld()
		w.V2 = true
		w.MaxSteps = refStepCap
		ref.V2Builtins(w)
		w.Scripts[p.Main] = p.Scripts[p.Main]
		ch := &mapOrderChooser{bits: bits, w: w}
		w.MapOrder = ch.order
		rerr := w.RunScript(p.Main, nil)
		if bits == 0 {
			firstW, firstErr = w, rerr
		}
		if w.Unspec != "" {
			v.Skipped, v.OK = w.Unspec, true
			// where the reference has no opinion the two interpreters still have to coincide
			// ("the same programs are also run on the v1 interpreter where the languages coincide")
			if !canceled && v1CoincidesOn[w.Unspec] {
				if l1, e1 := drv.Load(map[string]string{p.Main: src}); len(e1) == 0 {
					sig1 := &drv.Sig{FireAt: realPollCap}
					r1 := drv.Run(l1[p.Main], PointSpec{Meas: "m"}.real().Build(), sig1)
					v1Out := strings.Join(r1.Trace, ";") + "|" + fmt.Sprint(r1.Err != nil)
					if r1.Panic == "" && sig1.N < realPollCap && v1Out != realOut {
						v.Skipped, v.OK, v.Key = "", false, "v1-and-v2-disagree:"+strings.ReplaceAll(w.Unspec, " ", "-")
						v.What = fmt.Sprintf("program (shared language, cell `%s` not pinned by the reference):\n%s\nv2: trace=%v err=%v\nv1: trace=%v err=%v", w.Unspec, src, res.Trace, res.Err, r1.Trace, r1.Err)
					}
				}
			}
			return v
		}
		if canceled || w.OutOfGas {
			if isPrefix(res.Trace, w.Trace) {
				v.OK = true
				v.Outcome = "prefix:" + strings.Join(res.Trace, ";")
				return v
			}
		} else if strings.Join(w.Trace, ";")+"|"+fmt.Sprint(rerr != nil) == realOut {
			v.OK, v.RefErr = true, rerr
			return v
		}
		if ch.used == 0 || ch.used > 6 || bits+1 >= 1<<uint(ch.used) {
			break
		}
	}
	v.RefTrace, v.RefErr = firstW.Trace, firstErr
	switch {
	case (res.Err != nil) != (firstErr != nil) && !canceled && !firstW.OutOfGas:
		if res.Err != nil {
			v.Key = "error-where-reference-yields-value"
		} else {
			v.Key = "value-where-reference-errors"
		}
	default:
		v.Key = "trace-differs"
	}
	refErrS := "<nil>"
	if firstErr != nil {
		refErrS = firstErr.Msg
	}
	v.What = fmt.Sprintf("program (v2):\n%s\nreal : trace=%v err=%v\nref  : trace=%v err=%s", src, res.Trace, res.Err, firstW.Trace, refErrS)
	return v
}
