package checks

// Fam is an indexable finite family of values (engine E1 of DESIGN.md): N
// members, At(i) builds the i-th one afresh. Families compose by sum and
// product, so the i-th program of a size class is built in time proportional
// to its size, which gives sharding and replay-by-index for free and needs no
// memory for the enumeration itself.
type Fam struct {
	N  int64
	At func(i int64) any
}

func Leaves(fs ...func() any) Fam {
	return Fam{N: int64(len(fs)), At: func(i int64) any { return fs[i]() }}
}

func Sum(fs ...Fam) Fam {
	var total int64
	for _, f := range fs {
		total += f.N
	}
	parts := append([]Fam(nil), fs...)
	return Fam{N: total, At: func(i int64) any {
		for _, f := range parts {
			if i < f.N {
				return f.At(i)
			}
			i -= f.N
		}
		panic("fam: index out of range")
	}}
}

func Prod(a, b Fam, combine func(x, y any) any) Fam {
	return Fam{N: a.N * b.N, At: func(i int64) any {
		return combine(a.At(i/b.N), b.At(i%b.N))
	}}
}

func Prod3(a, b, c Fam, combine func(x, y, z any) any) Fam {
	return Fam{N: a.N * b.N * c.N, At: func(i int64) any {
		z := c.At(i % c.N)
		i /= c.N
		y := b.At(i % b.N)
		i /= b.N
		return combine(a.At(i), y, z)
	}}
}

func MapFam(a Fam, f func(x any) any) Fam {
	return Fam{N: a.N, At: func(i int64) any { return f(a.At(i)) }}
}
