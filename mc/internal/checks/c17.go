package checks

import (
	"encoding/json"
	"fmt"
	"os"
	"strings"
	"time"

	"github.com/GuanceCloud/platypus/pkg/errchain"
	"github.com/GuanceCloud/platypus/pkg/parser"
	"github.com/GuanceCloud/platypus/pkg/token"

	"verif/mc/internal/drv"
	"verif/mc/internal/rt"
	"verif/mc/internal/run"
)

// C17 — every reported position designates the right place in the source.

type c17Case struct {
	Part   string `json:"part"`
	Source string `json:"source,omitempty"`
	Text   string `json:"text,omitempty"`
	Offset int    `json:"offset,omitempty"`
	End    int    `json:"end,omitempty"`
	Chain  []int  `json:"chain,omitempty"`
	Msg    int    `json:"message_index,omitempty"`
}

// scanLnCol: independent line / 1-based byte column of an offset.
func scanLnCol(src string, pos int) (int, int) {
	ln, last := 1, -1
	for i := 0; i < pos && i < len(src); i++ {
		if src[i] == '\n' {
			ln++
			last = i
		}
	}
	return ln, pos - last
}

// comparePositions walks the generated tree (offsets recorded by the printer)
// and the parsed tree (offsets stored by the parser) in parallel.
func comparePositions(gen, got *rt.Node, report func(field string, want, have int)) {
	if gen == nil || got == nil {
		return
	}
	k := gen.K.String()
	cmp := func(field string, want, have int) {
		if want != have {
			report(k+"."+field, want, have)
		}
	}
	switch gen.K {
	case rt.KIdent, rt.KInt, rt.KFloat, rt.KStr, rt.KBool, rt.KNil, rt.KBreak, rt.KContinue:
		cmp("Start", gen.Start, got.Start)
	case rt.KList, rt.KMap, rt.KParen:
		cmp("L", gen.L, got.L)
		cmp("R", gen.R, got.R)
	case rt.KUnary, rt.KBin, rt.KIn, rt.KAssign:
		cmp("OpPos", gen.OpPos, got.OpPos)
	case rt.KIndex:
		if !gen.NoObj {
			cmp("Obj.Start", gen.Start, got.Start)
		}
		for i := range gen.Ls {
			if i < len(got.Ls) {
				cmp("LBracket", gen.Ls[i], got.Ls[i])
			}
			if i < len(got.Rs) {
				cmp("RBracket", gen.Rs[i], got.Rs[i])
			}
		}
		if len(gen.Ls) != len(got.Ls) || len(gen.Rs) != len(got.Rs) {
			report(k+".bracket-count", len(gen.Ls), len(got.Ls))
		}
	case rt.KSlice:
		cmp("L", gen.L, got.L)
		cmp("R", gen.R, got.R)
	case rt.KAttr:
		cmp("Start", gen.Start, got.Start)
	case rt.KCall:
		cmp("NamePos", gen.Start, got.Start)
		cmp("LParen", gen.L, got.L)
		cmp("RParen", gen.R, got.R)
	case rt.KNamed:
		cmp("Name.Start", gen.Start, got.Start)
		cmp("OpPos", gen.OpPos, got.OpPos)
	case rt.KIf:
		for i := range gen.Ls {
			if i < len(got.Ls) {
				cmp("IfPos", gen.Ls[i], got.Ls[i])
			}
		}
		if gen.HasElse {
			cmp("ElsePos", gen.OpPos, got.OpPos)
		}
	case rt.KFor:
		cmp("ForPos", gen.Start, got.Start)
	case rt.KForIn:
		cmp("ForPos", gen.Start, got.Start)
		cmp("InPos", gen.OpPos, got.OpPos)
	case rt.KBlock:
		cmp("LBrace", gen.L, got.L)
		cmp("RBrace", gen.R, got.R)
	}
	// StartPos() must lie inside the node's extent
	if gen.K != rt.KBlock && gen.K != rt.KNamed && got.SPos != gen.Start {
		lo, hi := gen.Start, gen.End
		if gen.K == rt.KIndex && gen.NoObj {
			lo = gen.Start
		}
		if got.SPos < lo || got.SPos >= hi {
			report(k+".StartPos()-outside-node", gen.Start, got.SPos)
		}
	}
	for i := range gen.Kids {
		if i < len(got.Kids) {
			comparePositions(gen.Kids[i], got.Kids[i], report)
		}
	}
}

// c17MultiLine: a triple-quoted literal spanning three lines.
func c17MultiLine() *rt.Node {
	n := rt.Str("first\n second é\n")
	n.Spell = "'''first\n second é\n'''"
	return n
}

// c17Tree checks one program text: all stored offsets and their line/column.
func c17Tree(w *run.Worker, prog []*rt.Node, src string) {
	w.Eval()
	stmts, err := parser.ParsePipeline("s.p", src)
	if err != nil || stmts == nil {
		w.Note("rejected_programs(C06 decides)", 1)
		return
	}
	got, recs, err := drv.FromAstWithLnCol(stmts)
	if err != nil || !rt.EqualProg(got, prog) {
		w.Note("tree_mismatch(C06 decides)", 1)
		return
	}
	for i := range prog {
		comparePositions(prog[i], got[i], func(field string, want, have int) {
			w.Violate("C17:tree-pos:"+field, fmt.Sprintf("%s: stored offset %d, the token is at %d\n%s", field, have, want, src), c17Case{Part: "tree", Source: src})
		})
	}
	for _, r := range recs {
		if r.Pos < 0 || r.Pos > len(src) {
			continue // reported above as a wrong offset
		}
		ln, col := scanLnCol(src, r.Pos)
		if ln != r.Ln || col != r.Col {
			w.Violate("C17:tree-lncol:"+r.Field, fmt.Sprintf("%s: offset %d stored as %d:%d, it is %d:%d\n%s", r.Field, r.Pos, r.Ln, r.Col, ln, col, src), c17Case{Part: "tree", Source: src})
		}
	}
	w.OutcomeHash(hash2(src, "", len(recs)))
}

func c17Trees(w *run.Worker) {
	fams := []Fam{pOpTrees(1), pOpTrees(2), pUnaryMix(), pLeafUnary(), pStatements(), pLeafPairs()}
	if w.Thorough {
		fams = append(fams, pOpTrees(3))
	}
	gaps := map[int][]string{
		rt.SiteAfterOp: {"\n", " # c\n  ", "\r\n"}, rt.SiteAfterComma: {"\n\t", "\r\n\t"}, rt.SiteAfterOpen: {"\n", "\r\n"}, rt.SiteAfterColon: {"\n "},
		rt.SiteBetween: {"\n\n", ";", "\r\n", "\r\n\r\n"}, rt.SiteSpace: {"  ", "\r"},
	}
	for fi, f := range fams {
		for i := int64(0); i < f.N; i++ {
			if !w.Take() {
				continue
			}
			if w.Expired() {
				return
			}
			root := f.At(i).(*rt.Node)
			// preceded by a line with a multi-byte rune so that line != 1 and column != offset+1
			prog := []*rt.Node{rt.Assign("=", rt.Id("é"), rt.Str("é")), root}
			if i%2 == 1 {
				// every second program: also after a multi-line literal (line breaks inside a token)
				prog = []*rt.Node{rt.Assign("=", rt.Id("é"), rt.Str("é")), rt.Assign("=", rt.Id("ml"), c17MultiLine()), root}
			}
			if i%4 == 2 {
				// every fourth program: the text starts with a byte-order mark (which reads as part of the first name)
				prog = []*rt.Node{rt.Assign("=", rt.Id("\ufeffb"), rt.Str("é")), root}
			}
			src, sites := rt.PrintProg(prog, nil)
			c17Tree(w, prog, src)
			if w.WantSample() && i%503 == 0 {
				w.Sample(map[string]any{"text": src, "positions_checked": "every stored offset and its line/column"})
			}
			if fi == 5 && !w.Thorough {
				continue // leaf pairs: base layout only in the quick tier
			}
			for s := range sites {
				for _, g := range gaps[sites[s]] {
					src, _ := rt.PrintProg(prog, func(j, kind int) string {
						if j == s {
							return g
						}
						return ""
					})
					c17Tree(w, prog, src)
				}
			}
		}
	}
}

// (B) the two position-lookup routines agree with an independent scan
func c17Lookup(w *run.Worker) {
	alpha := []string{"a", "\n", "é", "\r"}
	maxLen := 8
	var rec func(cur string, n int)
	check := func(text string) {
		if !w.Take() {
			return
		}
		pc := token.NewPosCache(text)
		for off := -1; off <= len(text)+1; off++ {
			w.Eval()
			got := pc.LnCol(token.Pos(off))
			ln2, col2, err := token.LnCol(text, token.Pos(off))
			valid := off >= 0 && off <= len(text)
			mk := c17Case{Part: "lookup", Text: text, Offset: off}
			if !valid {
				if got.Pos != -1 || got.Ln != -1 || err == nil {
					w.Violate("C17:lookup:invalid-offset-accepted", fmt.Sprintf("text %q offset %d: PosCache=%+v LnCol err=%v", text, off, got, err), mk)
				}
				continue
			}
			ln, col := scanLnCol(text, off)
			if got.Ln != ln || got.Col != col || int(got.Pos) != off {
				w.Violate("C17:lookup:PosCache.LnCol-wrong", fmt.Sprintf("text %q offset %d: PosCache says %d:%d, it is %d:%d", text, off, got.Ln, got.Col, ln, col), mk)
			}
			if err != nil || ln2 != ln || col2 != col {
				w.Violate("C17:lookup:LnCol-wrong", fmt.Sprintf("text %q offset %d: LnCol says %d:%d err=%v, it is %d:%d", text, off, ln2, col2, err, ln, col), mk)
			}
		}
		w.OutcomeHash(hash2(text, "", 0))
	}
	rec = func(cur string, n int) {
		check(cur)
		if n == maxLen {
			return
		}
		for _, a := range alpha {
			rec(cur+a, n+1)
		}
	}
	rec("", 0)
	// other characters of more than one byte: a byte-order mark, a four-byte character, a Unicode line
	// separator (not a line break here), next to a tab
	alpha = []string{"a", "\n", "\ufeff", "😀", "\u2028", "\t"}
	maxLen = 6
	rec("", 0)
}

// (C) run-time faults: the error position lies inside the statement at fault
func c17Faults() []nodeFn {
	I, S, Id := rt.Int, rt.Str, rt.Id
	return []nodeFn{
		func() *rt.Node { return rt.Bin("+", I(1), rt.Nil()) },
		func() *rt.Node { return rt.Bin("+", Id("x"), Id("l")) },
		func() *rt.Node { return rt.Bin("-", S("a"), I(1)) },
		func() *rt.Node { return rt.Bin("/", I(1), Id("z0")) },
		func() *rt.Node { return rt.Bin("%", I(1), Id("z0")) },
		func() *rt.Node { return rt.Bin("%", rt.Float(1.5), I(2)) },
		func() *rt.Node { return rt.Bin("<", Id("x"), S("a")) },
		func() *rt.Node { return rt.Bin("&&", Id("x"), rt.Bool(true)) },
		func() *rt.Node { return rt.Bin("||", rt.Bool(false), I(1)) },
		func() *rt.Node { return rt.In(I(1), I(2)) },
		func() *rt.Node { return rt.In(I(1), S("abc")) },
		func() *rt.Node { return rt.In(Id("x"), Id("m")) },
		func() *rt.Node { return rt.Un("-", S("a")) },
		func() *rt.Node { return rt.Un("-", Id("l")) },
		func() *rt.Node { return rt.Index("l", I(9)) },
		func() *rt.Node { return rt.Index("l", S("k")) },
		func() *rt.Node { return rt.Index("m", I(0)) },
		func() *rt.Node { return rt.Index("x", I(0)) },
		func() *rt.Node { return rt.Index("nosuch", I(0)) },
		func() *rt.Node { return rt.Index("l", I(0), I(0)) },
		func() *rt.Node { return rt.NoObjIndex(I(0)) },
		func() *rt.Node { return rt.Slice(Id("l"), nil, nil, Id("z0"), true) },
		func() *rt.Node { return rt.Slice(Id("l"), Id("m"), nil, nil, false) },
		func() *rt.Node { return rt.Slice(Id("x"), I(0), I(1), nil, false) },
		func() *rt.Node { return rt.Slice(Id("l"), nil, Id("l"), nil, false) },
		func() *rt.Node { return rt.Slice(Id("l"), nil, Id("m"), I(1), true) },
		func() *rt.Node { return rt.Slice(Id("l"), I(0), Id("m"), nil, false) },
		func() *rt.Node { return rt.Slice(Id("l"), nil, nil, Id("m"), true) },
		func() *rt.Node { return rt.Slice(Id("l"), I(0), I(1), Id("m"), true) },
		func() *rt.Node { return rt.Slice(S("abc"), nil, Id("m"), nil, false) },
		func() *rt.Node { return rt.Map(Id("x"), I(1)) },
		func() *rt.Node { return rt.Call("load_json", I(5)) },
		func() *rt.Node { return rt.Call("load_json", S("{bad")) },
		func() *rt.Node { return rt.List(I(1), rt.Bin("+", I(1), rt.Nil())) },
		func() *rt.Node { return rt.Call("len", rt.Bin("*", S("a"), I(2))) },
		func() *rt.Node { return rt.Paren(rt.Bin("+", rt.Map(), I(1))) },
		// data errors of builtins met at run time, at many places of many texts within one process
		func() *rt.Node { return rt.Call("replace", Id("x"), S("(unclosed"), S("b")) },
		func() *rt.Node { return rt.Call("replace", Id("nokey"), S("a[bc"), S("")) },
	}
}

func c17Roles(f nodeFn) [][]*rt.Node {
	I, Id := rt.Int, rt.Id
	return [][]*rt.Node{
		{f()},
		{rt.Assign("=", Id("y"), f())},
		{rt.Assign("+=", Id("x"), f())},
		{rt.Assign("=", rt.Index("l", I(0)), f())},
		{rt.Assign("=", rt.Index("l", f()), I(1))},
		{rt.Call("p", I(1), f())},
		{rt.Call("add_key", Id("k"), f())},
		{rt.Call("set_tag", Id("k"), Id("x")), rt.Call("p", f())},
		{rt.If(f(), rt.Block(rt.Call("p", I(1))))},
		{rt.If(rt.Bool(false), rt.Block(), f(), rt.Block())},
		{rt.For(nil, f(), nil, rt.Block(rt.Break()))},
		{rt.For(rt.Assign("=", Id("j"), f()), nil, nil, rt.Block(rt.Break()))},
		{rt.For(nil, nil, rt.Assign("=", Id("j"), f()), rt.Block(rt.Call("p", I(2))))},
		{rt.ForIn("v", rt.Normalize(rt.Paren(f())), rt.Block())},
		{rt.ForIn("v", Id("x"), rt.Block())},
		{rt.Call("p", rt.List(f())), rt.Call("p", I(3))},
	}
}

func c17RunFaults(w *run.Worker) {
	I, S, Id := rt.Int, rt.Str, rt.Id
	prelude := func() []*rt.Node {
		return []*rt.Node{
			rt.Assign("=", Id("x"), I(1)), rt.Assign("=", Id("z0"), I(0)),
			rt.Assign("=", Id("l"), rt.List(I(1), I(2))), rt.Assign("=", Id("m"), rt.Map(S("k"), I(1))),
			rt.Assign("=", Id("é"), S("日本")),
			// line breaks INSIDE tokens (a multi-line literal, a back-quoted name): lines are counted from the text, not from the tokens
			rt.Assign("=", Id("ml"), c17MultiLine()),
			rt.Assign("=", rt.QId("two\nlines"), I(2)),
		}
	}
	for _, f := range c17Faults() {
		nroles := len(c17Roles(f))
		for ri := 0; ri < nroles; ri++ {
			for place := 0; place < 6; place++ {
				if !w.Take() {
					continue
				}
				role := c17Roles(f)[ri]
				var stmts []*rt.Node
				stmts = append(stmts, prelude()...)
				switch place {
				case 0:
					stmts = append(stmts, role...)
				case 1:
					stmts = append(stmts, rt.If(rt.Bin("==", Id("x"), I(1)), rt.Block(append([]*rt.Node{rt.Call("p", I(0))}, role...)...)))
				case 2:
					stmts = append(stmts, rt.ForIn("i", rt.List(I(1)), rt.Block(rt.If(rt.Bool(false), rt.Block(), rt.Block(role...)))))
				case 3:
					stmts = append(stmts, rt.For(nil, nil, nil, rt.Block(append(role, rt.Break())...)))
				case 4, 5:
					stmts = append(stmts, role...)
				}
				stmts = append(stmts, rt.Call("p", I(7)))
				p := &Prog{Scripts: map[string][]*rt.Node{"s.p": stmts}, Main: "s.p", Point: PointSpec{Meas: "m"}}
				if place >= 4 {
					// the fault happens in a used script (one and two use() levels down): the chain names
					// each script with a position inside that script
					lib := append(prelude(), role...)
					p.Scripts["lib.p"] = lib
					main := []*rt.Node{rt.Call("p", I(1)), rt.If(rt.Bool(true), rt.Block(rt.Call("p", I(2)), rt.Call("use", S("lib.p")))), rt.Call("p", I(7))}
					if place == 5 {
						p.Scripts["mid.p"] = []*rt.Node{rt.Assign("=", Id("q"), I(1)), rt.Call("use", S("lib.p"))}
						main = []*rt.Node{rt.Call("use", S("mid.p")), rt.Call("p", I(7))}
					}
					p.Scripts["s.p"] = main
				}
				w.Eval()
				v := Differential(p)
				src := p.Sources()["s.p"]
				w.Outcome(v.Outcome)
				mk := c17Case{Part: "run-fault", Source: src}
				if v.Skipped != "" {
					w.Note("unspecified_cells_skipped", 1)
					continue
				}
				if v.Key == "panic" {
					w.Violate("C17:run-fault:panic:"+panicSite(v.Real.Stack), v.What, mk)
					continue
				}
				if !v.OK {
					w.Note("semantic_mismatch(decided by C02/C04/C11)", 1)
					if os.Getenv("VERIF_DEBUG") != "" {
						fmt.Fprintln(os.Stderr, "MISMATCH:", v.Key, v.What)
					}
					continue
				}
				e := v.Real.Err
				if e == nil {
					w.Note("fault_without_error", 1)
					continue
				}
				posMsg := ""
				if place >= 4 {
					posMsg = c17ErrPosMulti(e, p.Sources(), "lib.p")
				} else {
					posMsg = c17ErrPos(e, src, "s.p")
				}
				if msg := posMsg; msg != "" {
					w.Violate("C17:run-fault:"+strings.SplitN(msg, ":", 2)[0], msg+"\nerror: "+e.Error()+"\n"+src, mk)
					continue
				}
				if msg := chainCheck(e, v.RefErr); msg != "" {
					kind := "position-outside-statement"
					if !strings.Contains(msg, "outside") {
						kind = "chain"
					}
					w.Violate("C17:run-fault:"+kind+":"+c17FaultClass(v.RefErr.At), msg+"\nerror: "+e.Error()+"\n"+src, mk)
					continue
				}
				w.Note("error_positions_checked", 1)
			}
		}
	}
}

func c17FaultClass(n *rt.Node) string {
	if n == nil {
		return "?"
	}
	s := n.K.String()
	if n.Op != "" {
		s += n.Op
	}
	return s
}

// c17ErrPos checks script name, offset range and line/column of every chain entry.
func c17ErrPos(e *errchain.PlError, src, name string) string {
	if len(e.PosChain) == 0 {
		return "empty-chain: the error carries no position"
	}
	for i, p := range e.PosChain {
		if i == 0 && p.File != name {
			return fmt.Sprintf("wrong-file: first entry names %q", p.File)
		}
		if p.Pos < 0 || p.Pos >= len(src) {
			return fmt.Sprintf("offset-out-of-source: entry %d has offset %d (source length %d, ln %d col %d)", i, p.Pos, len(src), p.Ln, p.Col)
		}
		ln, col := scanLnCol(src, p.Pos)
		if ln != p.Ln || col != p.Col {
			return fmt.Sprintf("lncol-inconsistent: entry %d offset %d rendered %d:%d, it is %d:%d", i, p.Pos, p.Ln, p.Col, ln, col)
		}
	}
	return ""
}

// c17ErrPosMulti: every chain entry lies inside the script it names, with consistent line/column.
func c17ErrPosMulti(e *errchain.PlError, srcs map[string]string, first string) string {
	if len(e.PosChain) == 0 {
		return "empty-chain: the error carries no position"
	}
	for i, p := range e.PosChain {
		if i == 0 && p.File != first {
			return fmt.Sprintf("wrong-file: first entry names %q, the fault is in %q", p.File, first)
		}
		src, known := srcs[p.File]
		if !known {
			return fmt.Sprintf("wrong-file: entry %d names unknown script %q", i, p.File)
		}
		if p.Pos < 0 || p.Pos >= len(src) {
			return fmt.Sprintf("offset-out-of-source: entry %d has offset %d in %q (%d bytes)", i, p.Pos, p.File, len(src))
		}
		if ln, col := scanLnCol(src, p.Pos); ln != p.Ln || col != p.Col {
			return fmt.Sprintf("lncol-inconsistent: entry %d offset %d of %q rendered %d:%d, it is %d:%d", i, p.Pos, p.File, p.Ln, p.Col, ln, col)
		}
	}
	return ""
}

// (D) error chains: rendering, JSON round trip, Copy isolation
func c17Chains(w *run.Worker) {
	files, poss := c17ChainFiles, c17ChainPoss
	nopt := len(files) * len(poss)
	for n := 1; n <= 4; n++ {
		idx := make([]int, n)
		for {
			for mi := range c17Messages {
				if w.Take() {
					w.Eval()
					c17OneChain(w, idx, files, poss, mi)
				}
			}
			j := n - 1
			for ; j >= 0; j-- {
				idx[j]++
				if idx[j] < nopt {
					break
				}
				idx[j] = 0
			}
			if j < 0 {
				break
			}
		}
	}
}

var (
	c17ChainFiles = []string{"a.p", "dir/b.p"}
	c17ChainPoss  = []token.LnColPos{{Pos: 0, Ln: 1, Col: 1}, {Pos: 17, Ln: 3, Col: 4}, {Pos: -1, Ln: -1, Col: -1}}
)

// message texts: the rendering must reproduce them verbatim (format verbs, line breaks, quotes, empty)
var c17Messages = []string{"boom: msg", "no pattern found for %{NAME}", "100% %d %s %v %!", "", "two\nlines", "é \"quoted\" \\ `x`", "%"}

func c17OneChain(w *run.Worker, idx []int, files []string, poss []token.LnColPos, mi int) {
	msg := c17Messages[mi]
	mk := c17Case{Part: "chain", Chain: append([]int(nil), idx...), Msg: mi}
	f := func(i int) (string, token.LnColPos) { return files[idx[i]%len(files)], poss[idx[i]/len(files)] }
	f0, p0 := f(0)
	e := errchain.NewErr(f0, p0, msg)
	want := fmt.Sprintf("%s:%d:%d: %s", f0, p0.Ln, p0.Col, msg)
	for i := 1; i < len(idx); i++ {
		fi, pi := f(i)
		// append to a copy; the original must not change, even when its backing array has spare capacity
		before := fmt.Sprint(e.PosChain)
		spare := &errchain.PlError{Err: e.Err, PosChain: append(make([]errchain.Position, 0, 8), e.PosChain...)}
		c1 := spare.Copy().ChainAppend(fi, pi)
		c2 := spare.Copy().ChainAppend("other.p", token.LnColPos{Pos: 99, Ln: 9, Col: 9})
		if fmt.Sprint(spare.PosChain) != before {
			w.Violate("C17:chain:append-to-copy-alters-original", fmt.Sprintf("original chain changed from %s to %v", before, spare.PosChain), mk)
		}
		if c1.PosChain[len(c1.PosChain)-1].File != fi || c2.PosChain[len(c2.PosChain)-1].File != "other.p" {
			w.Violate("C17:chain:copies-share-storage", fmt.Sprintf("two copies appended independently: %v / %v", c1.PosChain, c2.PosChain), mk)
		}
		// rendering an error does not freeze it: render, extend, render again
		if mi%2 == 1 {
			_ = e.Error()
		}
		if mi%3 == 0 {
			e = e.Copy().ChainAppend(fi, pi)
		} else {
			e = e.ChainAppend(fi, pi)
		}
		want += fmt.Sprintf("\n%s:%d:%d:", fi, pi.Ln, pi.Col)
		if got := e.Error(); got != want {
			w.Violate("C17:chain:rendering-after-append", fmt.Sprintf("after appending entry %d: Error() = %q, want %q", i, got, want), mk)
			return
		}
	}
	if got := e.Error(); got != want {
		w.Violate("C17:chain:rendering", fmt.Sprintf("Error() = %q, want %q", got, want), mk)
	}
	raw, err := json.Marshal(e)
	var back errchain.PlError
	if err != nil || json.Unmarshal(raw, &back) != nil || back.Error() != e.Error() || fmt.Sprint(back.PosChain) != fmt.Sprint(e.PosChain) || back.Err != e.Err {
		w.Violate("C17:chain:json-round-trip", fmt.Sprintf("%s -> %+v", raw, back), mk)
	}
	w.Outcome(want)
}

func c17Run(w *run.Worker) {
	c17Chains(w)
	c17LoadFaults(w)
	c17UseChainFaults(w)
	c17CheckFaultChains(w)
	c17Lookup(w)
	c17RunFaults(w)
	c17Trees(w)
}

func c17Replay(raw json.RawMessage) (bool, string) {
	var c c17Case
	if err := json.Unmarshal(raw, &c); err != nil {
		return false, err.Error()
	}
	switch c.Part {
	case "tree":
		stmts, err := parser.ParsePipeline("s.p", c.Source)
		if err != nil {
			return false, "does not parse: " + err.Error()
		}
		got, recs, err := drv.FromAstWithLnCol(stmts)
		if err != nil {
			return false, err.Error()
		}
		// re-derive the generated offsets by printing the parsed tree with the same text is not
		// possible in general; report the stored positions for inspection and re-check line/column
		bad := false
		var b strings.Builder
		for _, r := range recs {
			ln, col := scanLnCol(c.Source, r.Pos)
			tok := ""
			if r.Pos >= 0 && r.Pos < len(c.Source) {
				end := r.Pos + 6
				if end > len(c.Source) {
					end = len(c.Source)
				}
				tok = c.Source[r.Pos:end]
			}
			fmt.Fprintf(&b, "%s offset=%d %d:%d text=%q\n", r.Field, r.Pos, r.Ln, r.Col, tok)
			if r.Pos >= 0 && r.Pos <= len(c.Source) && (ln != r.Ln || col != r.Col) {
				bad = true
			}
		}
		// structural re-check through a second print of the parsed tree (offsets of an equal layout)
		prog := make([]*rt.Node, len(got))
		for i := range got {
			prog[i] = rt.Clone(got[i])
		}
		if src2, _ := rt.PrintProg(prog, nil); src2 == c.Source {
			for i := range prog {
				comparePositions(prog[i], got[i], func(field string, want, have int) {
					bad = true
					fmt.Fprintf(&b, "MISMATCH %s: stored %d, token at %d\n", field, have, want)
				})
			}
		}
		return bad, b.String()
	case "use-chain-fault":
		a := strings.SplitN(c.Source, c17SepM, 2)
		if len(a) != 2 {
			return false, "malformed case"
		}
		b := strings.SplitN(a[1], c17SepL, 2)
		if len(b) != 2 {
			return false, "malformed case"
		}
		probs := c17UseChainCheck(map[string]string{"s.p": a[0], "m.p": b[0], "l.p": b[1]})
		return len(probs) > 0, fmt.Sprint(probs)
	case "check-fault-chain":
		_, errs := drv.Load(map[string]string{"s.p": c.Source})
		pe, _ := errs["s.p"].(*errchain.PlError)
		if pe == nil {
			return false, fmt.Sprint(errs["s.p"])
		}
		bad := false
		for i, p := range pe.PosChain {
			if i > 0 && p.Pos >= 0 && p.Pos < len(c.Source) && c.Source[p.Pos] == '{' {
				bad = true
			}
		}
		return bad, pe.Error()
	case "lookup":
		pc := token.NewPosCache(c.Text)
		got := pc.LnCol(token.Pos(c.Offset))
		ln, col := scanLnCol(c.Text, c.Offset)
		ln2, col2, err := token.LnCol(c.Text, token.Pos(c.Offset))
		valid := c.Offset >= 0 && c.Offset <= len(c.Text)
		bad := valid && (got.Ln != ln || got.Col != col || ln2 != ln || col2 != col || err != nil)
		return bad, fmt.Sprintf("PosCache=%+v LnCol=%d:%d err=%v scan=%d:%d", got, ln2, col2, err, ln, col)
	case "run-fault":
		tree, err := parseToTree("s.p", c.Source)
		if err != nil {
			return false, err.Error()
		}
		p := &Prog{Scripts: map[string][]*rt.Node{"s.p": tree}, Main: "s.p", Point: PointSpec{Meas: "m"}}
		v := Differential(p)
		if v.Key == "panic" {
			return true, v.What
		}
		if v.Real.Err == nil {
			return false, "no error"
		}
		src := p.Sources()["s.p"]
		if msg := c17ErrPos(v.Real.Err, src, "s.p"); msg != "" {
			return true, msg
		}
		if msg := chainCheck(v.Real.Err, v.RefErr); msg != "" {
			return true, msg
		}
		return false, "position ok: " + v.Real.Err.Error()
	}
	if c.Part == "load-fault" {
		class, msg, rejected := c17LoadFaultCheck(c.Source, c.Offset, c.End)
		if !rejected {
			return false, "accepted"
		}
		return class != "", class + " " + msg
	}
	if c.Part == "chain" && len(c.Chain) > 0 && c.Msg >= 0 && c.Msg < len(c17Messages) {
		f := func(i int) (string, token.LnColPos) {
			return c17ChainFiles[c.Chain[i]%len(c17ChainFiles)], c17ChainPoss[(c.Chain[i]/len(c17ChainFiles))%len(c17ChainPoss)]
		}
		f0, p0 := f(0)
		e := errchain.NewErr(f0, p0, c17Messages[c.Msg])
		want := fmt.Sprintf("%s:%d:%d: %s", f0, p0.Ln, p0.Col, c17Messages[c.Msg])
		for i := 1; i < len(c.Chain); i++ {
			fi, pi := f(i)
			e = e.Copy().ChainAppend(fi, pi)
			want += fmt.Sprintf("\n%s:%d:%d:", fi, pi.Ln, pi.Col)
		}
		return e.Error() != want, fmt.Sprintf("Error() = %q\nwant      %q", e.Error(), want)
	}
	return false, "unknown case"
}

func init() {
	run.Register(&run.Check{
		ID:    "C17",
		Level: "model_checking",
		Rule: "(A) every program of the C06 generator (all node kinds), preceded by a line containing a multi-byte rune, in base layout and with one layout insertion (LF, CRLF, bare CR, comment, semicolon, blanks) at every site: every position field of the parsed tree against the printer's token offset, line/column against an independent scan, StartPos() inside the node; " +
			"(B) all texts of length <=8 over {a, newline, é, CR} and of length <=6 over {a, newline, byte-order mark, a four-byte character, U+2028, tab} x every offset -1..len+1: PosCache.LnCol == LnCol == independent scan, invalid offsets rejected; " +
			"(C) 38 run-time faults (incl. a builtin whose literal pattern does not compile) x 16 syntactic roles x 6 places (top level, if body, else inside for-in, for body, inside a used script one and two use() levels down; after a multi-line literal and a back-quoted name containing a line break): script name, 0 <= offset < len(source), offset inside the statement at fault, line/column consistent, chain = call sites; " +
			"(E) 14 load-time faults (8 recorded by node constructors, 6 lexical: open strings, a bad escape, an out-of-range octal, a malformed number) x 10 roles x 7 preceding texts (incl. line breaks inside tokens) x 3 following texts, each loaded together with a twin of identical text: positioned PlError naming its own script, inside the statement that holds the fault; (D) all chains of 1..4 positions over 2 file names x 3 positions x 7 message texts (format verbs, line breaks, quotes, empty): Error() rendering verbatim, JSON round trip, Copy()+ChainAppend isolation (also with spare capacity)",
		Assumptions: []string{"load-time error positions are decided by C08 with the same offset oracle"},
		Run:            c17Run,
		Replay:         c17Replay,
		QuickBudget:    4 * time.Minute,
		ThoroughBudget: 20 * time.Minute,
	})
}
