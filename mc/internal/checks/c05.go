package checks

import (
	"encoding/json"
	"fmt"
	"runtime"
	"runtime/debug"
	"strings"
	"time"

	"github.com/GuanceCloud/platypus/pkg/ast"
	"github.com/GuanceCloud/platypus/pkg/errchain"
	"github.com/GuanceCloud/platypus/pkg/parser"

	"verif/mc/internal/drv"
	"verif/mc/internal/rt"
	"verif/mc/internal/run"
)

// C05 — parsing any text ends with a syntax tree or a positioned diagnostic.

type c05Case struct {
	Source string `json:"source"`
	Hex    string `json:"hex"`
}

func mkC05(src string) c05Case { return c05Case{Source: src, Hex: fmt.Sprintf("%x", src)} }

// c05Parse checks the parser contract on one text. Returns a violation
// (class, message) or "".
func c05Parse(src string) (class, msg string, accepted bool) {
	var stmts any
	var err error
	var nilTree bool
	func() {
		defer func() {
			if r := recover(); r != nil {
				class, msg = "panic-escapes-parser", fmt.Sprintf("ParsePipeline panicked: %v\n%s", r, debug.Stack())
			}
		}()
		s, e := parser.ParsePipeline("s.p", src)
		stmts, err = s, e
		nilTree = s == nil
	}()
	if class != "" {
		return
	}
	_ = stmts
	if err == nil {
		if nilTree {
			return "neither-tree-nor-error", "ParsePipeline returned (nil, nil)", false
		}
		// "a complete syntax tree": a text on which the lexer reports an error is not a program,
		// and the tree must reach the last significant token of the text
		lastTok, lexErr := c05LastToken(src)
		if lexErr != "" {
			return "accepted-despite-lexical-error", "the text is accepted although the lexer reports: " + lexErr, true
		}
		if tree, cerr := drv.FromAst(stmts.(ast.Stmts)); cerr == nil && lastTok >= 0 {
			if mp := maxPos(tree, src); mp < lastTok {
				return "tree-does-not-cover-the-text", fmt.Sprintf("accepted, but the tree's last position is %d while the last token starts at %d: part of the text was dropped", mp, lastTok), true
			}
		}
		return "", "", true
	}
	pe, ok := err.(*errchain.PlError)
	if !ok || pe == nil {
		return "error-without-position", fmt.Sprintf("error of type %T carries no position: %v", err, err), false
	}
	if len(pe.PosChain) < 1 {
		return "error-without-position", "PlError with an empty position chain: " + pe.Err, false
	}
	p := pe.PosChain[0]
	if p.File != "s.p" {
		return "error-wrong-script-name", fmt.Sprintf("error names %q", p.File), false
	}
	if p.Pos < 0 || p.Pos > len(src) {
		return "error-position-out-of-source", fmt.Sprintf("offset %d for a source of %d bytes (%d:%d): %s", p.Pos, len(src), p.Ln, p.Col, pe.Err), false
	}
	ln, col := scanLnCol(src, p.Pos)
	if p.Ln != ln || p.Col != col || p.Ln < 1 || p.Col < 1 {
		return "error-lncol-inconsistent", fmt.Sprintf("offset %d rendered %d:%d, it is %d:%d", p.Pos, p.Ln, p.Col, ln, col), false
	}
	// the same text offered under another script name: the same diagnostic, naming THAT script
	func() {
		defer func() {
			if r := recover(); r != nil {
				class, msg = "panic-escapes-parser", fmt.Sprintf("second parse of the same text panicked: %v", r)
			}
		}()
		_, e2 := parser.ParsePipeline("dir/other.ppl", src)
		pe2, ok2 := e2.(*errchain.PlError)
		switch {
		case e2 == nil || !ok2 || pe2 == nil || len(pe2.PosChain) < 1:
			class, msg = "second-parse-differs", fmt.Sprintf("first parse: %v; the same text under another name: %v", err, e2)
		case pe2.PosChain[0].File != "dir/other.ppl":
			class, msg = "error-wrong-script-name", fmt.Sprintf("parsed as dir/other.ppl, the error names %q", pe2.PosChain[0].File)
		case pe2.Err != pe.Err || pe2.PosChain[0].Pos != p.Pos:
			class, msg = "second-parse-differs", fmt.Sprintf("first parse: %v; the same text under another name: %v", err, e2)
		}
	}()
	return class, msg, false
}

// c05LastToken: start offset of the last token that is not a separator or
// comment (-1 if none), and the lexer's error message if it reports one.
func c05LastToken(src string) (int, string) {
	l := parser.Lex(src)
	last := -1
	for n := 0; n <= len(src)+2; n++ {
		var it parser.Item
		l.NextItem(&it)
		switch it.Typ {
		case parser.ERROR:
			return last, it.Val
		case parser.EOF:
			return last, ""
		case parser.EOL, parser.SEMICOLON, parser.COMMENT, parser.SPACE:
		default:
			last = int(it.Pos)
		}
	}
	return last, ""
}

// maxPos: the largest offset recorded anywhere in a converted tree. A numeric
// literal with folded signs (`- -5`) records the position of its first sign;
// its number token is located through the lexer.
func maxPos(prog []*rt.Node, src string) int {
	numberAt := map[int]int{} // offset of a sign run -> offset of the number token ending it
	{
		l := parser.Lex(src)
		var runStart []int
		for n := 0; n <= len(src)+2; n++ {
			var it parser.Item
			l.NextItem(&it)
			if it.Typ == parser.ERROR || it.Typ == parser.EOF {
				break
			}
			switch it.Typ {
			case parser.ADD, parser.SUB:
				runStart = append(runStart, int(it.Pos))
			case parser.NUMBER:
				for _, p := range runStart {
					numberAt[p] = int(it.Pos)
				}
				runStart = nil
			case parser.COMMENT, parser.SPACE:
				// a comment ended by a bare CR sits between the sign and the number
			default:
				runStart = nil
			}
		}
	}
	m := -1
	var walk func(n *rt.Node)
	walk = func(n *rt.Node) {
		if n == nil {
			return
		}
		start := n.Start
		if n.K == rt.KInt || n.K == rt.KFloat {
			if p, ok := numberAt[start]; ok {
				start = p
			}
		}
		for _, p := range []int{start, n.OpPos, n.L, n.R} {
			if p > m {
				m = p
			}
		}
		for _, p := range n.Ls {
			if p > m {
				m = p
			}
		}
		for _, p := range n.Rs {
			if p > m {
				m = p
			}
		}
		for _, k := range n.Kids {
			walk(k)
		}
	}
	for _, n := range prog {
		walk(n)
	}
	return m
}

// c05Lex checks the token-tiling property of the exported lexer.
func c05Lex(src string) (class, msg string) {
	defer func() {
		if r := recover(); r != nil {
			class, msg = "lexer-panic", fmt.Sprintf("lexer panicked: %v", r)
		}
	}()
	l := parser.Lex(src)
	prevEnd := 0
	blanks := func(a, b int) bool {
		for i := a; i < b; i++ {
			if c := src[i]; c != ' ' && c != '\t' && c != '\r' {
				return false
			}
		}
		return true
	}
	for n := 0; n <= len(src)+2; n++ {
		var it parser.Item
		l.NextItem(&it)
		switch it.Typ {
		case parser.ERROR:
			if int(it.Pos) < prevEnd || int(it.Pos) > len(src) {
				return "lexer-error-position", fmt.Sprintf("ERROR item at %d after a token ending at %d", it.Pos, prevEnd)
			}
			return "", ""
		case parser.EOF:
			if !blanks(prevEnd, len(src)) {
				return "lexer-skips-text", fmt.Sprintf("EOF reached but %q after offset %d was never emitted", src[prevEnd:], prevEnd)
			}
			return "", ""
		}
		p := int(it.Pos)
		if p < prevEnd {
			return "lexer-overlap", fmt.Sprintf("item %q at %d overlaps the previous one ending at %d", it.Val, p, prevEnd)
		}
		if p+len(it.Val) > len(src) || src[p:p+len(it.Val)] != it.Val {
			return "lexer-item-text", fmt.Sprintf("item %q at %d is not the source text there", it.Val, p)
		}
		if len(it.Val) == 0 {
			return "lexer-empty-item", fmt.Sprintf("empty item of type %v at %d", it.Typ, p)
		}
		if !blanks(prevEnd, p) {
			return "lexer-skips-text", fmt.Sprintf("%q between %d and %d was skipped", src[prevEnd:p], prevEnd, p)
		}
		prevEnd = p + len(it.Val)
	}
	return "lexer-no-eof", "the lexer did not reach EOF or ERROR within len+2 items"
}

func c05One(w *run.Worker, part, src string) {
	w.Eval()
	class, msg, accepted := c05Parse(src)
	if class != "" {
		w.Violate("C05:"+part+":"+class+":"+c05Shape(src), fmt.Sprintf("%s\nsource: %q", msg, src), mkC05(src))
	}
	if accepted {
		w.Note("accepted_texts", 1)
	}
	if lc, lm := c05Lex(src); lc != "" {
		w.Violate("C05:"+part+":"+lc, fmt.Sprintf("%s\nsource: %q", lm, src), mkC05(src))
	}
	w.OutcomeHash(hash2(src, class, b2i(accepted)))
}

// c05Shape: coarse class of a failing text (which malformed-number / keyword it contains).
func c05Shape(src string) string {
	for _, m := range []string{"0x", "0X", "1e", "for", "in", "if", "elif", "else", "[", "{", "(", "."} {
		if strings.Contains(src, m) {
			return "has-" + m
		}
	}
	return "other"
}

var c05Tokens = []string{
	"a", "b", "`q r`", "1", "0", "1.5", "1e", "0x", "1.2.3", "0x1F", "inf",
	`"s"`, `'t'`, `"""m"""`, `"unterminated`, `"\q"`, "`raw",
	"if", "elif", "else", "for", "in", "break", "continue", "true", "nil", "while", "return",
	"(", ")", "[", "]", "{", "}", ",", ":", ";", "\n", ".", "=", "==", "+=", "+", "-", "*", "/", "%", "!", "!=", "<", "&&", "||", "|", "# c\n", "é", "\x80",
	"\u2002", "\u00a0", "\u3000", "\u2028", "\u0085", // Unicode blanks (not blanks of this language)
	"brea\u212a", "\u0130f", // letters whose lower case is ASCII: the token still spans its own bytes
	"\u540d", "\U0001d4b3", // a three-byte and a four-byte letter
}

func c05ValidPrograms() []string {
	return []string{
		"a = 1", "a = b + 1 * 2", "f(a, b=1)", "a[0][1] = x", "b = a[1:2:3]", "b = a[:]", "b = a[::2]", "x = [1, 2, [3]]",
		`m = {"k": 1, "j": [2]}`, "if a { b } elif c { d } else { e }", "for i = 0; i < 3; i = i + 1 { f(i) }", "for ; ; { break }",
		"for x in [1, 2] { continue }", "for k in m { f(k) }", "a += 1; b -= 2\nc *= 3", "x = -1 + +2 - !b", "a.b.c", "f(a.b[0])", "x = (1 + 2) * 3",
		`s = "a\n" + 'b' + """c"""`, "a, b = 1, 2", "x = a in b && c || d", "f(.[0])", "x = nil == null", "`a b` = 1", "x = 1e3 + 0x1F + 1.5",
		"if a == 1 {\n  b = 2\n}\n", "f(\n a,\n b,\n)", "x = [\n1,\n2,\n]", "x = {\n\"a\": 1,\n}", "# comment\na = 1 # trailing\n",
	}
}

// tokenize splits a valid program into lexer items (text pieces).
func c05Tokenize(src string) []string {
	l := parser.Lex(src)
	var out []string
	for i := 0; i < len(src)+2; i++ {
		var it parser.Item
		l.NextItem(&it)
		if it.Typ == parser.EOF || it.Typ == parser.ERROR {
			break
		}
		out = append(out, it.Val)
	}
	return out
}

func c05Run(w *run.Worker) {
	// (A) all byte strings up to a length bound
	alpha := []byte("aex019\"'`\\\n #()[]{}:;,.=+-*/!<&|")
	alpha = append(alpha, 0x80, 0xC3, 0xA9, '\r')
	maxLen := 4
	if w.Thorough {
		maxLen = 5
	}
	buf := make([]byte, 0, 8)
	var rec func(n int)
	rec = func(n int) {
		if w.Take() {
			c05One(w, "bytes", string(buf))
		}
		if n == maxLen || w.Expired() {
			return
		}
		for _, c := range alpha {
			buf = append(buf, c)
			rec(n + 1)
			buf = buf[:len(buf)-1]
		}
	}
	rec(0)
	// (B) all token sequences
	maxTok := 3
	if w.Thorough {
		maxTok = 4
	}
	var toks []string
	var trec func(n int)
	trec = func(n int) {
		if n > 0 && w.Take() {
			c05One(w, "tokens", strings.Join(toks, " "))
			if n <= 3 {
				c05One(w, "tokens", strings.Join(toks, "")) // written without blanks in between
			}
		}
		if n == maxTok || w.Expired() {
			return
		}
		for _, t := range c05Tokens {
			toks = append(toks, t)
			trec(n + 1)
			toks = toks[:len(toks)-1]
		}
	}
	trec(0)
	// (C) deviation-bounded mutation of valid programs
	for _, prog := range c05ValidPrograms() {
		items := c05Tokenize(prog)
		if w.Take() {
			w.Eval()
			if class, msg, acc := c05Parse(prog); class != "" || !acc {
				w.Violate("C05:mutation:base-program-not-accepted", fmt.Sprintf("%s %s\n%q", class, msg, prog), mkC05(prog))
			}
		}
		mutate := func(it []string, yield func([]string)) {
			for i := range it {
				// delete
				d := append(append([]string{}, it[:i]...), it[i+1:]...)
				yield(d)
				// duplicate
				u := append(append(append([]string{}, it[:i+1]...), it[i]), it[i+1:]...)
				yield(u)
				// replace
				for _, t := range c05Tokens {
					r := append([]string{}, it...)
					r[i] = t
					yield(r)
				}
			}
		}
		mutate(items, func(m1 []string) {
			if w.Take() {
				c05One(w, "mutation", strings.Join(m1, " "))
			}
			if w.Thorough && len(items) <= 12 {
				mutate(m1, func(m2 []string) {
					if w.Take() && !w.Expired() {
						c05One(w, "mutation2", strings.Join(m2, " "))
					}
				})
			}
		})
	}
	// (E) string literals: every body over the bytes the string lexer and the
	// unquoting step branch on, between each quote style, alone and in context
	strSyms := []string{"a", "\n", "\r", "\\", "\"", "'", "`", "é", "\x80", "n", "\x00"}
	strMax := 4
	if w.Thorough {
		strMax = 5
	}
	quotes := [][2]string{{`"`, `"`}, {"'", "'"}, {"`", "`"}, {`"""`, `"""`}, {"'''", "'''"}}
	var body []string
	var srec func(n int)
	srec = func(n int) {
		if w.Take() {
			b := strings.Join(body, "")
			for _, q := range quotes {
				c05One(w, "strings", "x = "+q[0]+b+q[1])
				c05One(w, "strings", "f("+q[0]+b+q[1]+", 1)\ny = 2")
				c05One(w, "strings", "`q r` = 1\nx = "+q[0]+b+q[1]) // after a back-quoted name
			}
		}
		if n == strMax || w.Expired() {
			return
		}
		for _, c := range strSyms {
			body = append(body, c)
			srec(n + 1)
			body = body[:len(body)-1]
		}
	}
	srec(0)
	// (D) deep nesting
	depths := []int{10, 100, 10000}
	if w.Thorough {
		depths = append(depths, 100000)
	}
	for _, d := range depths {
		forms := []func(int) string{
			func(n int) string { return strings.Repeat("(", n) + "a" + strings.Repeat(")", n) },
			func(n int) string { return strings.Repeat("[", n) + "a" + strings.Repeat("]", n) },
			func(n int) string { return "x = " + strings.Repeat(`{"k":`, n) + "1" + strings.Repeat("}", n) },
			func(n int) string { return strings.Repeat("-", n) + "a" },
			func(n int) string { return strings.Repeat("!", n) + "a" },
			func(n int) string { return strings.Repeat("f(", n) + "a" + strings.Repeat(")", n) },
			func(n int) string { return "a" + strings.Repeat("[0]", n) },
			func(n int) string { return "a" + strings.Repeat(".b", n) },
			func(n int) string { return strings.Repeat("if a {", n) + strings.Repeat("}", n) },
			func(n int) string { return strings.Repeat("for ;; {", n) + strings.Repeat("}", n) },
			func(n int) string { return "a" + strings.Repeat(" + a", n) },
			func(n int) string { return strings.Repeat("(", n) },
			func(n int) string { return strings.Repeat("{", n) },
			func(n int) string { return strings.Repeat("a = 1\n", n) },
			func(n int) string { return `"` + strings.Repeat("a", n) },
			func(n int) string { return strings.Repeat("#", n) },
		}
		for _, f := range forms {
			if w.Take() {
				c05One(w, "nesting", f(d))
			}
		}
	}
	// (D2) growth: the memory a parse allocates grows linearly with the text. For each wide or deep
	// form the parse of 16n elements may allocate at most 64 times what the parse of n elements does
	// (doubling buffers give at most 32); a quadratic diagnostic or copy gives 256. Allocation counts
	// do not depend on machine load, so this is not a timing oracle.
	{
		chain := func(n int) string { return "a" + strings.Repeat(" + a", n) }
		forms := []func(int) string{
			func(n int) string { return strings.Repeat("(", n) + "a" + strings.Repeat(")", n) },
			func(n int) string { return "x = " + strings.Repeat("[", n) + "a" + strings.Repeat("]", n) },
			func(n int) string { return "x = " + strings.Repeat(`{"k":`, n) + "1" + strings.Repeat("}", n) },
			func(n int) string { return strings.Repeat("-", n) + "a" },
			func(n int) string { return strings.Repeat("f(", n) + "a" + strings.Repeat(")", n) },
			func(n int) string { return "a" + strings.Repeat("[0]", n) },
			func(n int) string { return "a" + strings.Repeat(".b", n) },
			func(n int) string { return strings.Repeat("if a {", n) + strings.Repeat("}", n) },
			func(n int) string { return "x = " + chain(n) },
			func(n int) string { return "x = [" + strings.Repeat("a, ", n) + "a]" },
			func(n int) string { return "f(" + strings.Repeat("a, ", n) + "a)" },
			func(n int) string { return strings.Repeat("a = 1\n", n) },
			// wide expressions in the positions whose diagnostics mention them
			func(n int) string { return "for " + chain(n) + " in x {}" },
			func(n int) string { return "for x in " + chain(n) + " {}" },
			func(n int) string { return "for " + chain(n) + " {}" },
			func(n int) string { return "for (" + chain(n) + ") in x {}" },
			func(n int) string { return "for a" + strings.Repeat("[0]", n) + " in x {}" },
			func(n int) string { return "for a" + strings.Repeat(".b", n) + " in x {}" },
			func(n int) string { return chain(n) + " = 1" },
			func(n int) string { return chain(n) + " += 1" },
			func(n int) string { return "f(" + chain(n) + " = 1)" },
			func(n int) string { return "x = {" + chain(n) + ": 1}" },
			func(n int) string { return chain(n) + "(1)" },
			func(n int) string { return "x = a[" + chain(n) + ":" + chain(n) + "]" },
			func(n int) string { return "if " + chain(n) + " { } elif " + chain(n) + " { }" },
			func(n int) string { return "x = " + chain(n) + " )" },
			func(n int) string { return "x = \"" + strings.Repeat("\\q", n) + "\"" },
		}
		allocOf := func(src string) uint64 {
			var m0, m1 runtime.MemStats
			runtime.ReadMemStats(&m0)
			func() {
				defer func() { _ = recover() }()
				_, _ = parser.ParsePipeline("s.p", src)
			}()
			runtime.ReadMemStats(&m1)
			return m1.TotalAlloc - m0.TotalAlloc
		}
		const n0 = 1500
		for fi, f := range forms {
			if !w.Take() {
				continue
			}
			w.Eval()
			_ = allocOf(f(8)) // warm the pools
			small, big := allocOf(f(n0)), allocOf(f(16*n0))
			w.OutcomeHash(hash2("growth", fmt.Sprint(fi), 0))
			if big > 64*small+(8<<20) {
				src := f(16)
				w.Violate("C05:growth:allocation-grows-faster-than-the-text", fmt.Sprintf("parsing this form with %d elements allocates %d bytes, with %d elements %d bytes (%.0f times as much for 16 times the text): time and memory are not linear in the size of the text, a large text is never answered\nform (16 elements): %q",
					n0, small, 16*n0, big, float64(big)/float64(small), src), mkC05(src))
			}
		}
	}
	if w.Shard == 0 {
		w.Sample(map[string]any{"bytes": "every byte string of length <= bound over a 35-byte alphabet, e.g. \"-0x\"", "tokens": "every sequence of <=3 tokens of a 56-token alphabet, e.g. \"for a in 1e\""})
	}
}

func c05Replay(raw json.RawMessage) (bool, string) {
	var c c05Case
	if err := json.Unmarshal(raw, &c); err != nil {
		return false, err.Error()
	}
	class, msg, acc := c05Parse(c.Source)
	lc, lm := c05Lex(c.Source)
	return class != "" || lc != "", fmt.Sprintf("parse: %s %s accepted=%v\nlex: %s %s", class, msg, acc, lc, lm)
}

func init() {
	run.Register(&run.Check{
		ID:    "C05",
		Level: "model_checking",
		Rule: "(A) every byte string of length <=4 (thorough <=5) over a 36-byte alphabet (one byte per lexer branch, incl. CR and invalid UTF-8 bytes); (B) every sequence of <=3 (thorough <=4) tokens from a 65-token alphabet (incl. Unicode blanks, letters that case-fold to ASCII, two-, three- and four-byte letters), written with and (up to 3 tokens) without blanks in between (every token kind and keyword, malformed numbers, unterminated strings, bad escapes); " +
			"(C) 31 valid programs covering every production x every token position x {delete, duplicate, replace by each of the 56 tokens}, 1 deviation (thorough 2); (E) every string body of <=4 (thorough <=5) symbols over {a LF CR backslash \" ' ` é 0x80 n NUL} between each of the 5 quote styles, as an assignment, as a call argument followed by another line, and after a statement with a back-quoted name; (D) nesting depth 10/100/10^4 (thorough 10^5) of every bracket, unary operator, call, index, attribute, block; (D2) 27 wide or deep forms (incl. long expressions in the positions whose diagnostics mention them: for-in variable, iterable, assignment target, named argument, map key, callee) at 1500 and 24000 elements: the bytes allocated by the parse grow at most 64-fold; " +
			"oracle: ParsePipeline returns a tree xor a PlError naming the script with 0 <= offset <= len and consistent line/column, never (nil,nil), never a position-less error; a rejected text offered again under another script name gives the same diagnostic naming that script; the exported lexer's items tile the source (gaps only blanks)",
		Assumptions: []string{"a worker that dies or stops making progress is reported with the index of the text it was parsing"},
		Run:            c05Run,
		Replay:         c05Replay,
		QuickBudget:    5 * time.Minute,
		ThoroughBudget: 30 * time.Minute,
	})
}
