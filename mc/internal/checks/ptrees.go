package checks

import (
	"verif/mc/internal/rt"
)

// Generators of syntax trees for the parser-level checks (C06, C17, C08).

var pBinOps = []string{"||", "&&", "in", "==", "!=", "<", "<=", ">", ">=", "+", "-", "*", "/", "%"}
var pUnOps = []string{"-", "+", "!"}
var pAsgOps = []string{"=", "+=", "-=", "*=", "/=", "%="}

func pIdents() []nodeFn {
	var out []nodeFn
	for _, n := range []string{"a", "b", "c", "d"} {
		n := n
		out = append(out, func() *rt.Node { return rt.Id(n) })
	}
	return out
}

// pSliceForms: the 12 bound/colon forms of a slice on the given object.
func pSliceForms(obj nodeFn) []nodeFn {
	I := rt.Int
	var out []nodeFn
	for mask := 0; mask < 8; mask++ {
		s, e, t := mask&1 != 0, mask&2 != 0, mask&4 != 0
		colons := []bool{true}
		if !t {
			colons = []bool{false, true}
		}
		for _, c2 := range colons {
			c2 := c2
			out = append(out, func() *rt.Node {
				var sn, en, tn *rt.Node
				if s {
					sn = I(1)
				}
				if e {
					en = rt.Id("e")
				}
				if t {
					tn = I(-2)
				}
				return rt.Slice(obj(), sn, en, tn, c2)
			})
		}
	}
	return out
}

// pRichLeaves: one representative of every primary-expression form.
func pRichLeaves() []nodeFn {
	I, S, Id := rt.Int, rt.Str, rt.Id
	out := []nodeFn{
		func() *rt.Node { return Id("a") },
		func() *rt.Node { return rt.QId("a b") },
		func() *rt.Node { return I(1) },
		func() *rt.Node { return I(-7) },
		func() *rt.Node { return rt.Float(1.5) },
		func() *rt.Node { return rt.Float(-0.25) },
		func() *rt.Node { return S("s") },
		func() *rt.Node { return rt.Bool(true) },
		func() *rt.Node { return rt.Bool(false) },
		func() *rt.Node { return rt.Nil() },
		func() *rt.Node { return rt.Call("f") },
		func() *rt.Node { return rt.Call("f", Id("a"), I(2)) },
		func() *rt.Node { return rt.Call("f", Id("a"), rt.Named("k", I(1)), rt.Named("j", rt.Bin("+", Id("a"), I(1)))) },
		func() *rt.Node { return rt.Call("f", rt.Call("g", rt.Call("h"))) },
		// the grammar admits every mix of positional and named arguments (their order is a load-time rule)
		func() *rt.Node { return rt.Call("f", rt.Named("k", I(1)), Id("a")) },
		func() *rt.Node { return rt.Call("f", rt.Named("k", I(1))) },
		func() *rt.Node { return rt.Call("f", Id("a"), rt.Named("k", rt.List(I(1))), Id("b"), rt.Named("j", rt.Call("g", rt.Named("x", I(1)), I(2)))) },
		func() *rt.Node { return rt.Index("a", I(0)) },
		func() *rt.Node { return rt.Index("a", I(0), S("k"), rt.Bin("+", Id("i"), I(1))) },
		func() *rt.Node { return rt.NoObjIndex(I(0)) },
		func() *rt.Node { return rt.Attr(Id("a"), Id("b")) },
		func() *rt.Node { return rt.Attr(rt.Attr(Id("a"), Id("b")), Id("c")) },
		func() *rt.Node { return rt.Attr(Id("a"), rt.Index("b", I(0))) },
		func() *rt.Node { return rt.Attr(rt.Index("a", I(0)), Id("b")) },
		func() *rt.Node { return rt.List() },
		func() *rt.Node { return rt.List(Id("a"), I(1), rt.List(I(2))) },
		func() *rt.Node { return rt.Map() },
		func() *rt.Node { return rt.Map(S("k"), Id("a"), Id("b"), rt.Map(S("j"), I(1))) },
		func() *rt.Node { return rt.Paren(Id("a")) },
		func() *rt.Node { return rt.Un("-", Id("a")) },
		func() *rt.Node { return rt.Un("!", Id("a")) },
		func() *rt.Node { return rt.Un("-", rt.Un("-", Id("a"))) },
		func() *rt.Node { return rt.Un("!", rt.Un("-", Id("a"))) },
	}
	out = append(out, pSliceForms(func() *rt.Node { return Id("a") })...)
	out = append(out, pSliceForms(func() *rt.Node { return rt.List(I(1), I(2)) })[3:5]...)
	out = append(out, pSliceForms(func() *rt.Node { return S("xy") })[5:7]...)
	out = append(out, pSliceForms(func() *rt.Node { return rt.Call("f", Id("a")) })[8:10]...)
	out = append(out, pSliceForms(func() *rt.Node { return rt.Slice(Id("a"), I(0), nil, nil, false) })[10:12]...)
	out = append(out, pSliceForms(func() *rt.Node { return I(5) })[1:2]...)
	return out
}

// pOpTrees: every tree with k binary operators (all shapes, all operator
// assignments) over fixed identifier leaves a, b, c, d in order.
func pOpTrees(k int) Fam {
	var parts []Fam
	names := []string{"a", "b", "c", "d", "e"}
	for _, sh := range shapesOf(k) {
		sh := sh
		n := int64(1)
		for i := 0; i < k; i++ {
			n *= int64(len(pBinOps))
		}
		parts = append(parts, Fam{N: n, At: func(i int64) any {
			ops := make([]string, k)
			for j := k - 1; j >= 0; j-- {
				ops[j] = pBinOps[i%int64(len(pBinOps))]
				i /= int64(len(pBinOps))
			}
			oi, li := 0, 0
			var build func(s *shape) *rt.Node
			build = func(s *shape) *rt.Node {
				if s == nil {
					n := rt.Id(names[li])
					li++
					return n
				}
				op := ops[oi]
				oi++
				l := build(s.l)
				r := build(s.r)
				return rt.Bin(op, l, r)
			}
			return rt.Normalize(build(sh))
		}})
	}
	return Sum(parts...)
}

// pUnaryMix: unary operators combined with every binary operator in every
// placement: u(a op b), (u a) op b, a op (u b), u u a.
func pUnaryMix() Fam {
	var fs []func() any
	for _, u := range pUnOps {
		for _, op := range pBinOps {
			u, op := u, op
			fs = append(fs,
				func() any { return rt.Normalize(rt.Un(u, rt.Bin(op, rt.Id("a"), rt.Id("b")))) },
				func() any { return rt.Normalize(rt.Bin(op, rt.Un(u, rt.Id("a")), rt.Id("b"))) },
				func() any { return rt.Normalize(rt.Bin(op, rt.Id("a"), rt.Un(u, rt.Id("b")))) },
			)
		}
		for _, u2 := range pUnOps {
			u, u2 := u, u2
			fs = append(fs, func() any { return rt.Un(u, rt.Un(u2, rt.Id("a"))) })
		}
	}
	return Leaves(fs...)
}

// pLeafPairs: L1 op L2 for all rich leaves and operators.
func pLeafPairs() Fam {
	leaves := pRichLeaves()
	nl, no := int64(len(leaves)), int64(len(pBinOps))
	return Fam{N: nl * nl * no, At: func(i int64) any {
		r := leaves[i%nl]
		i /= nl
		l := leaves[i%nl]
		i /= nl
		return rt.Normalize(rt.Bin(pBinOps[i], l(), r()))
	}}
}

func pLeafUnary() Fam {
	leaves := pRichLeaves()
	var fs []func() any
	for _, u := range pUnOps {
		for _, l := range leaves {
			u, l := u, l
			fs = append(fs, func() any {
				x := l()
				if (x.K == rt.KInt || x.K == rt.KFloat) && u != "!" {
					// sign folding would merge the sign into the literal: keep them apart
					x = rt.Paren(x)
				}
				return rt.Normalize(rt.Un(u, x))
			})
		}
	}
	return Leaves(fs...)
}

// pExprReps: a dozen expression representatives used inside statements.
func pExprReps() []nodeFn {
	I, S, Id := rt.Int, rt.Str, rt.Id
	return []nodeFn{
		func() *rt.Node { return Id("a") },
		func() *rt.Node { return I(1) },
		func() *rt.Node { return rt.Normalize(rt.Bin("+", Id("a"), rt.Bin("*", Id("b"), I(2)))) },
		func() *rt.Node { return rt.Normalize(rt.Bin("&&", rt.Bin("<", Id("a"), I(2)), rt.Un("!", Id("b")))) },
		func() *rt.Node { return rt.Call("f", Id("a"), rt.Named("k", I(1))) },
		func() *rt.Node { return rt.Index("a", I(0), S("k")) },
		func() *rt.Node { return rt.Slice(Id("a"), I(1), nil, I(2), true) },
		func() *rt.Node { return rt.List(Id("a"), I(2)) },
		func() *rt.Node { return rt.Map(S("k"), Id("a")) },
		func() *rt.Node { return rt.In(Id("a"), Id("b")) },
		func() *rt.Node { return rt.Attr(Id("a"), Id("b")) },
		func() *rt.Node { return S("x y") },
	}
}

// pStatements: every statement form.
func pStatements() Fam {
	I, Id := rt.Int, rt.Id
	reps := pExprReps()
	var fs []func() any
	add := func(f func() *rt.Node) { fs = append(fs, func() any { return rt.Normalize(f()) }) }
	for _, op := range pAsgOps {
		for _, e := range reps {
			op, e := op, e
			add(func() *rt.Node { return rt.Assign(op, Id("x"), e()) })
			add(func() *rt.Node { return rt.Assign(op, rt.Index("x", I(0), rt.Str("k")), e()) })
		}
	}
	for _, e := range reps {
		e := e
		add(func() *rt.Node { return rt.AssignN([]*rt.Node{Id("x"), Id("y")}, []*rt.Node{e(), I(2)}) })
		add(func() *rt.Node {
			return rt.AssignN([]*rt.Node{Id("x"), rt.Index("y", I(0)), Id("z")}, []*rt.Node{I(1), e(), e()})
		})
		add(func() *rt.Node { return e() })
		// if forms
		blk := func() *rt.Node { return rt.Block(rt.Assign("=", Id("x"), I(1)), rt.Call("f", Id("x"))) }
		add(func() *rt.Node { return rt.If(e(), blk()) })
		add(func() *rt.Node { return rt.If(e(), rt.Block()) })
		add(func() *rt.Node { return rt.If(e(), blk(), rt.Block(rt.Call("g"))) })
		add(func() *rt.Node { return rt.If(e(), blk(), rt.Block()) })                  // an empty else block is still an else block
		add(func() *rt.Node { return rt.If(e(), rt.Block(), e(), rt.Block(), rt.Block()) }) // all branches empty
		add(func() *rt.Node { return rt.If(e(), blk(), e(), rt.Block(rt.Call("g"))) })
		add(func() *rt.Node { return rt.If(e(), blk(), e(), rt.Block(), Id("c"), blk(), rt.Block(rt.Call("h"))) })
		add(func() *rt.Node { return rt.If(e(), rt.Block(rt.If(e(), blk(), blk()))) })
		// for-in (a literal number / bool / nil is not iterable and is rejected by the parser)
		if k := e().K; k != rt.KInt && k != rt.KFloat && k != rt.KBool && k != rt.KNil {
			add(func() *rt.Node { return rt.ForIn("v", e(), blk()) })
			add(func() *rt.Node { return rt.ForIn("v", e(), rt.Block()) })
			add(func() *rt.Node {
				return rt.ForIn("v", e(), rt.Block(rt.If(Id("v"), rt.Block(rt.Break()), rt.Block(rt.Continue()))))
			})
		}
		// the 8 three-clause shapes, clauses as expressions and as assignments
		for mask := 0; mask < 8; mask++ {
			mask := mask
			add(func() *rt.Node {
				var in, c, st *rt.Node
				if mask&1 != 0 {
					in = rt.Assign("=", Id("i"), e())
				}
				if mask&2 != 0 {
					c = e()
				}
				if mask&4 != 0 {
					st = rt.Assign("+=", Id("i"), I(1))
				}
				return rt.For(in, c, st, rt.Block(rt.Call("f", Id("i")), rt.Break()))
			})
			add(func() *rt.Node {
				var in, c, st *rt.Node
				if mask&1 != 0 {
					in = e()
				}
				if mask&2 != 0 {
					c = rt.Bin("<", Id("i"), I(3))
				}
				if mask&4 != 0 {
					st = e()
				}
				return rt.For(in, c, st, rt.Block())
			})
		}
	}
	return Leaves(fs...)
}

// parenSlots enumerates the expression positions where a redundant pair of
// parentheses may be added; visit is called with (parent, child index).
func parenSlots(n *rt.Node, visit func(parent *rt.Node, idx int)) {
	if n == nil {
		return
	}
	for i, k := range n.Kids {
		if k == nil {
			continue
		}
		ok := false
		switch n.K {
		case rt.KBin, rt.KIn, rt.KUnary, rt.KList, rt.KMap, rt.KParen, rt.KIndex, rt.KNamed:
			ok = true
		case rt.KCall:
			ok = k.K != rt.KNamed
		case rt.KSlice:
			ok = i >= 1
		case rt.KAssign:
			ok = i >= n.NL
		case rt.KIf:
			ok = k.K != rt.KBlock
		case rt.KFor:
			ok = i < 3 && k.K != rt.KAssign
		case rt.KForIn:
			ok = i == 1
		case rt.KBlock:
			ok = isExprKind(k.K)
		}
		if ok && isExprKind(k.K) {
			visit(n, i)
		}
		parenSlots(k, visit)
	}
}

func isExprKind(k rt.Kind) bool {
	switch k {
	case rt.KAssign, rt.KIf, rt.KFor, rt.KForIn, rt.KBreak, rt.KContinue, rt.KBlock, rt.KNamed:
		return false
	}
	return true
}

func countParenSlots(n *rt.Node) int {
	c := 0
	parenSlots(n, func(*rt.Node, int) { c++ })
	return c
}

// withParens returns a clone of n with the slots whose ordinal is in set wrapped.
func withParens(n *rt.Node, set map[int]bool) *rt.Node {
	c := rt.Clone(n)
	type slot struct {
		p *rt.Node
		i int
	}
	var slots []slot
	parenSlots(c, func(p *rt.Node, i int) { slots = append(slots, slot{p, i}) })
	for ord, s := range slots {
		if set[ord] {
			s.p.Kids[s.i] = rt.Paren(s.p.Kids[s.i])
		}
	}
	return c
}
