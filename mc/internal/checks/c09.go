//go:build verif

package checks

import (
	"strconv"
	"encoding/json"
	"fmt"
	"os"
	"reflect"
	"sort"
	"strings"
	"time"
	"unsafe"

	"github.com/GuanceCloud/platypus/pkg/ast"
	"github.com/GuanceCloud/platypus/pkg/engine"
	plrt "github.com/GuanceCloud/platypus/pkg/engine/runtime"
	"github.com/GuanceCloud/platypus/pkg/errchain"

	"verif/mc/internal/drv"
	"verif/mc/internal/run"
)

// C09 — use() linking accepts exactly the acyclic, fully resolvable script
// sets, under every order in which the loader may visit the set.
// Instrumented build: the two map ranges of pkg/engine iterate an order the
// harness supplies (overlay rewrite, see cmd/mkoverlay).

type c09Case struct {
	Scripts   map[string]string `json:"scripts"`
	ParseOrd  []string          `json:"parse_order"`
	LinkOrd   []string          `json:"link_order"`
	RealOrder bool              `json:"real_map_order,omitempty"`
}

var c09Names = []string{"a", "b", "c", "d"}

// a script variant: kind 0 = valid with the given use targets, 1 = unparsable, 4 = unparsable in two places, 2 = check-failing, 3 = check-failing with a multi-entry error chain,
// 5 / 6 = check-failing after use calls (of a missing name / of a and b)
type c09Var struct {
	Kind int
	Uses []string
	Text string // kind 0 without uses: a source text other than the default (comment-only, blank lines)
}

func c09Variants(maxUses int) []c09Var {
	targets := append(append([]string{}, c09Names...), "missing")
	vs := []c09Var{{Kind: 0}}
	for _, t := range targets {
		vs = append(vs, c09Var{Kind: 0, Uses: []string{t}})
	}
	if maxUses >= 2 {
		for _, t1 := range targets {
			for _, t2 := range targets {
				vs = append(vs, c09Var{Kind: 0, Uses: []string{t1, t2}})
			}
		}
	}
	vs = append(vs, c09Var{Kind: 1}, c09Var{Kind: 2}, c09Var{Kind: 3}, c09Var{Kind: 4}, c09Var{Kind: 5}, c09Var{Kind: 6})
	// valid scripts without a single statement
	vs = append(vs, c09Var{Kind: 0, Text: "# only a comment\n"}, c09Var{Kind: 0, Text: "\n  \n"})
	return vs
}

// source text; uses are put on separate lines after a first probe line so
// that every call site has a distinct position
func (v c09Var) Src() string {
	switch v.Kind {
	case 1:
		return "p(1)\n((("
	case 4:
		// unparsable in two places (the parser records more than one error)
		return "p(1)\n1(2)\n)\nx = = 2\n"
	case 2:
		return "p(1)\n  nosuch()"
	case 5:
		// check-failing AFTER a use call was met (the use of a missing name is never reached by the linker)
		return "p(1)\n use(\"missing\")\n  nosuch()"
	case 6:
		return "p(1)\n use(\"a\")\n use(\"b\")\n  nosuch()"
	case 3:
		// a check error whose own position chain has several entries (and spare capacity)
		return "p(1)\n len(len({1: 2}))"
	}
	if v.Text != "" {
		return v.Text
	}
	s := "p(1)\n"
	for i, u := range v.Uses {
		s += strings.Repeat(" ", i+1) + fmt.Sprintf("use(%q)\n", u)
	}
	return s
}

// useOffset: byte offset of the i-th use call in the source of a valid variant
func (v c09Var) useOffset(i int) int {
	off := len("p(1)\n")
	for j := 0; j < i; j++ {
		off += j + 1 + len(fmt.Sprintf("use(%q)\n", v.Uses[j]))
	}
	return off + i + 1
}

// reference verdict by graph reachability
type c09Ref struct {
	accepted map[string]bool
	// for rejected-by-dependency scripts: the allowed error chains, see c09CheckErr
}

func c09Reference(set map[string]c09Var) map[string]bool {
	acc := map[string]bool{}
	for name, v := range set {
		if v.Kind != 0 {
			acc[name] = false
			continue
		}
		// DFS for reachability problems
		ok := true
		onPath := map[string]bool{}
		var visit func(n string) bool
		memo := map[string]int{} // 1 = ok, 2 = bad
		visit = func(n string) bool {
			sv, exists := set[n]
			if !exists || sv.Kind != 0 {
				return false
			}
			if onPath[n] {
				return false
			}
			if memo[n] == 1 {
				return true
			}
			onPath[n] = true
			defer func() { onPath[n] = false }()
			for _, u := range sv.Uses {
				if !visit(u) {
					return false
				}
			}
			memo[n] = 1
			return true
		}
		ok = visit(name)
		acc[name] = ok
	}
	return acc
}

func permutations(items []string) [][]string {
	if len(items) <= 1 {
		return [][]string{append([]string{}, items...)}
	}
	var out [][]string
	for i := range items {
		rest := append(append([]string{}, items[:i]...), items[i+1:]...)
		for _, p := range permutations(rest) {
			out = append(out, append([]string{items[i]}, p...))
		}
	}
	return out
}

// c09Load runs the real loader under the given visit orders.
func c09Load(srcs map[string]string, parseOrd, linkOrd []string) (ok map[string]*plrt.Script, errs map[string]error) {
	if parseOrd != nil {
		engine.VerifOrder = func(site int, keys []string) []string {
			ord := parseOrd
			if site == 1 {
				ord = linkOrd
			}
			// keep only names present at this site, in the requested order
			present := map[string]bool{}
			for _, k := range keys {
				present[k] = true
			}
			var out []string
			for _, n := range ord {
				if present[n] {
					out = append(out, n)
				}
			}
			return out
		}
		defer func() { engine.VerifOrder = nil }()
	} else {
		engine.VerifOrder = nil
	}
	return drv.Load(srcs)
}

// c09CheckErr validates the error of a script rejected because of a
// dependency. It returns "" if the chain is an allowed one.
func c09CheckErr(name string, set map[string]c09Var, srcs map[string]string, e error) string {
	pe, ok := e.(*errchain.PlError)
	if !ok || pe == nil || len(pe.PosChain) == 0 {
		return fmt.Sprintf("error carries no position chain: %T %v", e, e)
	}
	ch := pe.PosChain
	// every entry must lie inside the source of the file it names
	for i, p := range ch {
		src, exists := srcs[p.File]
		if !exists {
			return fmt.Sprintf("entry %d names unknown script %q", i, p.File)
		}
		if p.Pos < 0 || p.Pos > len(src) || (p.Pos == len(src) && i != 0) {
			return fmt.Sprintf("entry %d: offset %d outside script %q (%d bytes)", i, p.Pos, p.File, len(src))
		}
		ln, col := scanLnCol(src, p.Pos)
		if ln != p.Ln || col != p.Col {
			return fmt.Sprintf("entry %d: offset %d of %q rendered %d:%d, it is %d:%d", i, p.Pos, p.File, p.Ln, p.Col, ln, col)
		}
	}
	if ch[len(ch)-1].File != name {
		return fmt.Sprintf("the chain ends in %q, not in the rejected script %q", ch[len(ch)-1].File, name)
	}
	// useTarget(file, pos): the target of the use call at that offset, if any
	useTarget := func(file string, pos int) (string, bool) {
		v, ok := set[file]
		if !ok || v.Kind != 0 {
			return "", false
		}
		for i, u := range v.Uses {
			if v.useOffset(i) == pos {
				return u, true
			}
		}
		return "", false
	}
	// Allowed forms (outermost entry last):
	//  M: [use of a missing name, call sites outward...]
	//  E: [callee's own load error, call sites outward...]
	//  C: [cycle report: a use site of the rejected script itself, or the cycle-closing call], [the cycle-closing call], call sites outward...
	isRootUse := func(e errchain.Position) bool {
		_, ok := useTarget(e.File, e.Pos)
		return ok && e.File == name
	}
	cur := name
	for i := len(ch) - 1; i >= 0; i-- {
		e := ch[i]
		if i == 0 {
			// root cause
			tgt, isUse := useTarget(e.File, e.Pos)
			switch {
			case isUse && e.File == cur:
				tv, exists := set[tgt]
				if !exists {
					return "" // form M
				}
				if tv.Kind == 0 && c09OnCycleVia(set, e.File, tgt) {
					if tgt == e.File && len(ch) == 1 {
						// pinned form: the report of a script using itself is followed by that call site as the
						// (one-element) chain of call sites, like every other cycle report
						return "single entry for a script that uses itself: the call site does not follow the cycle report"
					}
					return "" // form C with the closing call as root cause
				}
				if len(ch) == 1 {
					return fmt.Sprintf("single entry is the call site of %q, which is neither missing nor closes a cycle", tgt)
				}
				return fmt.Sprintf("first entry is the call site of %q in %q, which is neither missing nor closes a cycle", tgt, e.File)
			case e.File == cur:
				// own load error of cur (form E); own errors lie anywhere in the script
				if sv := set[cur]; sv.Kind == 0 {
					return fmt.Sprintf("first entry lies in the valid script %q but is not one of its call sites", cur)
				}
				return ""
			case isRootUse(e) && len(ch) >= 2:
				// form C: cycle report against the rejected script; entry 1 must be the cycle-closing call
				t1, ok1 := useTarget(ch[1].File, ch[1].Pos)
				if ok1 && c09OnCycleVia(set, ch[1].File, t1) {
					return ""
				}
				return "first entry is a call site of the rejected script but the second entry does not close a cycle"
			}
			return fmt.Sprintf("first entry is in %q, expected the root cause in %q", e.File, cur)
		}
		if e.File != cur {
			// form C: below the closing call the chain jumps to the cycle report
			if i == 0 {
				continue
			}
			return fmt.Sprintf("entry %d is in %q, expected a call site in %q", i, e.File, cur)
		}
		tgt, isUse := useTarget(e.File, e.Pos)
		if !isUse {
			return fmt.Sprintf("entry %d (%s:%d) is not a use call site", i, e.File, e.Pos)
		}
		tv, exists := set[tgt]
		if !exists {
			return fmt.Sprintf("entry %d reports the use of missing script %q but is not the first entry", i, tgt)
		}
		if tv.Kind != 0 {
			// everything before this call site is the callee's own load error (one or more entries, all in the callee)
			for j := 0; j < i; j++ {
				if ch[j].File != tgt {
					return fmt.Sprintf("entry %d is in %q, expected %q's own load error before the call site", j, ch[j].File, tgt)
				}
			}
			return ""
		}
		if tv.Kind == 0 && c09OnCycleVia(set, e.File, tgt) && i == 1 {
			// the cycle-closing call: entry 0 is the cycle report
			e0 := ch[0]
			if (e0.File == e.File && e0.Pos == e.Pos) || (isRootUse(e0) && e0.File != tgt) {
				return ""
			}
			// otherwise the traversal met another root cause below this call first: keep walking
		}
		cur = tgt
	}
	return "the chain names no root cause"
}

// c09OnCycleVia: does the edge from -> to close a cycle (to reaches from)?
func c09OnCycleVia(set map[string]c09Var, from, to string) bool {
	seen := map[string]bool{}
	var reach func(n string) bool
	reach = func(n string) bool {
		if n == from {
			return true
		}
		if seen[n] {
			return false
		}
		seen[n] = true
		v, ok := set[n]
		if !ok || v.Kind != 0 {
			return false
		}
		for _, u := range v.Uses {
			if reach(u) {
				return true
			}
		}
		return false
	}
	return reach(to)
}

func c09CheckSet(w *run.Worker, set map[string]c09Var, allParseOrders bool) {
	var names []string
	srcs := map[string]string{}
	for n, v := range set {
		names = append(names, n)
		srcs[n] = v.Src()
	}
	sort.Strings(names)
	want := c09Reference(set)
	linkOrds := permutations(names)
	parseOrds := [][]string{names}
	if allParseOrders {
		parseOrds = linkOrds
	}
	describe := func() string {
		var b strings.Builder
		for _, n := range names {
			fmt.Fprintf(&b, "--- %s ---\n%s\n", n, srcs[n])
		}
		return b.String()
	}
	var firstVerdict string
	for _, po := range parseOrds {
		for _, lo := range linkOrds {
			ok, errs := c09Load(srcs, po, lo)
			w.Eval()
			cs := c09Case{Scripts: srcs, ParseOrd: po, LinkOrd: lo}
			var vparts []string
			for _, n := range names {
				_, accepted := ok[n]
				_, rejected := errs[n]
				vparts = append(vparts, fmt.Sprintf("%s=%v", n, accepted))
				if lp, isPanic := errs[n].(*drv.LoadPanic); isPanic {
					w.Violate("C09:loader-panics", lp.Msg+"\n"+describe(), cs)
					return
				}
				switch {
				case accepted == rejected:
					w.Violate("C09:script-neither-or-both", fmt.Sprintf("script %s: accepted=%v rejected=%v\n%s", n, accepted, rejected, describe()), cs)
				case accepted != want[n]:
					kind := "valid-set-rejected"
					if accepted {
						kind = "invalid-set-accepted"
					}
					why := ""
					if e, bad := errs[n]; bad {
						why = e.Error()
					}
					w.Violate("C09:"+kind+":"+c09Shape(set, n), fmt.Sprintf("script %s: loader says accepted=%v, reference (graph reachability) says %v; link order %v\n%s\n%s", n, accepted, want[n], lo, why, describe()), cs)
				case accepted:
					// every use call IN THE TREE (found by walking it, not through the loader's own list) is bound to the accepted script of that name
					calls := c09UseCalls(ok[n].Ast)
					if len(calls) != len(set[n].Uses) {
						w.Violate("C09:harness:use-calls-not-found", fmt.Sprintf("script %s has %d use calls, the tree walk found %d\n%s", n, len(set[n].Uses), len(calls), describe()), cs)
					}
					for ci, call := range calls {
						tgt := call.Param[0].StringLiteral().Val
						bound, _ := call.PrivateData.(*plrt.Script)
						if bound == nil || bound != ok[tgt] {
							w.Violate("C09:use-bound-to-wrong-script:"+c09Shape(set, n), fmt.Sprintf("in accepted script %s, use call #%d use(%q) is bound to %p, the accepted script is %p; link order %v\n%s", n, ci, tgt, bound, ok[tgt], lo, describe()), cs)
						}
					}
				default:
					if set[n].Kind != 0 {
						if pe, isPl := errs[n].(*errchain.PlError); !isPl || pe == nil || len(pe.PosChain) == 0 {
							w.Violate("C09:own-error:no-position", fmt.Sprintf("script %s (does not load on its own) is rejected with %T %v\n%s", n, errs[n], errs[n], describe()), cs)
						} else if p0 := pe.PosChain[0]; p0.File != n || p0.Pos < 0 || p0.Pos > len(srcs[n]) {
							w.Violate("C09:own-error:names-another-script", fmt.Sprintf("script %s does not load on its own; its error is reported at %s offset %d (its text has %d bytes)\n%v\n%s", n, p0.File, p0.Pos, len(srcs[n]), errs[n], describe()), cs)
						}
					}
					if set[n].Kind == 0 {
						if msg := c09CheckErr(n, set, srcs, errs[n]); msg != "" {
							w.Violate("C09:error-chain:"+strings.Join(strings.Fields(msg)[:3], "-")+":"+c09Shape(set, n), fmt.Sprintf("script %s rejected with\n%v\n%s; link order %v\n%s", n, errs[n], msg, lo, describe()), cs)
						} else {
							w.Note("error_chains_checked", 1)
						}
					}
				}
			}
			verdict := strings.Join(vparts, ",")
			if firstVerdict == "" {
				// a later load of another deployment (same texts, one leaf script different) must not touch this result
				srcs2 := map[string]string{}
				changed := false
				for _, n2 := range names {
					srcs2[n2] = srcs[n2]
					if !changed && set[n2].Kind == 0 && len(set[n2].Uses) == 0 {
						srcs2[n2] = "p(2)\n"
						changed = true
					}
				}
				// the same set under the same visit orders once more: verdicts AND error texts are a function of
				// (set, orders) — anything else means the loader consults an order the harness does not control
				okR, errsR := c09Load(srcs, po, lo)
				w.Eval()
				for _, n2 := range names {
					_, a1 := ok[n2]
					_, a2 := okR[n2]
					e1, e2 := "", ""
					if e, bad := errs[n2]; bad {
						e1 = e.Error()
					}
					if e, bad := errsR[n2]; bad {
						e2 = e.Error()
					}
					if a1 != a2 || e1 != e2 {
						w.Violate("C09:result-differs-between-identical-loads:"+c09Shape(set, n2), fmt.Sprintf("script %s, two loads of the same set under the same visit orders:\nfirst : accepted=%v %s\nsecond: accepted=%v %s\n%s", n2, a1, e1, a2, e2, describe()), cs)
					}
				}
				ok2, _ := c09Load(srcs2, po, lo)
				w.Eval()
				w.Note("later_load_invariance_checks", 1)
				for _, n2 := range names {
					sc, acc := ok[n2]
					if !acc {
						continue
					}
					for ci, call := range c09UseCalls(sc.Ast) {
						tgt := call.Param[0].StringLiteral().Val
						if bound, _ := call.PrivateData.(*plrt.Script); bound == nil || bound != ok[tgt] {
							which := "nothing / a foreign script"
							if bound != nil && bound == ok2[tgt] {
								which = "the LATER load's script of that name"
							}
							w.Violate("C09:binding-changed-by-a-later-load", fmt.Sprintf("after loading a second set, use call #%d use(%q) of the first load's %s is bound to %s\nfirst set:\n%ssecond set differs in: %v", ci, tgt, n2, which, describe(), srcs2), cs)
						}
					}
				}
				firstVerdict = verdict
				w.Outcome(verdict + "|" + fmt.Sprint(len(names)))
			} else if verdict != firstVerdict {
				w.Violate("C09:verdict-depends-on-visit-order", fmt.Sprintf("verdicts %s under one order and %s under link order %v\n%s", firstVerdict, verdict, lo, describe()), cs)
			}
		}
	}
}

// c09UseCalls collects the use(...) call expressions of a tree in source order
// by reflection over the syntax tree (PrivateData is not followed).
func c09UseCalls(stmts ast.Stmts) []*ast.CallExpr {
	var out []*ast.CallExpr
	seen := map[uintptr]bool{}
	var walk func(v reflect.Value)
	walk = func(v reflect.Value) {
		switch v.Kind() {
		case reflect.Ptr:
			if v.IsNil() || seen[v.Pointer()] {
				return
			}
			seen[v.Pointer()] = true
			if ce, ok := v.Interface().(*ast.CallExpr); ok {
				if ce.Name == "use" {
					out = append(out, ce)
				}
				for _, p := range ce.Param {
					walk(reflect.ValueOf(p))
				}
				return
			}
			walk(v.Elem())
		case reflect.Interface:
			if !v.IsNil() {
				walk(v.Elem())
			}
		case reflect.Struct:
			if !strings.HasSuffix(v.Type().PkgPath(), "platypus/pkg/ast") {
				return
			}
			for i := 0; i < v.NumField(); i++ {
				f := v.Field(i)
				if !f.CanInterface() {
					if !f.CanAddr() {
						continue
					}
					f = reflect.NewAt(f.Type(), unsafe.Pointer(f.UnsafeAddr())).Elem() // unexported field (Node.elem)
				}
				if v.Type().Field(i).Name == "PrivateData" {
					continue
				}
				walk(f)
			}
		case reflect.Slice:
			for i := 0; i < v.Len(); i++ {
				walk(v.Index(i))
			}
		}
	}
	walk(reflect.ValueOf(stmts))
	return out
}

// c09Shape: a coarse class of the dependency situation of script n.
func c09Shape(set map[string]c09Var, n string) string {
	v := set[n]
	if v.Kind != 0 {
		return "own-error"
	}
	double := len(v.Uses) == 2 && v.Uses[0] == v.Uses[1]
	self := false
	for _, u := range v.Uses {
		if u == n {
			self = true
		}
	}
	switch {
	case self:
		return "self-use"
	case double:
		return "double-use"
	}
	return fmt.Sprintf("%d-uses", len(v.Uses))
}

// c09OddNames: script names are arbitrary strings (the loader's callers pass file names): the empty
// name, names holding per-cent signs, blanks, several dots, non-ASCII letters. For every ordered pair
// of such names: a script using a missing one, a valid pair, a two-script cycle, a self-use - verdicts
// by reachability under every link order, accepted calls bound, and the report of a rejected script
// spells the names involved as they are.
func c09OddNames(w *run.Worker) {
	names := []string{"", "%s%d.p", "100%.p", "a b.p", "é.p", "-", "x.y.p", "%v"}
	useSrc := func(t string) string { return "p(1)\n use(" + strconv.Quote(t) + ")\n" }
	for _, x := range names {
		for _, y := range names {
			for shape := 0; shape < 4; shape++ {
				if shape == 3 && x != y {
					continue
				}
				if shape != 3 && x == y {
					continue
				}
				if !w.Take() {
					continue
				}
				var srcs map[string]string
				want := map[string]bool{}
				var mention map[string][]string
				switch shape {
				case 0: // x uses y, y is not in the set
					srcs = map[string]string{x: useSrc(y)}
					want[x] = false
					mention = map[string][]string{x: {y}}
				case 1: // x uses y, y valid
					srcs = map[string]string{x: useSrc(y), y: "p(2)\n"}
					want[x], want[y] = true, true
				case 2: // x uses y, y uses x
					srcs = map[string]string{x: useSrc(y), y: useSrc(x)}
					want[x], want[y] = false, false
					mention = map[string][]string{x: {x, y}, y: {x, y}}
				case 3: // x uses itself
					srcs = map[string]string{x: useSrc(x)}
					want[x] = false
					mention = map[string][]string{x: {x}}
				}
				var ord []string
				for n := range srcs {
					ord = append(ord, n)
				}
				sort.Strings(ord)
				for _, lo := range permutations(ord) {
					w.Eval()
					ok, errs := c09Load(srcs, ord, lo)
					cs := c09Case{Scripts: srcs, ParseOrd: ord, LinkOrd: lo}
					desc := fmt.Sprintf("scripts %q, link order %q", srcs, lo)
					w.Outcome(fmt.Sprintf("odd-names|%d|%v", shape, len(ok)))
					for n, acc := range want {
						_, got := ok[n]
						if got != acc {
							why := ""
							if e := errs[n]; e != nil {
								why = e.Error()
							}
							w.Violate(fmt.Sprintf("C09:odd-names:verdict:shape%d", shape), fmt.Sprintf("script %q: accepted=%v, reference says %v (%s)\n%s", n, got, acc, why, desc), cs)
							continue
						}
						if acc {
							for _, call := range c09UseCalls(ok[n].Ast) {
								tgt := call.Param[0].StringLiteral().Val
								if bound, _ := call.PrivateData.(*plrt.Script); bound == nil || bound != ok[tgt] {
									w.Violate("C09:odd-names:use-bound-to-wrong-script", fmt.Sprintf("in %q, use(%q) is bound to %p, the accepted script is %p\n%s", n, tgt, bound, ok[tgt], desc), cs)
								}
							}
							continue
						}
						e := errs[n]
						if e == nil {
							w.Violate("C09:odd-names:rejected-without-error", fmt.Sprintf("script %q\n%s", n, desc), cs)
							continue
						}
						for _, m := range mention[n] {
							if m != "" && !strings.Contains(e.Error(), m) {
								w.Violate("C09:odd-names:report-does-not-spell-the-name", fmt.Sprintf("the report for %q does not contain the name %q as it is: %q\n%s", n, m, e.Error(), desc), cs)
							}
						}
						if strings.Contains(e.Error(), "%!") {
							w.Violate("C09:odd-names:report-garbled", fmt.Sprintf("the report for %q went through a formatter as a format: %q\n%s", n, e.Error(), desc), cs)
						}
					}
				}
			}
		}
	}
}

func c09Run(w *run.Worker) {
	c09OddNames(w)
	if raw, err := os.ReadFile(run.VerifDir + "/.cache/overlay/status.json"); err == nil {
		var st struct {
			Missing []string `json:"missing"`
		}
		_ = json.Unmarshal(raw, &st)
		for _, m := range st.Missing {
			w.Cap("overlay rewrite not applicable: " + m + " (visit orders not controlled there)")
		}
	}
	full := c09Variants(2)
	small := c09Variants(1)
	enum := func(n int, vars []c09Var, allParse bool) {
		idx := make([]int, n)
		for {
			if w.Take() {
				if w.Expired() {
					return
				}
				set := map[string]c09Var{}
				for i := 0; i < n; i++ {
					set[c09Names[i]] = vars[idx[i]]
				}
				c09CheckSet(w, set, allParse)
				if w.WantSample() && n == 3 && w.Index()%1201 == 0 {
					srcs := map[string]string{}
					for k, v := range set {
						srcs[k] = v.Src()
					}
					w.Sample(map[string]any{"scripts": srcs, "visit_orders": "all 6 parse orders x all 6 link orders", "reference_verdict": c09Reference(set)})
				}
			}
			j := n - 1
			for ; j >= 0; j-- {
				idx[j]++
				if idx[j] < len(vars) {
					break
				}
				idx[j] = 0
			}
			if j < 0 {
				break
			}
		}
	}
	enum(1, full, true)
	enum(2, full, true)
	enum(3, full, true)
	if w.Thorough {
		enum(4, full, false)
	} else {
		enum(4, small, false)
		// all 4-script sets of VALID scripts with <=2 uses of distinct existing targets (diamonds, long chains, cycles of every length)
		var validOnly []c09Var
		for _, v := range full {
			ok := v.Kind == 0
			for _, u := range v.Uses {
				if u == "missing" {
					ok = false
				}
			}
			if ok && !(len(v.Uses) == 2 && v.Uses[0] == v.Uses[1]) {
				validOnly = append(validOnly, v)
			}
		}
		enum(4, validOnly, false)
	}
	// conformance of the seam: the loader with Go's own map order gives the same verdicts
	idx3 := 0
	vars := full
	for i := 0; i < len(vars); i++ {
		for j := 0; j < len(vars); j++ {
			for k := 0; k < len(vars); k += 3 {
				idx3++
				if !w.Take() {
					continue
				}
				set := map[string]c09Var{"a": vars[i], "b": vars[j], "c": vars[k]}
				srcs := map[string]string{}
				for n, v := range set {
					srcs[n] = v.Src()
				}
				want := c09Reference(set)
				for rep := 0; rep < 8; rep++ {
					ok, _ := c09Load(srcs, nil, nil)
					w.Eval()
					for n := range set {
						if _, acc := ok[n]; acc != want[n] {
							w.Violate("C09:real-map-order:verdict-differs:"+c09Shape(set, n), fmt.Sprintf("unmodified map order: script %s accepted=%v, reference %v\n%v", n, acc, want[n], srcs), c09Case{Scripts: srcs, RealOrder: true})
						}
					}
				}
				w.Note("real_map_order_sets", 1)
			}
		}
	}
}

func c09Replay(raw json.RawMessage) (bool, string) {
	var c c09Case
	if err := json.Unmarshal(raw, &c); err != nil {
		return false, err.Error()
	}
	ok, errs := c09Load(c.Scripts, c.ParseOrd, c.LinkOrd)
	var b strings.Builder
	var names []string
	for n := range c.Scripts {
		names = append(names, n)
	}
	sort.Strings(names)
	for _, n := range names {
		_, acc := ok[n]
		fmt.Fprintf(&b, "%s: accepted=%v", n, acc)
		if e, bad := errs[n]; bad {
			fmt.Fprintf(&b, " error=%q", e.Error())
		}
		b.WriteString("\n")
	}
	return true, "verdicts under parse order " + fmt.Sprint(c.ParseOrd) + " link order " + fmt.Sprint(c.LinkOrd) + ":\n" + b.String() + "(compare with the reference by re-running the check)"
}

func init() {
	run.Register(&run.Check{
		ID:    "C09",
		Level: "model_checking",
		Rule: "script sets over names {a,b,c,d}: each script is valid with an ordered list of <=2 use targets in {a,b,c,d,missing} (31 variants), valid without any statement (comment-only, blank lines), unparsable, check-failing, check-failing with a multi-entry error chain, or check-failing after use calls (of a missing name / of a and b); ALL sets of 1..3 scripts (39+39^2+39^3) under ALL parse/check orders x ALL link orders of the loader's two map iterations (overlay rewrite of the range statements), " +
			"4-script sets with <=1 use each and all 4-sets of valid scripts with <=2 distinct existing targets (quick) / all 39^4 (thorough) under all 24 link orders; every (set, order) is a fresh ParseScript, and each set is loaded a second time under the same orders (same verdicts, same error texts); oracle: verdict map == graph-reachability reference (hence equal across orders), every use call of an accepted script bound to the accepted script of that name, " +
			"a dependency-rejected script's position chain = root cause (callee's own error, use of a missing name, or cycle-closing call) followed by the use call sites outward, every entry inside the file it names; plus the unmodified map order 8x on a third of the 3-script sets (conformance of the seam)",
		Assumptions:    []string{"the loader's only nondeterminism is the iteration order of its two script maps (checked by grep: pkg/engine has no other map range, goroutine or clock)"},
		Run:            c09Run,
		Replay:         c09Replay,
		QuickBudget:    5 * time.Minute,
		ThoroughBudget: 40 * time.Minute,
	})
}
