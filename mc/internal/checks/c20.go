package checks

import (
	"bytes"
	"encoding/json"
	"fmt"
	"math"
	"os"
	"os/exec"
	"path/filepath"
	"sort"
	"strings"
	"time"

	"github.com/GuanceCloud/platypus/pkg/inimpl/guancecloud/input"
	"github.com/influxdata/influxdb1-client/models"

	"verif/mc/internal/drv"
	"verif/mc/internal/run"
)

// C20 — the command-line runner reports the point exactly as the script left it.

type c20Case struct {
	Script    string `json:"script"`
	Input     string `json:"input"`
	InputType string `json:"input_type"`
	Mode      string `json:"mode"`   // workspace | file
	Output    string `json:"output"` // json | lineprotocol
	CheckOnly bool   `json:"check_only"`
	WsForm    int    `json:"workspace_spelling,omitempty"` // workspace mode: 0 = -w <dir>, 1 = -w <dir>/, 2 = -w . (started in the directory), 3 = no -w at all (started in the directory)
}

const c20Marker = "Platypus Output Data:"

var c20Stmts = []string{
	`add_key(k1, 5)`,
	`add_key(k1, "s")`,
	`add_key(kf, 2.5)`,
	`set_tag(t9, "tv")`,
	`set_tag(message)`,
	`drop_key(message)`,
	`rename(nk, f1)`,
	`set_measurement("newm")`,
	`set_measurement(f1s, true)`,
	`default_time(ts)`,
	`default_time(ts, "+8")`,
	`use("sib.p")`,
	`exit()`,
	`x = 1 / zz`,
	`nosuch()`,
	`cast(f1, "str")`,
	"add_key(ml, '''a\r\nb''')", // a multi-line literal spanning a CRLF line break
	`add_key(time, 42)`,                  // a key named like the point's own time
	`set_tag(host, "h") ; add_key(source, "s")`,
	`add_key(js, [1, "two", {"k": null}])`, // a field whose text is itself JSON
	`use('sib.p')`,                           // the other quote style
	`add_key(pct, "100%d of 5%% %s")`,        // per-cent signs: output is data, never a format
	`use("onlyhere.p")`,                      // exists only in a directory below the workspace: not part of it
	`set_measurement("")`,                    // a script may leave the measurement empty
	`use("nginx.access.p")`,                  // a script file whose name has several dots
	`use(".base.v1.2.ppl")`,                  // ... and starts with one
	`add_key(nilf, nil)`,                     // keys without a value are part of the point
	`set_tag(emptyt, "")`,
	`use("usesbroken.p")`,                    // a sibling that loads only if ITS sibling does (it does not)
	`use("cyc1.p")`,                          // a sibling on a use() cycle
	`use("usesmissing.p")`,                   // a sibling using a script that does not exist
}

// the sibling is a CRLF file with a multi-line literal across a line break
var c20Sib = "add_key(from_sib, 1)\r\nadd_key(sib_ml, \"\"\"x\r\ny\"\"\")\r\nset_measurement(\"sibm\")\r\n"

const (
	c20Other    = "add_key(from_other, 1)\n"
	c20MainPPL  = "add_key(from_the_ppl_namesake, 1)\n" // same stem as the selected script, other extension: never a stand-in
	c20Broken   = "x = ((( this script does not parse\n"
	c20BadCheck = "add_key(k, 1)\nno_such_function(1)\n"
	c20Dotted   = "add_key(from_dotted, 1)\n"
	c20DotBase  = "add_key(from_dot_base, 1)\nset_measurement(f1s, true)\n"
)

// siblings that exist and parse, but do not link
var c20Unlinkable = map[string]string{"usesbroken.p": "add_key(a, 1)\nuse(\"badcheck.ppl\")\n", "cyc1.p": "use(\"cyc2.p\")\n", "cyc2.p": "add_key(c, 2)\nuse(\"cyc1.p\")\n", "usesmissing.p": "use(\"not_there.p\")\n"}


// c20Layout writes the workspace: the selected script, a sibling reached
// through use() that is a SYMBOLIC LINK to a file kept elsewhere (shared
// scripts, ConfigMap-style mounts), another valid script, two scripts that do
// not load and are neither selected nor used, a non-script file and a
// directory named like a script.
func c20Layout(dir, mainSrc string) {
	for n, s := range map[string]string{"main.p": mainSrc, "main.ppl": c20MainPPL, "other.ppl": c20Other, "broken.p": c20Broken, "badcheck.ppl": c20BadCheck, "notes.txt": "this is not a script (((",
		"nginx.access.p": c20Dotted, ".base.v1.2.ppl": c20DotBase} {
		_ = os.WriteFile(filepath.Join(dir, n), []byte(s), 0o644)
	}
	for n, src := range c20Unlinkable {
		_ = os.WriteFile(filepath.Join(dir, n), []byte(src), 0o644)
	}
	_ = os.Mkdir(filepath.Join(dir, "sub.p"), 0o755)
	// directories below the workspace are not part of it: namesakes of the selected script and of the
	// sibling, and a script that exists only there
	_ = os.Mkdir(filepath.Join(dir, "old"), 0o755)
	for n, s := range map[string]string{"main.p": "add_key(from_old_dir, 1)\n", "sib.p": "add_key(sib_from_old_dir, 1)\n", "onlyhere.p": "add_key(only_here, 1)\n", "zz.p": c20Broken} {
		_ = os.WriteFile(filepath.Join(dir, "old", n), []byte(s), 0o644)
		_ = os.WriteFile(filepath.Join(dir, "sub.p", n), []byte(s), 0o644)
	}
	_ = os.Mkdir(filepath.Join(dir, "store"), 0o755)
	_ = os.WriteFile(filepath.Join(dir, "store", "sib_source.txt"), []byte(c20Sib), 0o644)
	if err := os.Symlink(filepath.Join("store", "sib_source.txt"), filepath.Join(dir, "sib.p")); err != nil {
		_ = os.WriteFile(filepath.Join(dir, "sib.p"), []byte(c20Sib), 0o644)
	}
}

type c20Input struct {
	Name, Type, Data string
}

func c20Inputs() []c20Input {
	return []c20Input{
		{"text", "text", "hello world 42"},
		{"lp-tags", "lineprotocol", "cpu,host=a,region=b f1=3i,f1s=\"mname\",ts=\"2021-01-02 03:04:05\",usage=1.5,ok=true 1600000000000000000\n"},
		{"lp-notags", "lineprotocol", "mem f1=7i,f1s=\"m2\",message=\"from lp\",ts=\"2021-01-02 03:04:05\" 1600000000123456789\n"},
		{"lp-notime", "lineprotocol", "disk,t=x f1=1i,f1s=\"m3\",ts=\"nonsense\"\n"},
		{"lp-two-points", "lineprotocol", "first f1=1i,f1s=\"a\" 1600000000000000000\nsecond f1=2i 1600000001000000000\n"},
		{"lp-leading-comment", "lineprotocol", "# a comment line\n\nlate,host=h f1=4i,f1s=\"m4\",ts=\"2021-01-02 03:04:05\" 1600000002000000000\n"},
		{"lp-small-timestamp", "lineprotocol", "tiny,host=h f1=6i,f1s=\"m6\",ts=\"2021-01-02 03:04:05\" 1600000000\n"},
		{"text-json-line", "text", "{\"level\": \"info\", \"n\": [1, 2]}"},
		{"text-empty", "text", ""},
		{"text-blank", "text", "  \t\r\n"},
		{"text-multiline", "text", "first line\nsecond line\n"},
		{"lp-newline-in-string", "lineprotocol", "multi f1=5i,f1s=\"m5\",message=\"line one\nline two\" 1600000003000000000\n"},
		// a leading byte-order mark is data like any other character; per-cent signs in every part of a point
		{"text-bom-percent", "text", "\ufeff95% done, 5%d left"},
		// escaped characters in every part of the key: the measurement reads cpu=load,x "y", the tag ho st = a,b=c
		{"lp-escaped-key", "lineprotocol", "cpu\\=load\\,x\\ \\\"y\\\",ho\\ st=a\\,b\\=c,t2=v f1=8i,f1s=\"m8\",ts=\"2021-01-02 03:04:05\" 1600000005000000000\n"},
		// one name as a tag and as a field
		{"lp-tag-and-field", "lineprotocol", "dup,status=ok,host=h status=200i,f1=9i,f1s=\"m9\",ts=\"2021-01-02 03:04:05\" 1600000006000000000\n"},
		{"lp-bom-percent", "lineprotocol", "\ufeffc%pu,ho%st=a%20b f1=3i,f1s=\"50%s\",p%c=\"100%\" 1600000004000000000\n"},
	}
}

type c20Point struct {
	Meas   string
	Tags   map[string]string
	Fields map[string]any
	TimeNs int64
	Clock  bool // time comes from the wall clock
}

// c20Expected runs script+input through the library API.
func c20Expected(scripts map[string]string, main string, in c20Input) (pt *c20Point, loadErr, runErr error) {
	ok, errs := drv.Load(scripts)
	if e, bad := errs[main]; bad {
		return nil, e, nil
	}
	sc, found := ok[main]
	if !found {
		return nil, fmt.Errorf("script %s not found", main), nil
	}
	p := &input.Point{}
	exp := &c20Point{}
	switch in.Type {
	case "text":
		input.InitPt(p, "default_name", nil, map[string]any{"message": in.Data}, time.Unix(0, 0))
		exp.Clock = true
	default:
		pts, err := models.ParsePointsWithPrecision([]byte(in.Data), time.Unix(0, 0), "")
		if err != nil || len(pts) == 0 {
			return nil, nil, fmt.Errorf("bad line protocol")
		}
		f, _ := pts[0].Fields()
		tags := map[string]string{}
		for _, t := range pts[0].Tags() {
			tags[string(t.Key)] = string(t.Value)
		}
		exp.Clock = pts[0].Time().Unix() == 0 // no timestamp in the input: the runner supplies the wall clock
		input.InitPt(p, string(pts[0].Name()), tags, map[string]any(f), pts[0].Time())
	}
	t0 := p.Time
	res := drv.Run(sc, p, nil)
	if res.Panic != "" {
		return nil, nil, fmt.Errorf("panic: %s", res.Panic)
	}
	if res.Err != nil {
		return nil, nil, res.Err
	}
	exp.Meas, exp.Tags, exp.Fields, exp.TimeNs = p.Measurement, p.Tags, p.Fields, p.Time.UnixNano()
	if !p.Time.Equal(t0) {
		exp.Clock = false
	}
	return exp, nil, nil
}

type c20Result struct {
	Stdout   string
	ExitCode int
	Start    time.Time
	End      time.Time
}

func c20Invoke(bin, dir string, c c20Case) (c20Result, error) {
	args := []string{"run", "-s", "main.p"}
	if c.Mode == "workspace" {
		switch c.WsForm {
		case 1:
			args = append(args, "-w", dir+string(filepath.Separator))
		case 2:
			args = append(args, "-w", ".")
		case 3:
			// the default of the flag is the directory the runner was started in
		default:
			args = append(args, "-w", dir)
		}
	} else {
		args = append(args, "-w", "")
	}
	if !c.CheckOnly {
		args = append(args, "-i", filepath.Join(dir, "input.dat"), "-t", c.InputType)
	}
	args = append(args, "--output-type", c.Output)
	cmd := exec.Command(bin, args...)
	cmd.Dir = dir
	cmd.Env = append(os.Environ(), "TZ=UTC")
	var out bytes.Buffer
	cmd.Stdout = &out
	cmd.Stderr = &out
	r := c20Result{Start: time.Now()}
	err := cmd.Run()
	r.End = time.Now()
	r.Stdout = out.String()
	if ee, ok := err.(*exec.ExitError); ok {
		r.ExitCode = ee.ExitCode()
		err = nil
	}
	return r, err
}

// c20Parse extracts the printed point.
func c20Parse(out, format string) (pt *c20Point, hasBlock bool, errLine string, perr error) {
	for _, l := range strings.Split(out, "\n") {
		if strings.Contains(l, "\tERROR\t") {
			errLine = l
		}
	}
	i := strings.Index(out, c20Marker)
	if i < 0 {
		return nil, false, errLine, nil
	}
	body := out[i+len(c20Marker):]
	pt = &c20Point{Tags: map[string]string{}, Fields: map[string]any{}}
	switch format {
	case "json":
		var m struct {
			Fields      map[string]any    `json:"fields"`
			Measurement string            `json:"measurement"`
			Tags        map[string]string `json:"tags"`
			Time        time.Time         `json:"time"`
		}
		dec := json.NewDecoder(strings.NewReader(body))
		if err := dec.Decode(&m); err != nil {
			return nil, true, errLine, fmt.Errorf("output block is not JSON: %v", err)
		}
		pt.Meas, pt.TimeNs = m.Measurement, m.Time.UnixNano()
		if m.Tags != nil {
			pt.Tags = m.Tags
		}
		if m.Fields != nil {
			pt.Fields = m.Fields
		}
	default:
		line := strings.TrimSpace(body) // one point; a string field may contain newlines
		pts, err := models.ParsePointsString(line)
		if err != nil || len(pts) != 1 {
			return nil, true, errLine, fmt.Errorf("output block is not one line-protocol point: %q (%v)", line, err)
		}
		pt.Meas, pt.TimeNs = string(pts[0].Name()), pts[0].Time().UnixNano()
		for _, t := range pts[0].Tags() {
			pt.Tags[string(t.Key)] = string(t.Value)
		}
		f, _ := pts[0].Fields()
		pt.Fields = f
	}
	return pt, true, errLine, nil
}

func c20FieldEq(want, got any, format string) bool {
	if format == "json" {
		// numbers compare numerically
		wf, wok := toFloat(want)
		gf, gok := toFloat(got)
		if wok || gok {
			return wok && gok && (wf == gf || math.Abs(wf-gf) < 1e-9*math.Abs(wf))
		}
		return fmt.Sprint(want) == fmt.Sprint(got) && (want == nil) == (got == nil)
	}
	return drv.Canon(want) == drv.Canon(got)
}

func toFloat(v any) (float64, bool) {
	switch x := v.(type) {
	case int64:
		return float64(x), true
	case float64:
		return x, true
	case int:
		return float64(x), true
	}
	return 0, false
}

func c20Compare(exp, got *c20Point, format string, r c20Result) string {
	if exp.Meas != got.Meas {
		return fmt.Sprintf("measurement: printed %q, the script left %q", got.Meas, exp.Meas)
	}
	var diffs []string
	for k, v := range exp.Tags {
		if v == "" && format != "json" {
			continue // an empty tag value has no line-protocol form
		}
		if g, ok := got.Tags[k]; !ok || g != v {
			diffs = append(diffs, fmt.Sprintf("tag %s: printed %q (present=%v), the script left %q", k, g, ok, v))
		}
	}
	for k := range got.Tags {
		if _, ok := exp.Tags[k]; !ok {
			diffs = append(diffs, fmt.Sprintf("tag %s printed but not in the point", k))
		}
	}
	for k, v := range exp.Fields {
		g, ok := got.Fields[k]
		if v == nil && format != "json" {
			continue // nil fields have no line-protocol form
		}
		if !ok || !c20FieldEq(v, g, format) {
			diffs = append(diffs, fmt.Sprintf("field %s: printed %v (present=%v), the script left %s", k, g, ok, drv.Canon(v)))
		}
	}
	for k := range got.Fields {
		if _, ok := exp.Fields[k]; !ok {
			diffs = append(diffs, fmt.Sprintf("field %s printed but not in the point", k))
		}
	}
	if len(diffs) > 0 {
		sort.Strings(diffs)
		return strings.Join(diffs, "; ")
	}
	if exp.Clock {
		lo, hi := r.Start.Add(-2*time.Second).UnixNano(), r.End.Add(2*time.Second).UnixNano()
		if got.TimeNs < lo || got.TimeNs > hi {
			return fmt.Sprintf("time: printed %d, expected the wall clock of the invocation", got.TimeNs)
		}
	} else if got.TimeNs != exp.TimeNs {
		return fmt.Sprintf("time: printed %d (%s), the script left %d (%s)", got.TimeNs, time.Unix(0, got.TimeNs).UTC(), exp.TimeNs, time.Unix(0, exp.TimeNs).UTC())
	}
	return ""
}

func c20One(w *run.Worker, bin string, c c20Case, in c20Input) {
	dir := filepath.Join(run.VerifDir, ".cache", "tmp", fmt.Sprintf("c20-[v2]*?-%d-%d", os.Getpid(), w.Index()))
	_ = os.MkdirAll(dir, 0o755)
	defer os.RemoveAll(dir)
	c20Layout(dir, c.Script)
	_ = os.WriteFile(filepath.Join(dir, "input.dat"), []byte(c.Input), 0o644)
	scripts := map[string]string{"main.p": c.Script}
	if c.Mode == "workspace" {
		scripts["sib.p"] = c20Sib
		scripts["other.ppl"] = c20Other
		scripts["main.ppl"] = c20MainPPL
		scripts["broken.p"] = c20Broken
		scripts["badcheck.ppl"] = c20BadCheck
		scripts["nginx.access.p"] = c20Dotted
		scripts[".base.v1.2.ppl"] = c20DotBase
		for n, src := range c20Unlinkable {
			scripts[n] = src
		}
	}
	exp, loadErr, runErr := c20Expected(scripts, "main.p", in)
	r, err := c20Invoke(bin, dir, c)
	w.Eval()
	if err != nil {
		w.Violate("C20:cannot-run-binary", err.Error(), c)
		return
	}
	got, hasBlock, errLine, perr := c20Parse(r.Stdout, c.Output)
	w.Outcome(fmt.Sprintf("%v|%v|%v|%v|%s", loadErr != nil, runErr != nil, hasBlock, errLine != "", c.Output))
	if os.Getenv("VERIF_DEBUG") != "" {
		fmt.Fprintf(os.Stderr, "DEBUG script=%q in=%s cfg=%s/%s/%v loadErr=%v runErr=%v hasBlock=%v errLine=%q\n", c.Script, in.Name, c.Mode, c.Output, c.CheckOnly, loadErr, runErr, hasBlock, errLine)
	}
	desc := fmt.Sprintf("mode=%s input=%s output=%s check_only=%v\n--- main.p ---\n%s\n--- stdout ---\n%s", c.Mode, in.Name, c.Output, c.CheckOnly, c.Script, r.Stdout)
	cfg := c.Mode + ":" + c.Output
	switch {
	case r.ExitCode != 0 && !strings.Contains(r.Stdout, "panic"):
		// a non-zero exit is how cobra reports usage errors; none is expected here
		w.Violate("C20:unexpected-exit-code", fmt.Sprintf("exit code %d\n%s", r.ExitCode, desc), c)
	case strings.Contains(r.Stdout, "panic:") || strings.Contains(r.Stdout, "goroutine 1 ["):
		w.Violate("C20:cli-panics", desc, c)
	case loadErr != nil:
		if errLine == "" || hasBlock {
			w.Violate("C20:load-error-not-reported", fmt.Sprintf("library: load error %v\n%s", loadErr, desc), c)
		}
	case c.CheckOnly:
		if hasBlock || errLine != "" {
			w.Violate("C20:check-only-produces-output", desc, c)
		}
	case runErr != nil:
		if errLine == "" || hasBlock {
			w.Violate("C20:run-error-not-reported", fmt.Sprintf("library: run error %v\n%s", runErr, desc), c)
		}
	case !hasBlock:
		hasNil := false
		for _, v := range exp.Fields {
			if v == nil {
				hasNil = true
			}
		}
		if c.Output == "lineprotocol" && (hasNil || len(exp.Fields) == 0) {
			w.Note("unspecified_cells_skipped", 1) // a point without (non-nil) fields has no line-protocol form
			return
		}
		w.Violate("C20:no-output:"+cfg, fmt.Sprintf("library: success, measurement %q\n%s", exp.Meas, desc), c)
	case perr != nil:
		for _, v := range exp.Fields {
			if c.Output == "lineprotocol" && v == nil {
				w.Note("unspecified_cells_skipped", 1) // a nil field has no line-protocol form
				return
			}
		}
		if c.Output == "lineprotocol" && exp.Meas == "" {
			w.Note("unspecified_cells_skipped", 1) // a point without measurement has no line-protocol form that reads back
			return
		}
		for _, tv := range exp.Tags {
			if c.Output == "lineprotocol" && strings.Contains(tv, "\n") {
				w.Note("unspecified_cells_skipped", 1) // a tag value with a newline has no line-protocol form
				return
			}
		}
		w.Violate("C20:unparsable-output:"+cfg, perr.Error()+"\n"+desc, c)
	default:
		if msg := c20Compare(exp, got, c.Output, r); msg != "" {
			w.Violate("C20:"+strings.SplitN(msg, ":", 2)[0]+"-differs:"+cfg, msg+"\n"+desc, c)
		} else if w.WantSample() && w.Index()%37 == 0 {
			w.Sample(map[string]any{"script": c.Script, "input": in.Name, "mode": c.Mode, "output": c.Output, "printed_measurement": got.Meas, "printed_fields": got.Fields})
		}
	}
}

func c20Run(w *run.Worker) {
	bin := filepath.Join(run.VerifDir, ".cache", "bin", "platypus")
	if _, err := os.Stat(bin); err != nil {
		w.Violate("C20:cli-binary-missing", "the CLI binary was not built: "+err.Error(), c20Case{})
		return
	}
	inputs := c20Inputs()
	type cfg struct {
		mode, out string
		checkOnly bool
	}
	cfgs := []cfg{{"workspace", "json", false}, {"workspace", "lineprotocol", false}, {"file", "json", false}, {"file", "lineprotocol", false}, {"workspace", "json", true}, {"file", "json", true}}
	maxLen := 2
	if w.Thorough {
		maxLen = 3
	}
	n := len(c20Stmts)
	counter := 0
	var rec func(cur []int)
	rec = func(cur []int) {
		if len(cur) > 0 {
			var lines []string
			for _, i := range cur {
				lines = append(lines, c20Stmts[i])
			}
			script := strings.Join(lines, "\n") + "\n"
			counter++
			for ii, in := range inputs {
				for ci, cf := range cfgs {
					// quick tier: every script with a rotating subset of (input, config); thorough: all combinations for <=2 statements
					if !w.Thorough || len(cur) == 3 {
						mod := 41
						if len(cur) == 1 {
							mod = 5
						}
						if len(cur) == 3 {
							mod = 37
						}
						if (counter*31+ii*6+ci)%mod != 0 {
							continue
						}
					}
					if !w.Take() {
						continue
					}
					if w.Expired() {
						return
					}
					wsForm := 0
					if cf.mode == "workspace" {
						wsForm = (counter + ii) % 4
					}
					c20One(w, bin, c20Case{Script: script, Input: in.Data, InputType: in.Type, Mode: cf.mode, Output: cf.out, CheckOnly: cf.checkOnly, WsForm: wsForm}, in)
				}
			}
		}
		if len(cur) == maxLen {
			return
		}
		for i := 0; i < n; i++ {
			rec(append(cur, i))
		}
	}
	rec(nil)
}

func c20Replay(raw json.RawMessage) (bool, string) {
	var c c20Case
	if err := json.Unmarshal(raw, &c); err != nil {
		return false, err.Error()
	}
	bin := filepath.Join(run.VerifDir, ".cache", "bin", "platypus")
	dir := filepath.Join(run.VerifDir, ".cache", "tmp", fmt.Sprintf("c20-[v2]*?-replay-%d", os.Getpid()))
	_ = os.MkdirAll(dir, 0o755)
	defer os.RemoveAll(dir)
	c20Layout(dir, c.Script)
	_ = os.WriteFile(filepath.Join(dir, "input.dat"), []byte(c.Input), 0o644)
	in := c20Input{Type: c.InputType, Data: c.Input}
	scripts := map[string]string{"main.p": c.Script}
	if c.Mode == "workspace" {
		scripts["sib.p"], scripts["other.ppl"], scripts["broken.p"], scripts["badcheck.ppl"], scripts["main.ppl"] = c20Sib, c20Other, c20Broken, c20BadCheck, c20MainPPL
	}
	exp, loadErr, runErr := c20Expected(scripts, "main.p", in)
	r, err := c20Invoke(bin, dir, c)
	if err != nil {
		return false, err.Error()
	}
	got, hasBlock, errLine, perr := c20Parse(r.Stdout, c.Output)
	out := fmt.Sprintf("library: loadErr=%v runErr=%v\nstdout:\n%s", loadErr, runErr, r.Stdout)
	if loadErr != nil || runErr != nil {
		return errLine == "" || hasBlock, out
	}
	if c.CheckOnly {
		return hasBlock, out
	}
	if !hasBlock || perr != nil {
		return true, out
	}
	msg := c20Compare(exp, got, c.Output, r)
	return msg != "", msg + "\n" + out
}

func init() {
	run.Register(&run.Check{
		ID:    "C20",
		Level: "model_checking",
		Rule: "every script of <=2 (thorough <=3) statements over 31 statements (keys without a value, use() of siblings that exist but do not link, set_measurement with the empty string, use() of script files with several dots in their names, add_key with int/str/float, set_tag, drop_key, rename, set_measurement literal and from a key with delete, default_time with and without zone, use of a sibling, exit, a run-time error, a load error, cast) " +
			"x 12 inputs (text, a JSON log line, empty text, blank text, multi-line text; line protocol with a small explicit timestamp, line protocol with tags, without tags, without timestamp, with two points, with leading comment and blank lines, with a newline inside a string field) x {workspace directory with a symlinked .p sibling, a .ppl sibling, two scripts that do not load (neither selected nor used), a non-script file and a directory named like a script; single file} x {json, lineprotocol} x {run, check only}, through the real binary " +
			"workspace given as -w <dir>, -w <dir>/, -w . and by default (started inside it), in rotation; (quick: every one-statement script with a rotating 1/5, every two-statement script with a rotating 1/41 of the input x configuration grid; thorough: the full grid for <=2 statements, 1/37 of it for 3 statements); oracle: stdout after the marker parsed back and compared with the same script and input run through the library API (measurement, tags, fields, time), errors reported and no output block, check-only prints nothing",
		Assumptions: []string{"the influx line-protocol codec is trusted for parsing input and output", "text input: measurement default_name is pinned; time without an explicit timestamp is accepted within the invocation's wall-clock bracket +-2 s"},
		Run:            c20Run,
		Replay:         c20Replay,
		QuickBudget:    5 * time.Minute,
		ThoroughBudget: 60 * time.Minute,
		Workers:        16,
	})
}
