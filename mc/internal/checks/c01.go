package checks

import (
	"encoding/json"
	"fmt"
	"math"
	"sort"
	"strings"
	"time"

	"verif/mc/internal/drv"
	"verif/mc/internal/rt"
	"verif/mc/internal/run"
)

// C01 — running a loaded script never crashes the host process.

type c01Case struct {
	Source string `json:"source"`
	Point  int    `json:"point"`
}

func c01Prelude() []*rt.Node {
	I, S, Id := rt.Int, rt.Str, rt.Id
	as := func(n string, v *rt.Node) *rt.Node { return rt.Assign("=", Id(n), v) }
	return []*rt.Node{
		as("i", I(1)), as("z", I(0)), as("big", I(math.MaxInt64)),
		as("small", rt.Bin("-", rt.Un("-", Id("big")), I(1))),
		as("f", rt.Float(1.5)), as("s", S("abc")), as("u", S("é")),
		as("bad", S("caf\xe9")), as("cut", S("x\xe6\x97")), // invalid UTF-8: Latin-1 text, a truncated multi-byte character
		as("l", rt.List(I(1), S("a"), rt.List(I(2)))), as("m", rt.Map(S("k"), I(1))),
		as("n", rt.Nil()), as("b", rt.Bool(true)),
	}
}

func c01Points() []PointSpec {
	return []PointSpec{
		{Meas: "m"},
		{Meas: "m", Tags: map[string]string{"t1": "tv", "t2": "second tag", "t3": ""}, Fields: map[string]any{"message": "hello 123", "fi": int64(7), "ff": 1.5, "fs": "str", "fb": true, "fx": "caf\xe9",
			// values of Go types a host may hand over: typed and untyped collections, small numeric types
			"fsl": []string{"a", "b"}, "fms": map[string]string{"k": "v"}, "fby": []byte("ab"), "far": [2]int{1, 2}, "fl": []any{int64(1), "a"}, "fm": map[string]any{"k": int64(1)},
			"fu8": uint8(200), "ff32": float32(1.5), "fi32": int32(-5), "fu64": uint64(1 << 63),
			// keys that builtins use as side channels, holding something else already
			"pl_msg": int64(5), "time": "not a time"}},
		{Meas: "", Tags: map[string]string{"t1": ""}, Fields: map[string]any{"fn": nil, "fi": int64(-1), "ff": 0.0, "fs": "", "fb": false, "fj": "[1,2]", "message": "<a><b>1</b></a>", "fx": "\xe6\x97"}},
		{Meas: "m", Tags: map[string]string{"m": "tagm"}, Fields: map[string]any{"message": nil, "fi": nil, "fs": nil, "s": "field-s", "l": "x", "ff": math.Inf(1), "pl_msg": true}},
	}
}

type nodeFn func() *rt.Node

func c01Atoms() []nodeFn {
	I, S, Id := rt.Int, rt.Str, rt.Id
	var a []nodeFn
	add := func(f nodeFn) { a = append(a, f) }
	add(func() *rt.Node { return rt.Nil() })
	add(func() *rt.Node { return rt.Bool(true) })
	add(func() *rt.Node { return I(0) })
	add(func() *rt.Node { return I(1) })
	add(func() *rt.Node { return I(-1) })
	add(func() *rt.Node { return I(math.MaxInt64) })
	add(func() *rt.Node { return rt.Float(1.5) })
	add(func() *rt.Node { return S("abc") })
	add(func() *rt.Node { return S("") })
	add(func() *rt.Node { return rt.List(I(1), S("a"), rt.List(I(2))) })
	add(func() *rt.Node { return rt.Map(S("k"), I(1)) })
	for _, v := range []string{"i", "z", "big", "small", "f", "s", "u", "l", "m", "n", "b", "fi", "ff", "fs", "fb", "fn", "t1", "nosuch", "message", "_", "bad", "cut", "fx", "fsl", "fl", "fm", "fu64"} {
		v := v
		add(func() *rt.Node { return Id(v) })
	}
	return a
}

// c01Exprs enumerates the expression forms S (each a fresh tree); light forms
// get every wrapper, heavy forms only the probe wrapper.
func c01Exprs(thorough bool, yield func(s nodeFn, heavy bool)) {
	I, S, Id := rt.Int, rt.Str, rt.Id
	atoms := c01Atoms()
	// atoms themselves
	for _, a := range atoms {
		yield(a, false)
	}
	// unary
	for _, op := range c02UnOps {
		for _, a := range atoms {
			op, a := op, a
			yield(func() *rt.Node { return rt.Normalize(rt.Un(op, rt.Paren(a()))) }, false)
		}
	}
	// binary, all pairs
	for _, op := range c02BinOps {
		for _, a := range atoms {
			for _, b := range atoms {
				op, a, b := op, a, b
				yield(func() *rt.Node { return rt.Normalize(rt.Bin(op, a(), b())) }, true)
			}
		}
	}
	// depth 2 binary over type representatives
	reps := []nodeFn{atoms[0], atoms[1], atoms[3], atoms[5], atoms[6], atoms[7], atoms[9], atoms[10], atoms[28], atoms[16]}
	if thorough {
		for _, op1 := range c02BinOps {
			for _, op2 := range c02BinOps {
				for _, a := range reps {
					for _, b := range reps {
						for _, c := range reps {
							op1, op2, a, b, c := op1, op2, a, b, c
							yield(func() *rt.Node { return rt.Normalize(rt.Bin(op1, rt.Bin(op2, a(), b()), c())) }, true)
							yield(func() *rt.Node { return rt.Normalize(rt.Bin(op1, a(), rt.Bin(op2, b(), c()))) }, true)
						}
					}
				}
			}
		}
	}
	// list / map literals, paren
	for _, a := range atoms {
		a := a
		yield(func() *rt.Node { return rt.Paren(a()) }, false)
		yield(func() *rt.Node { return rt.List(a(), a()) }, false)
		yield(func() *rt.Node { return rt.Map(S("k"), a()) }, false)
		yield(func() *rt.Node { return rt.Map(a(), I(1)) }, false)
	}
	// index chains
	keys := []nodeFn{
		func() *rt.Node { return I(0) }, func() *rt.Node { return I(-1) }, func() *rt.Node { return I(5) },
		func() *rt.Node { return S("k") }, func() *rt.Node { return S("zz") }, func() *rt.Node { return Id("f") },
		func() *rt.Node { return Id("n") }, func() *rt.Node { return Id("big") }, func() *rt.Node { return Id("small") },
		func() *rt.Node { return Id("l") }, func() *rt.Node { return Id("m") }, func() *rt.Node { return Id("nosuch") },
		func() *rt.Node { return rt.Index("l", I(0)) }, func() *rt.Node { return rt.Call("len", Id("s")) },
	}
	objs := []string{"l", "m", "s", "i", "n", "fs", "fi", "t1", "nosuch", "message", "_", "fn", "cut", "fx", "fsl", "fm"}
	for _, o := range objs {
		for _, k1 := range keys {
			o, k1 := o, k1
			yield(func() *rt.Node { return rt.Index(o, k1()) }, false)
			for _, k2 := range keys {
				k2 := k2
				yield(func() *rt.Node { return rt.Index(o, k1(), k2()) }, true)
				if o == "l" || o == "m" {
					for _, k3 := range keys {
						k3 := k3
						yield(func() *rt.Node { return rt.Index(o, k1(), k2(), k3()) }, true)
					}
				}
			}
		}
	}
	// object-less index expressions
	for _, k1 := range keys {
		k1 := k1
		yield(func() *rt.Node { return rt.NoObjIndex(k1()) }, false)
		yield(func() *rt.Node { return rt.NoObjIndex(k1(), I(0)) }, false)
	}
	// slices
	sobjs := []nodeFn{
		func() *rt.Node { return Id("l") }, func() *rt.Node { return Id("s") }, func() *rt.Node { return Id("u") },
		func() *rt.Node { return Id("i") }, func() *rt.Node { return Id("n") }, func() *rt.Node { return Id("m") },
		func() *rt.Node { return Id("fs") }, func() *rt.Node { return Id("fi") }, func() *rt.Node { return Id("nosuch") },
		func() *rt.Node { return rt.List(I(1), I(2)) }, func() *rt.Node { return S("ab") }, func() *rt.Node { return I(5) },
		func() *rt.Node { return rt.Nil() }, func() *rt.Node { return rt.Bool(true) },
		func() *rt.Node { return rt.Call("len", Id("s")) }, func() *rt.Node { return rt.Slice(Id("l"), I(0), I(1), nil, false) },
		func() *rt.Node { return rt.Call("exit") },
		func() *rt.Node { return Id("cut") }, func() *rt.Node { return Id("fx") }, func() *rt.Node { return Id("fsl") }, func() *rt.Node { return Id("fl") },
	}
	bnds := []nodeFn{nil,
		func() *rt.Node { return I(0) }, func() *rt.Node { return I(1) }, func() *rt.Node { return I(-1) },
		func() *rt.Node { return Id("big") }, func() *rt.Node { return Id("small") }, func() *rt.Node { return Id("f") },
		func() *rt.Node { return Id("n") }, func() *rt.Node { return Id("s") }, func() *rt.Node { return Id("b") },
		func() *rt.Node { return rt.Nil() }, func() *rt.Node { return rt.Bool(false) },
		func() *rt.Node { return rt.Call("len", Id("l")) }, func() *rt.Node { return rt.Call("exit") },
	}
	for _, o := range sobjs {
		for _, s := range bnds {
			for _, e := range bnds {
				for _, t := range bnds {
					o, s, e, t := o, s, e, t
					mk := func(f nodeFn) *rt.Node {
						if f == nil {
							return nil
						}
						return f()
					}
					yield(func() *rt.Node { return rt.Slice(o(), mk(s), mk(e), mk(t), true) }, true)
				}
			}
		}
	}
	// attribute expressions
	attrs := []nodeFn{
		func() *rt.Node { return rt.Attr(Id("fs"), Id("x")) },
		func() *rt.Node { return rt.Attr(Id("l"), rt.Index("x", I(0))) },
		func() *rt.Node { return rt.Attr(rt.Attr(Id("m"), Id("k")), Id("j")) },
		func() *rt.Node { return rt.Attr(rt.Index("l", I(0)), Id("x")) },
		func() *rt.Node { return rt.Attr(Id("a"), rt.NoObjIndex(I(0))) },
	}
	for _, a := range attrs {
		yield(a, false)
	}
}

// c01Wrap places S in every syntactic role.
func c01Wrap(s nodeFn, all bool, yield func(stmts []*rt.Node)) {
	I, S, Id := rt.Int, rt.Str, rt.Id
	yield([]*rt.Node{rt.Call("p", s())})
	if !all {
		return
	}
	yield([]*rt.Node{s()})
	yield([]*rt.Node{rt.If(s(), rt.Block(rt.Call("p", I(1))), s(), rt.Block(rt.Call("p", I(2))), rt.Block(rt.Call("p", I(3))))})
	yield([]*rt.Node{rt.For(rt.Assign("=", Id("x"), s()), s(), rt.Assign("=", Id("x"), s()), rt.Block(rt.Break()))})
	yield([]*rt.Node{rt.For(s(), nil, s(), rt.Block(rt.Break()))})
	yield([]*rt.Node{rt.ForIn("x", s(), rt.Block(rt.Call("p", Id("x"))))})
	yield([]*rt.Node{rt.Call("p", rt.Index("l", s()))})
	yield([]*rt.Node{rt.Assign("=", rt.Index("m", s()), I(1))})
	yield([]*rt.Node{rt.Assign("=", rt.Index("l", I(2), s()), s())})
	yield([]*rt.Node{rt.Assign("+=", rt.Index("l", s()), s())})
	yield([]*rt.Node{rt.Call("p", rt.Slice(Id("l"), s(), s(), s(), true))})
	yield([]*rt.Node{rt.Assign("=", Id("x"), s()), rt.Assign("+=", Id("x"), s()), rt.Assign("-=", Id("i"), s()),
		rt.Assign("*=", Id("f"), s()), rt.Assign("/=", Id("i"), s()), rt.Assign("%=", Id("big"), s())})
	yield([]*rt.Node{rt.Assign("+=", Id("s"), s()), rt.Assign("+=", Id("fi"), s()), rt.Assign("+=", Id("nosuch"), s()), rt.Assign("+=", Id("l"), s())})
	yield([]*rt.Node{rt.List(s(), s()), rt.Map(S("a"), s())})
	yield([]*rt.Node{rt.Call("add_key", Id("k"), s()), rt.Call("p", Id("k"))})
	yield([]*rt.Node{rt.Call("p", rt.Call("len", s()))})
	yield([]*rt.Node{rt.Call("set_measurement", s())})
	yield([]*rt.Node{rt.Call("p", rt.Call("load_json", s()))})
	yield([]*rt.Node{rt.Call("strfmt", Id("k"), S("%v %d %s"), s(), s(), s())})
	yield([]*rt.Node{rt.Call("p", rt.In(s(), s()), rt.Un("!", rt.Paren(s())), rt.Un("-", rt.Paren(s())))})
	yield([]*rt.Node{rt.AssignN([]*rt.Node{Id("x"), Id("y")}, []*rt.Node{s(), s()})})
	yield([]*rt.Node{rt.Assign("=", s(), s())})
	yield([]*rt.Node{rt.Assign("=", s(), I(1))})
	yield([]*rt.Node{rt.Assign("+=", s(), I(1))})
	yield([]*rt.Node{rt.Call("p", rt.Bin("&&", s(), s()), rt.Bin("||", s(), s()))})
}

// ---- builtin calls ------------------------------------------------------------

func c01ArgAlphabet() []nodeFn {
	I, S, Id := rt.Int, rt.Str, rt.Id
	var a []nodeFn
	add := func(f nodeFn) { a = append(a, f) }
	for _, v := range []string{"i", "f", "s", "u", "l", "m", "n", "b", "fi", "ff", "fs", "fb", "fn", "fj", "t1", "nosuch", "_", "message", "cut", "fx", "fsl", "fm"} {
		v := v
		add(func() *rt.Node { return Id(v) })
	}
	add(func() *rt.Node { return rt.QId("fs") })
	add(func() *rt.Node { return rt.Attr(Id("fs"), Id("x")) })
	for _, v := range []string{"abc", "", "fs", "%d %s", "[", "(a", "bool", "int", "float", "str", "string", "s", "ms", "RFC3339", "ANSIC",
		"+8", "Asia/Shanghai", "Nope/Zone", "%{INT:x}", "%{NOPE}", "%{WORD:w} %{INT:n:int}", "//b", "a%zz", "2021-01-02 03:04:05",
		// texts that end in the middle of something: a format directive with a dangling flag, a template reference, a lone backslash
		"%Y-%m-%d %-", "${1", "\\",
		// a well-formed XPath expression the engine cannot evaluate
		"//b[starts-with(1, 2)]"} {
		v := v
		add(func() *rt.Node { return S(v) })
	}
	add(func() *rt.Node { return I(0) })
	add(func() *rt.Node { return I(1) })
	add(func() *rt.Node { return rt.Float(1.5) })
	add(func() *rt.Node { return rt.Bool(true) })
	add(func() *rt.Node { return rt.Bool(false) })
	add(func() *rt.Node { return rt.Nil() })
	add(func() *rt.Node { return rt.List(I(1)) })
	add(func() *rt.Node { return rt.Map(S("a"), I(1)) })
	// collections holding a float that is not finite (a field of point 4, an overflowing product) - they have no JSON text
	add(func() *rt.Node { return rt.List(I(1), Id("ff")) })
	add(func() *rt.Node { return rt.Map(S("a"), rt.List(rt.Bin("*", rt.Float(1e308), rt.Float(10)))) })
	add(func() *rt.Node { return rt.Index("l", I(0)) })
	add(func() *rt.Node { return rt.NoObjIndex(I(0)) })
	add(func() *rt.Node { return rt.Call("len", Id("s")) })
	add(func() *rt.Node { return rt.Bin("+", I(1), I(1)) })
	add(func() *rt.Node { return rt.Un("-", Id("i")) })
	add(func() *rt.Node { return rt.Slice(Id("s"), I(0), I(1), nil, false) })
	add(func() *rt.Node { return rt.Named("key", S("x")) })
	return a
}

func c01BuiltinNames() []string {
	call, _ := drv.Tables()
	var names []string
	for k := range call {
		if k != "p" {
			names = append(names, k)
		}
	}
	sort.Strings(names)
	return names
}

func c01RunOne(w *run.Worker, stmts []*rt.Node, prelude bool) {
	var prog []*rt.Node
	if prelude {
		prog = append(prog, c01Prelude()...)
	}
	prog = append(prog, stmts...)
	src, _ := rt.PrintProg(prog, nil)
	c01RunSrc(w, src, true)
}

func c01RunSrc(w *run.Worker, src string, report bool) (accepted bool) {
	sc, err := drv.Load1("s.p", src)
	w.Eval()
	if err != nil {
		if lp, ok := err.(*drv.LoadPanic); ok {
			// a crash while loading belongs to C08 (the check pass must reject
			// with an error); counted here, reported there
			w.Note("load_panics_seen(reported_by_C08)", 1)
			_ = lp
		} else {
			w.Note("rejected_at_load", 1)
		}
		return false
	}
	for pi, ps := range c01Points() {
		pt := ps.real().Build()
		res := drv.Run(sc, pt, &drv.Sig{FireAt: realPollCap})
		w.Eval()
		class := "ok"
		switch {
		case res.Panic != "":
			class = "panic:" + panicClass(res.Panic)
		case res.Err != nil:
			class = "err"
		}
		w.OutcomeHash(hash2(src, class, pi))
		if !report {
			continue
		}
		if res.Panic != "" {
			where := panicSite(res.Stack)
			w.Violate("C01:panic:"+panicClass(res.Panic)+":"+where, fmt.Sprintf("run panicked: %s at %s\npoint %d %s\n%s", res.Panic, where, pi, ps, tailSrc(src)), c01Case{Source: src, Point: pi})
			continue
		}
		if res.Err != nil {
			e := res.Err
			if len(e.PosChain) < 1 {
				w.Violate("C01:error-without-position", fmt.Sprintf("error %q has an empty position chain\n%s", e.Err, tailSrc(src)), c01Case{Source: src, Point: pi})
			} else if e.PosChain[0].File != "s.p" {
				w.Violate("C01:error-names-wrong-script", fmt.Sprintf("error %q names script %q\n%s", e.Err, e.PosChain[0].File, tailSrc(src)), c01Case{Source: src, Point: pi})
			}
		}
	}
	return true
}

func tailSrc(src string) string {
	ls := strings.Split(src, "\n")
	if np := len(c01Prelude()); len(ls) > np+2 {
		return "... (prelude) ...\n" + strings.Join(ls[np:], "\n")
	}
	return src
}

// panicSite extracts the first repository frame below the panic from a stack.
func panicSite(stack string) string {
	lines := strings.Split(stack, "\n")
	seenPanic := false
	for _, l := range lines {
		if strings.HasPrefix(l, "panic(") {
			seenPanic = true
			continue
		}
		if seenPanic && strings.HasPrefix(l, "github.com/GuanceCloud/platypus/") {
			f := strings.TrimPrefix(l, "github.com/GuanceCloud/platypus/")
			if i := strings.Index(f, "("); i > 0 {
				f = f[:i]
			}
			return f
		}
	}
	return "unknown"
}

func hash2(src, class string, pi int) uint64 {
	var h uint64 = 1469598103934665603
	for i := 0; i < len(src); i++ {
		h ^= uint64(src[i])
		h *= 1099511628211
	}
	for i := 0; i < len(class); i++ {
		h ^= uint64(class[i])
		h *= 1099511628211
	}
	h ^= uint64(pi)
	h *= 1099511628211
	return h
}

func c01Run(w *run.Worker) {
	// (i)+(iv): expression forms in every wrapper
	c01Exprs(w.Thorough, func(s nodeFn, heavy bool) {
		c01Wrap(s, !heavy, func(stmts []*rt.Node) {
			if !w.Take() || w.Expired() {
				return
			}
			c01RunOne(w, stmts, true)
			if w.WantSample() && w.Index()%977 == 0 {
				src, _ := rt.PrintProg(stmts, nil)
				w.Sample(map[string]any{"statement_after_prelude": src, "points": 4})
			}
		})
	})
	// (v): a point-mutating builtin followed by a reader of the same or another key
	c01Sequences(w)
	c01SelfRef(w)
	// (iii): every builtin x every argument shape its checker accepts
	names := c01BuiltinNames()
	alpha := c01ArgAlphabet()
	small := []nodeFn{alpha[0], alpha[3], alpha[10], alpha[15], alpha[24], alpha[27], alpha[48], alpha[51], alpha[54], alpha[57]}
	for _, name := range names {
		var rec func(args []nodeFn, n int, al []nodeFn)
		rec = func(args []nodeFn, n int, al []nodeFn) {
			if len(args) == n {
				if !w.Take() || w.Expired() {
					return
				}
				var an []*rt.Node
				for _, f := range args {
					an = append(an, f())
				}
				call := rt.Call(name, an...)
				accepted := c01Offer(w, call)
				if accepted {
					w.Note("accepted_builtin_call_shapes", 1)
				} else if n <= 1 {
					// a shape its checker rejects as a statement: if some other position lets it through, it runs there
					for _, wrap := range []func(c *rt.Node) *rt.Node{
						func(c *rt.Node) *rt.Node { return rt.Assign("=", rt.Id("x"), rt.Map(rt.Str("k"), c)) },
						func(c *rt.Node) *rt.Node { return rt.Assign("=", rt.Id("x"), rt.List(c, rt.Int(1))) },
						func(c *rt.Node) *rt.Node { return rt.Assign("=", rt.Id("x"), rt.Map(rt.Str("k"), rt.List(rt.Map(rt.Str("j"), c), rt.Int(1)))) },
						func(c *rt.Node) *rt.Node { return rt.Call("p", rt.Index("l", c)) },
						func(c *rt.Node) *rt.Node { return rt.For(nil, c, nil, rt.Block(rt.Break())) },
					} {
						if c01RunWrapped(w, wrap(rt.Clone(call))) {
							w.Note("rejected_shapes_accepted_in_another_position(C08 decides)", 1)
						}
					}
				}
				return
			}
			for _, f := range al {
				rec(append(args, f), n, al)
			}
		}
		for n := 0; n <= 3; n++ {
			rec(nil, n, alpha)
		}
		rec(nil, 4, small)
	}
}

// c01Sequences: mutator ; reader over the point keys (a crash may need the key
// index and the stored value to disagree, which takes two steps).
func c01Sequences(w *run.Worker) {
	I, S, Id := rt.Int, rt.Str, rt.Id
	keys := []string{"fi", "ff", "fs", "fb", "fn", "fj", "t1", "message", "nosuch", "s", "l", "fx"}
	var muts []nodeFn
	for _, a := range keys {
		a := a
		for _, b := range keys {
			if a == b {
				continue
			}
			b := b
			muts = append(muts, func() *rt.Node { return rt.Call("rename", Id(a), Id(b)) })
		}
		for _, t := range []string{"bool", "int", "float", "str"} {
			t := t
			muts = append(muts, func() *rt.Node { return rt.Call("cast", Id(a), S(t)) })
		}
		muts = append(muts,
			func() *rt.Node { return rt.Call("set_tag", Id(a)) },
			func() *rt.Node { return rt.Call("set_tag", Id(a), rt.Attr(Id("o"), Id("x"))) },
			func() *rt.Node { return rt.Call("add_key", Id(a), I(5)) },
			func() *rt.Node { return rt.Call("add_key", Id(a), rt.List(I(1))) },
			func() *rt.Node { return rt.Call("add_key", Id(a), rt.Nil()) },
			func() *rt.Node { return rt.Call("add_key", Id(a), rt.Attr(Id("o"), Id("x"))) },
			func() *rt.Node { return rt.Call("drop_key", Id(a)) },
			func() *rt.Node { return rt.Call("set_measurement", Id(a), rt.Bool(true)) },
			func() *rt.Node { return rt.Call("default_time", Id(a)) },
			func() *rt.Node { return rt.Call("grok", Id(a), S("%{INT:fs:int} ?%{WORD:fi}?")) },
		)
	}
	readers := func(k string) []*rt.Node {
		return []*rt.Node{
			rt.Call("p", rt.Call("len", Id(k))),
			rt.Call("p", rt.Slice(Id(k), I(0), I(1), nil, false)),
			rt.Call("p", rt.Bin("+", Id(k), I(1)), rt.Un("-", Id(k)), rt.Un("!", Id(k))),
			rt.Call("p", rt.Bin("+", Id(k), S("x")), rt.In(S("a"), Id(k)), rt.Bin("<", Id(k), I(2)), rt.Bin("==", Id(k), Id("fs"))),
			rt.ForIn("v", Id(k), rt.Block(rt.Call("p", Id("v")))),
			rt.Call("p", rt.Index(k, I(0))),
			rt.If(Id(k), rt.Block(rt.Call("p", I(1)))),
			rt.Call("uppercase", Id(k)),
			rt.Call("p", rt.Call("load_json", Id(k))),
			rt.Call("strfmt", Id("out"), S("%v|%d|%s"), Id(k), Id(k), Id(k)),
			rt.Call("cast", Id(k), S("int")),
			rt.Call("datetime", Id(k), S("ms"), S("RFC3339")),
			rt.Call("set_tag", Id(k)),
			rt.Call("rename", Id("zz"), Id(k)),
			rt.Assign("+=", Id(k), I(1)),
		}
	}
	for _, m := range muts {
		for _, k := range keys {
			for ri := range readers(k) {
				if !w.Take() || w.Expired() {
					continue
				}
				c01RunOne(w, []*rt.Node{m(), readers(k)[ri], rt.Call("p", rt.Call("get_key", Id(k)))}, true)
			}
		}
	}
}

// c01RunWrapped loads a statement without counting a rejection; if it loads it is run like any accepted program.
func c01RunWrapped(w *run.Worker, stmt *rt.Node) bool {
	prog := append(c01Prelude(), stmt)
	src, _ := rt.PrintProg(prog, nil)
	if _, err := drv.Load1("s.p", src); err != nil {
		w.Eval()
		return false
	}
	return c01RunSrc(w, src, true)
}

// c01SelfRef: statements that would make a list or map contain itself (directly, at depth, through
// another container), followed by every consumer of a value: the run reports an error or goes on, it
// does not overflow the stack or walk the value for ever.
func c01SelfRef(w *run.Worker) {
	I, S, Id := rt.Int, rt.Str, rt.Id
	makers := [][]*rt.Node{
		{rt.Assign("=", rt.Index("l", I(0)), Id("l"))},
		{rt.Assign("=", rt.Index("l", I(2), I(0)), Id("l"))},
		{rt.Assign("=", rt.Index("m", S("k")), Id("m"))},
		{rt.Assign("=", rt.Index("m", S("k")), Id("l")), rt.Assign("=", rt.Index("l", I(0)), Id("m"))},
		{rt.Assign("=", Id("x"), rt.List(Id("l"))), rt.Assign("=", rt.Index("l", I(0)), Id("x"))},
		{rt.Assign("=", rt.Index("m", S("k")), rt.List(rt.Map(S("j"), Id("m"))))},
		{rt.Assign("+=", rt.Index("l", I(2)), Id("l"))},
		{rt.Assign("=", Id("x"), rt.Index("l", I(2))), rt.Assign("=", rt.Index("l", I(2), I(0)), Id("x"))},          // an inner list stored into itself through the outer name
		{rt.Assign("=", Id("x"), rt.Map(S("in"), Id("m"))), rt.Assign("=", Id("y"), Id("x")), rt.Assign("=", rt.Index("m", S("k")), Id("y"))}, // through two aliases
		{rt.AssignN([]*rt.Node{rt.Index("l", I(0)), Id("y")}, []*rt.Node{Id("l"), I(1)})},
		// through operators instead of index stores (errors today; whatever they come to mean, no value may end up inside itself)
		{rt.Assign("=", Id("x"), rt.Bin("+", Id("l"), rt.List(I(4)))), rt.Assign("=", Id("y"), rt.Bin("+", Id("l"), rt.List(Id("x"))))},
		{rt.Assign("+=", Id("l"), rt.List(Id("l")))},
		{rt.Assign("=", Id("x"), rt.Bin("+", rt.List(Id("l")), Id("l"))), rt.Assign("=", rt.Index("l", I(0)), Id("x"))},
		{rt.Assign("+=", Id("m"), Id("m"))},
		{rt.Assign("=", Id("x"), rt.Bin("*", Id("l"), I(2))), rt.Assign("=", rt.Index("x", I(0)), Id("x"))},
	}
	consumers := func(k string) []*rt.Node {
		return []*rt.Node{
			rt.Call("strfmt", Id("out"), S("%v|%s|%d"), Id(k), Id(k), Id(k)),
			rt.Call("printf", S("%v\n"), Id(k)),
			rt.Call("cast", Id(k), S("str")),
			rt.Call("cast", Id(k), S("int")),
			rt.Call("add_key", Id("k2"), Id(k)),
			rt.Call("set_tag", Id("t9"), Id(k)),
			rt.Call("p", rt.Call("len", Id(k)), rt.Bin("==", Id(k), Id(k)), rt.In(Id(k), rt.List(Id(k)))),
			rt.ForIn("v", Id(k), rt.Block(rt.Call("p", Id("v")))),
			rt.Call("uppercase", Id(k)),
			rt.Call("p", rt.Call("load_json", Id(k))),
			rt.Call("p", rt.Slice(Id(k), I(0), nil, nil, false)),
			rt.Call("trim", Id(k)),
			rt.Call("replace", Id(k), S("a"), S("b")),
			rt.Call("url_decode", Id(k)),
			rt.Call("set_measurement", Id(k)),
			rt.Call("p", rt.Bin("+", Id(k), Id(k)), rt.Bin("<", Id(k), Id(k))),
			rt.If(Id(k), rt.Block(rt.Call("p", I(1)))),
		}
	}
	// a value in which the same container occurs many times (a DAG with 2^40 paths but 41 nodes): storing
	// it, taking its length, iterating and comparing it take time proportional to what exists, not to the paths
	if w.Take() {
		dag := []*rt.Node{
			rt.Assign("=", Id("d"), rt.List(I(1))),
			rt.For(rt.Assign("=", Id("j"), I(0)), rt.Bin("<", Id("j"), I(40)), rt.Assign("=", Id("j"), rt.Bin("+", Id("j"), I(1))), rt.Block(rt.Assign("=", Id("d"), rt.List(Id("d"), Id("d"))))),
			rt.Assign("=", Id("x"), rt.List(I(0), rt.Map())),
			rt.Assign("=", rt.Index("x", I(0)), Id("d")),
			rt.Assign("=", rt.Index("x", I(1), S("k")), Id("d")),
			rt.Assign("=", rt.Index("d", I(0)), I(5)),
			rt.Call("p", rt.Call("len", Id("x")), rt.Call("len", Id("d"))),
			rt.ForIn("v", Id("d"), rt.Block(rt.Call("p", rt.Call("len", Id("v"))))),
		}
		c01RunOne(w, dag, true)
	}
	for _, mk := range makers {
		for _, k := range []string{"l", "m", "x"} {
			for ci := range consumers(k) {
				if !w.Take() || w.Expired() {
					continue
				}
				var stmts []*rt.Node
				for _, s := range mk {
					stmts = append(stmts, rt.Clone(s))
				}
				c01RunOne(w, append(stmts, consumers(k)[ci], rt.Call("p", Id(k))), true)
			}
		}
	}
}

// c01Offer offers a call to the real checker; if accepted, runs it as a
// statement and as a probed value on all points.
func c01Offer(w *run.Worker, call *rt.Node) bool {
	src, _ := rt.PrintProg([]*rt.Node{call}, nil)
	if _, err := drv.Load1("s.p", src); err != nil {
		w.Eval()
		if _, ok := err.(*drv.LoadPanic); ok {
			w.Note("load_panics_seen(reported_by_C08)", 1)
		}
		return false
	}
	c01RunOne(w, []*rt.Node{rt.Clone(call), rt.Call("p", rt.Clone(call)), rt.If(rt.Clone(call), rt.Block(rt.Call("p", rt.Int(1))))}, true)
	return true
}

func c01Replay(raw json.RawMessage) (bool, string) {
	var c c01Case
	if err := json.Unmarshal(raw, &c); err != nil {
		return false, err.Error()
	}
	sc, err := drv.Load1("s.p", c.Source)
	if err != nil {
		return false, "rejected at load: " + err.Error()
	}
	ps := c01Points()[c.Point]
	res := drv.Run(sc, ps.real().Build(), &drv.Sig{FireAt: realPollCap})
	if res.Panic != "" {
		return true, "panic: " + res.Panic + "\n" + res.Stack
	}
	if res.Err != nil && (len(res.Err.PosChain) < 1 || res.Err.PosChain[0].File != "s.p") {
		return true, fmt.Sprintf("bad error: %+v", res.Err)
	}
	return false, fmt.Sprintf("returned err=%v", res.Err)
}

func init() {
	run.Register(&run.Check{
		ID:    "C01",
		Level: "model_checking",
		Rule: "prelude binding a variable of every dynamic type, then S in 25 syntactic roles, for S over: 38 atoms (literals incl. extreme ints, variables incl. strings that are not valid UTF-8, point keys of each stored type incl. an invalid-UTF-8 string and fields holding typed/untyped Go slices, maps, arrays and small numeric types, a tag, an absent name), " +
			"3 unary x atoms, 14 binary x atoms^2 (thorough: all depth-2 trees over 10 type representatives), list/map literals, index chains of depth <=3 over 16 objects x 14 keys, 10 ways of storing a list or map into itself (directly, at depth, through another container) x 17 consumers of the value, object-less .[i], " +
			"17 slice objects x 14^3 bounds, attribute expressions; plus every builtin x every argument list of length 0..3 over a 55-candidate alphabet (length 4 over 10) that the real checker accepts; plus every pair (point-mutating builtin call; reader) over 11 keys: 11x10 renames, casts, set_tag, add_key with scalar/list/nil/void values, drop, delete-on-set-measurement, default_time, grok x 15 readers (len, slice, arithmetic, comparison, for-in, index, condition, string builtins, load_json, strfmt, cast, datetime, set_tag, rename, compound assignment); each on 4 input points; " +
			"oracle: Run returns, no panic, error (if any) carries a position chain whose first entry names the script; distinct = (program, point, outcome class)",
		Assumptions: []string{"panics are recovered in the worker goroutine; fatal errors kill the worker and are reported through the progress slot", "position validity is decided by C17"},
		Run:            c01Run,
		Replay:         c01Replay,
		QuickBudget:    5 * time.Minute,
		ThoroughBudget: 30 * time.Minute,
	})
}
