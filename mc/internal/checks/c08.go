package checks

import (
	"encoding/json"
	"fmt"
	"strings"
	"time"

	"github.com/GuanceCloud/platypus/pkg/ast"
	"github.com/GuanceCloud/platypus/pkg/engine"
	plrt "github.com/GuanceCloud/platypus/pkg/engine/runtime"
	v2 "github.com/GuanceCloud/platypus/pkg/engine/runtimev2"
	"github.com/GuanceCloud/platypus/pkg/errchain"

	"verif/mc/internal/drv"
	"verif/mc/internal/rt"
	"verif/mc/internal/run"
)

// C08 — load-time checking rejects every invalid construct wherever it
// occurs, never rejects a valid one, and points at the offender.

type c08Case struct {
	Source  string `json:"source"`
	V2      bool   `json:"v2"`
	Removed string `json:"removed,omitempty"`   // builtin removed from both tables
	NoCheck string `json:"nocheck,omitempty"`   // builtin removed from the check table only
	NoCall  string `json:"nocall,omitempty"`    // builtin removed from the call table only (a checker without an implementation)
	Lo      int    `json:"offender_start"`      // byte extent of the offender, -1 = program is valid
	Hi      int    `json:"offender_end"`
	Recheck bool   `json:"recheck,omitempty"` // load, then the exported Check under another table
	TableA  string `json:"table_a,omitempty"`
	TableB  string `json:"table_b,omitempty"`
	Before  string `json:"loaded_before,omitempty"` // a script loaded immediately before
}

// c08Strip returns the statements without calls of the named function (at any block depth).
func c08Strip(stmts []*rt.Node, name string) []*rt.Node {
	var out []*rt.Node
	for _, st := range stmts {
		if st == nil {
			out = append(out, nil)
			continue
		}
		if st.K == rt.KCall && st.S == name {
			continue
		}
		c := *st
		if st.K == rt.KBlock {
			c.Kids = c08Strip(st.Kids, name)
		} else if len(st.Kids) > 0 {
			c.Kids = make([]*rt.Node, len(st.Kids))
			for i, k := range st.Kids {
				if k != nil && (k.K == rt.KBlock || k.K == rt.KIf || k.K == rt.KFor || k.K == rt.KForIn) {
					if r := c08Strip([]*rt.Node{k}, name); len(r) == 1 {
						c.Kids[i] = r[0]
						continue
					}
				}
				c.Kids[i] = k
			}
		}
		out = append(out, &c)
	}
	return out
}

// argument kinds of the builtins' checkers (reference table, DESIGN.md appendix A)
const (
	akAny = iota
	akKey  // identifier | attribute expression | string literal
	akStr  // string literal
	akBool // bool literal
	akIA   // identifier | attribute expression
	akSIA  // string literal | identifier | attribute expression
)

type c08Rule struct {
	Name   string
	Min    int
	Max    int // -1 = unbounded
	Kinds  []int
	Valid  []nodeFn // a valid argument per position (at least Max or 3 entries)
}

func c08Rules() []c08Rule {
	S, Id := rt.Str, rt.Id
	k := func() *rt.Node { return Id("fs") }
	s := func(v string) nodeFn { return func() *rt.Node { return S(v) } }
	b := func() *rt.Node { return rt.Bool(true) }
	any1 := func() *rt.Node { return rt.Bin("+", Id("x"), rt.Int(1)) }
	return []c08Rule{
		{"add_key", 1, 2, []int{akKey, akAny}, []nodeFn{k, any1}},
		{"get_key", 1, 1, []int{akKey}, []nodeFn{k}},
		{"set_tag", 1, 2, []int{akKey, akSIA}, []nodeFn{k, s("v")}},
		{"drop_key", 1, 1, []int{akKey}, []nodeFn{k}},
		{"rename", 2, 2, []int{akKey, akIA}, []nodeFn{k, func() *rt.Node { return Id("old") }}},
		{"cast", 2, 2, []int{akKey, akStr}, []nodeFn{k, s("int")}},
		{"set_measurement", 1, 2, []int{akKey, akBool}, []nodeFn{k, b}},
		{"len", 1, 1, []int{akAny}, []nodeFn{any1}},
		{"load_json", 1, 1, []int{akAny}, []nodeFn{any1}},
		{"strfmt", 2, -1, []int{akKey, akStr, akAny, akAny}, []nodeFn{k, s("%v"), any1, any1}},
		{"printf", 1, -1, []int{akKey, akAny, akAny, akAny}, []nodeFn{s("%v"), any1, any1, any1}},
		{"trim", 1, 2, []int{akKey, akStr}, []nodeFn{k, s(" ")}},
		{"uppercase", 1, 1, []int{akKey}, []nodeFn{k}},
		{"replace", 3, 3, []int{akKey, akStr, akStr}, []nodeFn{k, s("a"), s("b")}},
		{"url_decode", 1, 1, []int{akKey}, []nodeFn{k}},
		{"sql_cover", 1, 1, []int{akKey}, []nodeFn{k}},
		{"grok", 2, 3, []int{akKey, akStr, akBool}, []nodeFn{k, s("%{INT:n}"), b}},
		{"add_pattern", 2, 2, []int{akStr, akStr}, []nodeFn{s("pname"), s("[a-z]+")}},
		{"xml", 3, 3, []int{akKey, akStr, akSIA}, []nodeFn{k, s("/a/b"), func() *rt.Node { return Id("dst") }}},
		{"datetime", 3, 3, []int{akKey, akStr, akStr}, []nodeFn{k, s("ms"), s("RFC3339")}},
		{"default_time", 1, -1, []int{akKey, akStr, akAny, akAny}, []nodeFn{k, s("+8"), s("x"), s("y")}},
		{"use", 1, 1, []int{akStr}, []nodeFn{s("other.p")}},
	}
}

// wrongKinds: argument expressions that violate a kind constraint.
func c08WrongKinds(kind int) []nodeFn {
	I, S, Id := rt.Int, rt.Str, rt.Id
	intL := func() *rt.Node { return I(5) }
	fl := func() *rt.Node { return rt.Float(1.5) }
	list := func() *rt.Node { return rt.List(I(1)) }
	call := func() *rt.Node { return rt.Call("len", Id("x")) }
	bin := func() *rt.Node { return rt.Bin("+", Id("a"), Id("b")) }
	bl := func() *rt.Node { return rt.Bool(true) }
	nl := func() *rt.Node { return rt.Nil() }
	idx := func() *rt.Node { return rt.Index("l", I(0)) }
	str := func() *rt.Node { return S("s") }
	id := func() *rt.Node { return Id("v") }
	mp := func() *rt.Node { return rt.Map(S("a"), I(1)) }
	par := func() *rt.Node { return rt.Paren(Id("v")) }
	nidx := func() *rt.Node { return rt.NoObjIndex(I(0)) }
	switch kind {
	case akKey:
		return []nodeFn{intL, fl, list, call, bin, bl, nl, idx, mp, par, nidx}
	case akStr:
		return []nodeFn{id, intL, fl, list, call, bin, bl, nl, idx, nidx}
	case akBool:
		return []nodeFn{id, str, intL, nl, call, bin}
	case akIA:
		return []nodeFn{str, intL, call, bin, idx, bl}
	case akSIA:
		return []nodeFn{intL, fl, list, call, bin, bl, nl, idx, nidx}
	}
	return nil
}

func (r c08Rule) validCall(n int) *rt.Node {
	var args []*rt.Node
	for i := 0; i < n; i++ {
		if i < len(r.Valid) {
			args = append(args, r.Valid[i]())
		} else {
			args = append(args, rt.Str("extra"))
		}
	}
	return rt.Call(r.Name, args...)
}

// offenders of one builtin: wrong arity, wrong literal kinds
func (r c08Rule) offenders() []nodeFn {
	var out []nodeFn
	for n := 0; n <= 4; n++ {
		if n >= r.Min && (r.Max < 0 || n <= r.Max) {
			continue
		}
		n := n
		out = append(out, func() *rt.Node { return r.validCall(n) })
	}
	top := r.Max
	if top < 0 {
		top = len(r.Kinds)
	}
	for pos := 0; pos < top && pos < len(r.Kinds); pos++ {
		for _, wk := range c08WrongKinds(r.Kinds[pos]) {
			pos, wk := pos, wk
			n := pos + 1
			if n < r.Min {
				n = r.Min
			}
			out = append(out, func() *rt.Node {
				c := r.validCall(n)
				c.Kids[pos] = wk()
				return c
			})
		}
	}
	return out
}

// a context places an expression E in one syntactic position of a program
type c08Ctx struct {
	Name  string
	Build func(e *rt.Node) []*rt.Node
	// callOnly: the position only admits a call expression syntactically (slice object)
}

func c08Contexts() []c08Ctx {
	I, S, Id := rt.Int, rt.Str, rt.Id
	one := func(f func(e *rt.Node) *rt.Node) func(e *rt.Node) []*rt.Node {
		return func(e *rt.Node) []*rt.Node { return []*rt.Node{rt.Normalize(f(e))} }
	}
	brk := func() *rt.Node { return rt.Block(rt.Break()) }
	cs := []c08Ctx{
		{"statement", one(func(e *rt.Node) *rt.Node { return e })},
		{"if-cond", one(func(e *rt.Node) *rt.Node { return rt.If(e, rt.Block()) })},
		{"elif-cond", one(func(e *rt.Node) *rt.Node { return rt.If(rt.Bool(false), rt.Block(), e, rt.Block()) })},
		{"if-body", one(func(e *rt.Node) *rt.Node { return rt.If(Id("c"), rt.Block(rt.Call("p", I(1)), e)) })},
		{"elif-body", one(func(e *rt.Node) *rt.Node { return rt.If(Id("c"), rt.Block(), Id("d"), rt.Block(e)) })},
		{"else-body", one(func(e *rt.Node) *rt.Node { return rt.If(Id("c"), rt.Block(), rt.Block(e, rt.Call("p", I(1)))) })},
		{"if-body-before-elif", one(func(e *rt.Node) *rt.Node { return rt.If(Id("c"), rt.Block(e), Id("d"), rt.Block(rt.Call("p", I(1))), rt.Block()) })},
		{"elif-body-before-elif", one(func(e *rt.Node) *rt.Node {
			return rt.If(Id("c"), rt.Block(), Id("d"), rt.Block(rt.Call("p", I(1)), e), rt.Bin("<", Id("x"), I(1)), rt.Block(), rt.Block(rt.Call("p", I(2))))
		})},
		{"nested-12-deep", one(func(e *rt.Node) *rt.Node {
			n := e
			for i := 0; i < 6; i++ {
				n = rt.Call("p", I(int64(i)), rt.List(n))
			}
			return rt.Assign("=", Id("x"), n)
		})},
		{"for-init-assign", one(func(e *rt.Node) *rt.Node { return rt.For(rt.Assign("=", Id("i"), e), nil, nil, brk()) })},
		{"for-init-expr", one(func(e *rt.Node) *rt.Node { return rt.For(e, nil, nil, brk()) })},
		{"for-cond", one(func(e *rt.Node) *rt.Node { return rt.For(nil, e, nil, brk()) })},
		{"for-step-assign", one(func(e *rt.Node) *rt.Node { return rt.For(nil, nil, rt.Assign("=", Id("i"), e), brk()) })},
		{"for-step-expr", one(func(e *rt.Node) *rt.Node { return rt.For(nil, Id("c"), e, brk()) })},
		{"for-body", one(func(e *rt.Node) *rt.Node { return rt.For(nil, nil, nil, rt.Block(e, rt.Break())) })},
		{"forin-iter", one(func(e *rt.Node) *rt.Node { return rt.ForIn("v", e, rt.Block()) })},
		{"forin-body", one(func(e *rt.Node) *rt.Node { return rt.ForIn("v", Id("l"), rt.Block(rt.If(Id("v"), rt.Block(e)))) })},
		{"list-elem", one(func(e *rt.Node) *rt.Node { return rt.Assign("=", Id("x"), rt.List(I(1), e, I(3))) })},
		{"nested-list-elem", one(func(e *rt.Node) *rt.Node { return rt.Assign("=", Id("x"), rt.List(rt.List(rt.Map(S("k"), rt.List(e))))) })},
		{"map-key", one(func(e *rt.Node) *rt.Node { return rt.Assign("=", Id("x"), rt.Map(e, I(1))) })},
		{"map-value", one(func(e *rt.Node) *rt.Node { return rt.Assign("=", Id("x"), rt.Map(S("k"), e)) })},
		{"map-second-value", one(func(e *rt.Node) *rt.Node { return rt.Assign("=", Id("x"), rt.Map(S("k"), I(1), S("j"), e)) })},
		// a literal that spells one key twice: both value expressions are part of the script
		{"map-value-of-a-key-spelled-again-later", one(func(e *rt.Node) *rt.Node { return rt.Assign("=", Id("x"), rt.Map(S("k"), e, S("j"), I(2), S("k"), I(3))) })},
		{"map-value-of-a-key-spelled-before", one(func(e *rt.Node) *rt.Node { return rt.Assign("=", Id("x"), rt.Map(S("k"), I(1), S("k"), e)) })},
		{"nested-map-value-of-a-repeated-key", one(func(e *rt.Node) *rt.Node {
			return rt.Assign("=", Id("x"), rt.List(rt.Map(S("k"), rt.Map(S("q"), e, S("q"), I(0)), S("k"), I(1))))
		})},
		{"list-element-repeated", one(func(e *rt.Node) *rt.Node { return rt.Assign("=", Id("x"), rt.List(I(1), e, I(1), I(1))) })},
		{"index-1", one(func(e *rt.Node) *rt.Node { return rt.Assign("=", Id("x"), rt.Index("a", e)) })},
		{"index-2", one(func(e *rt.Node) *rt.Node { return rt.Assign("=", Id("x"), rt.Index("a", I(0), e)) })},
		{"index-3", one(func(e *rt.Node) *rt.Node { return rt.Call("p", rt.Index("a", I(0), S("k"), e)) })},
		{"index-lhs", one(func(e *rt.Node) *rt.Node { return rt.Assign("=", rt.Index("a", e), I(1)) })},
		{"index-lhs-compound", one(func(e *rt.Node) *rt.Node { return rt.Assign("+=", rt.Index("a", I(0), e), I(1)) })},
		{"noobj-index", one(func(e *rt.Node) *rt.Node { return rt.Call("p", rt.NoObjIndex(e)) })},
		{"attr-index", one(func(e *rt.Node) *rt.Node { return rt.Call("p", rt.Attr(Id("a"), rt.Index("b", e))) })},
		{"attr-obj-index", one(func(e *rt.Node) *rt.Node { return rt.Call("p", rt.Attr(rt.Index("a", e), Id("b"))) })},
		{"call-arg-1", one(func(e *rt.Node) *rt.Node { return rt.Call("p", e) })},
		{"call-arg-2", one(func(e *rt.Node) *rt.Node { return rt.Call("p", I(1), e) })},
		{"call-named-arg", one(func(e *rt.Node) *rt.Node { return rt.Call("p", I(1), rt.Named("k", e)) })},
		{"call-depth-2", one(func(e *rt.Node) *rt.Node { return rt.Call("p", rt.Call("p", I(1), e)) })},
		{"call-depth-2-named", one(func(e *rt.Node) *rt.Node { return rt.Call("p", rt.Named("k", rt.Call("p", rt.Named("j", e)))) })},
		{"v2-named-arg", one(func(e *rt.Node) *rt.Node { return rt.Call("id", rt.Named("x", e)) })},
		{"v2-raw-arg", one(func(e *rt.Node) *rt.Node { return rt.Call("raw", I(1), e) })},
		{"v2-raw-arg-nested", one(func(e *rt.Node) *rt.Node { return rt.Call("raw", rt.List(rt.Map(S("k"), e)), rt.Named("k", I(1))) })},
		{"v2-named-arg-depth-2", one(func(e *rt.Node) *rt.Node { return rt.Call("p", rt.Call("id", rt.Named("x", rt.Call("id", rt.Named("x", e))))) })},
		{"builtin-arg", one(func(e *rt.Node) *rt.Node { return rt.Call("add_key", Id("k"), e) })},
		{"len-arg", one(func(e *rt.Node) *rt.Node { return rt.Assign("=", Id("x"), rt.Call("len", e)) })},
		{"strfmt-arg", one(func(e *rt.Node) *rt.Node { return rt.Call("strfmt", Id("k"), S("%v%v"), I(1), e) })},
		{"assign-rhs", one(func(e *rt.Node) *rt.Node { return rt.Assign("=", Id("x"), e) })},
		{"assign-lhs", one(func(e *rt.Node) *rt.Node { return rt.Assign("=", e, I(1)) })},
		{"tuple-rhs", one(func(e *rt.Node) *rt.Node { return rt.AssignN([]*rt.Node{Id("x"), Id("y")}, []*rt.Node{I(1), e}) })},
		{"tuple-lhs", one(func(e *rt.Node) *rt.Node { return rt.AssignN([]*rt.Node{Id("x"), e}, []*rt.Node{I(1), I(2)}) })},
		{"unary-minus", one(func(e *rt.Node) *rt.Node { return rt.Assign("=", Id("x"), rt.Un("-", e)) })},
		{"unary-not", one(func(e *rt.Node) *rt.Node { return rt.If(rt.Un("!", e), rt.Block()) })},
		{"binary-left", one(func(e *rt.Node) *rt.Node { return rt.Assign("=", Id("x"), rt.Bin("+", e, I(1))) })},
		{"binary-right", one(func(e *rt.Node) *rt.Node { return rt.Assign("=", Id("x"), rt.Bin("*", I(2), e)) })},
		{"cond-left", one(func(e *rt.Node) *rt.Node { return rt.Assign("=", Id("x"), rt.Bin("&&", e, Id("c"))) })},
		{"cond-right", one(func(e *rt.Node) *rt.Node { return rt.Assign("=", Id("x"), rt.Bin("==", Id("c"), e)) })},
		{"in-left", one(func(e *rt.Node) *rt.Node { return rt.Assign("=", Id("x"), rt.In(e, Id("l"))) })},
		{"in-right", one(func(e *rt.Node) *rt.Node { return rt.Assign("=", Id("x"), rt.In(I(1), e)) })},
		// behind a logical operator whose left operand is a literal that decides it; inside the operand of `in` and of a for-in header at depth
		{"cond-false-and", one(func(e *rt.Node) *rt.Node { return rt.If(rt.Bin("&&", rt.Bool(false), e), rt.Block()) })},
		{"assign-true-or", one(func(e *rt.Node) *rt.Node { return rt.Assign("=", Id("x"), rt.Bin("||", rt.Bool(true), e)) })},
		{"arg-false-and", one(func(e *rt.Node) *rt.Node { return rt.Call("p", rt.Bin("&&", rt.Bool(false), rt.Bin("||", rt.Bool(true), e))) })},
		{"cond-nil-and", one(func(e *rt.Node) *rt.Node { return rt.If(rt.Bin("&&", rt.Bin("==", I(1), I(2)), e), rt.Block()) })},
		{"in-right-index", one(func(e *rt.Node) *rt.Node { return rt.Assign("=", Id("x"), rt.In(I(1), rt.Index("a", e))) })},
		{"in-right-index-2", one(func(e *rt.Node) *rt.Node { return rt.If(rt.In(I(1), rt.Index("a", S("k"), e)), rt.Block()) })},
		{"in-right-slice", one(func(e *rt.Node) *rt.Node { return rt.Assign("=", Id("x"), rt.In(I(1), rt.Slice(Id("l"), I(1), e, nil, false))) })},
		{"in-right-paren", one(func(e *rt.Node) *rt.Node { return rt.Assign("=", Id("x"), rt.In(S("a"), rt.Paren(e))) })},
		{"in-right-arith", one(func(e *rt.Node) *rt.Node { return rt.Assign("=", Id("x"), rt.In(S("a"), rt.Paren(rt.Bin("+", S("ab"), e)))) })},
		{"in-right-list-index", one(func(e *rt.Node) *rt.Node { return rt.Assign("=", Id("x"), rt.In(I(1), rt.List(I(1), rt.Index("a", e)))) })},
		{"forin-iter-index", one(func(e *rt.Node) *rt.Node { return rt.ForIn("v", rt.Index("a", e), rt.Block()) })},
		{"forin-iter-slice", one(func(e *rt.Node) *rt.Node { return rt.ForIn("v", rt.Slice(Id("l"), nil, nil, e, true), rt.Block()) })},
		{"forin-iter-list-elem-arith", one(func(e *rt.Node) *rt.Node { return rt.ForIn("v", rt.List(rt.Bin("+", I(1), e)), rt.Block()) })},
		{"paren", one(func(e *rt.Node) *rt.Node { return rt.Assign("=", Id("x"), rt.Paren(rt.Paren(e))) })},
		{"slice-object", one(func(e *rt.Node) *rt.Node { return rt.Assign("=", Id("x"), rt.Slice(e, I(0), I(1), nil, false)) })},
		{"deep-block", one(func(e *rt.Node) *rt.Node {
			return rt.For(nil, nil, nil, rt.Block(rt.If(Id("c"), rt.Block(rt.ForIn("v", Id("l"), rt.Block(rt.If(Id("d"), rt.Block(), rt.Block(e)))))), rt.Break()))
		})},
	}
	many := func(f func(e *rt.Node) []*rt.Node) func(e *rt.Node) []*rt.Node {
		return func(e *rt.Node) []*rt.Node {
			out := f(e)
			for i := range out {
				out[i] = rt.Normalize(out[i])
			}
			return out
		}
	}
	cs = append(cs,
		// after a break / continue met earlier in the same loop body (the rest of the body is still checked)
		c08Ctx{"loop-body-after-break-in-if", one(func(e *rt.Node) *rt.Node {
			return rt.For(nil, Id("c"), nil, rt.Block(rt.If(Id("d"), rt.Block(rt.Break())), e))
		})},
		c08Ctx{"loop-body-after-continue-in-elif", one(func(e *rt.Node) *rt.Node {
			return rt.ForIn("v", Id("l"), rt.Block(rt.If(Id("c"), rt.Block(), Id("d"), rt.Block(rt.Continue())), rt.If(Id("v"), rt.Block(e))))
		})},
		c08Ctx{"loop-body-after-bare-break", one(func(e *rt.Node) *rt.Node { return rt.For(nil, Id("c"), nil, rt.Block(rt.Break(), e)) })},
		c08Ctx{"loop-body-after-bare-continue", one(func(e *rt.Node) *rt.Node { return rt.ForIn("v", Id("l"), rt.Block(rt.Continue(), rt.Call("p", e))) })},
		c08Ctx{"outer-body-after-inner-loop-with-break", one(func(e *rt.Node) *rt.Node {
			return rt.ForIn("v", Id("l"), rt.Block(rt.For(nil, nil, nil, rt.Block(rt.Break())), e))
		})},
		c08Ctx{"after-loop-with-break-in-if", many(func(e *rt.Node) []*rt.Node {
			return []*rt.Node{rt.For(nil, Id("c"), nil, rt.Block(rt.If(Id("d"), rt.Block(rt.Break()), rt.Block(rt.Continue())))), e}
		})},
		// after text that is not ASCII (byte offsets and character counts differ from here on)
		c08Ctx{"after-non-ascii-line", many(func(e *rt.Node) []*rt.Node {
			return []*rt.Node{rt.Assign("=", Id("s"), S("héé 日本語")), rt.Assign("=", Id("y"), I(1)), e}
		})},
		c08Ctx{"after-non-ascii-same-line", one(func(e *rt.Node) *rt.Node { return rt.Assign("=", Id("x"), rt.List(S("é日"), e)) })},
		c08Ctx{"after-non-ascii-identifier", many(func(e *rt.Node) []*rt.Node {
			return []*rt.Node{rt.Assign("=", rt.QId("клю́ч"), I(1)), rt.If(Id("c"), rt.Block(rt.Call("p", rt.QId("клю́ч")), e))}
		})},
	)
	for _, op := range []string{"+=", "-=", "*=", "/=", "%="} {
		op := op
		cs = append(cs, c08Ctx{"compound-rhs" + op, one(func(e *rt.Node) *rt.Node { return rt.Assign(op, Id("x"), e) })})
	}
	// every slice bound in every form where that bound exists
	for mask := 1; mask < 8; mask++ {
		for which := 0; which < 3; which++ {
			if mask&(1<<uint(which)) == 0 {
				continue
			}
			for _, objLit := range []bool{false, true} {
				colons := []bool{true}
				if mask&4 == 0 {
					colons = []bool{false, true}
				}
				for _, c2 := range colons {
					mask, which, objLit, c2 := mask, which, objLit, c2
					name := fmt.Sprintf("slice-%s-form%d-lit%v-colon2%v", []string{"start", "end", "step"}[which], mask, objLit, c2)
					cs = append(cs, c08Ctx{name, one(func(e *rt.Node) *rt.Node {
						var b [3]*rt.Node
						for i := 0; i < 3; i++ {
							if mask&(1<<uint(i)) != 0 {
								b[i] = I(int64(i + 1))
							}
						}
						b[which] = e
						var obj *rt.Node = Id("a")
						if objLit {
							obj = rt.List(I(1), I(2))
						}
						return rt.Assign("=", Id("x"), rt.Slice(obj, b[0], b[1], b[2], c2))
					})})
				}
			}
		}
	}
	return cs
}

var c08CtxByName = func() map[string]func(e *rt.Node) []*rt.Node {
	m := map[string]func(e *rt.Node) []*rt.Node{}
	for _, c := range c08Contexts() {
		m[c.Name] = c.Build
	}
	return m
}()

// c08CtxClass strips the form details of a slice context name.
func c08CtxClass(name string) string {
	if i := strings.Index(name, "-form"); i > 0 {
		return name[:i]
	}
	return name
}

type c08Loader struct {
	v2      bool
	removed string
	nocheck string
	nocall  string
	call    map[string]plrt.FuncCall
	check   map[string]plrt.FuncCheck
}

func newC08Loader(v2 bool, removed, nocheck string) *c08Loader {
	l := &c08Loader{v2: v2, removed: removed, nocheck: nocheck}
	l.call, l.check = drv.Tables()
	if removed != "" {
		delete(l.call, removed)
		delete(l.check, removed)
	}
	if nocheck != "" {
		delete(l.check, nocheck)
	}
	return l
}

func (l *c08Loader) withoutCall(name string) *c08Loader {
	l.nocall = name
	delete(l.call, name)
	return l
}

func (l *c08Loader) load(src string) error {
	if l.v2 {
		_, err := drv.LoadV2("s.p", src)
		return err
	}
	_, errs := drv.LoadWith(map[string]string{"s.p": src, "other.p": "p(1)"}, l.call, l.check)
	if e, bad := errs["s.p"]; bad {
		return e
	}
	return nil
}

// c08Try loads one program. offender == nil: the program is valid and must load.
func c08Try(w *run.Worker, l *c08Loader, part string, stmts []*rt.Node, offender *rt.Node, keyExtra string) {
	src, _ := rt.PrintProg(stmts, nil)
	w.Eval()
	err := l.load(src)
	cs := c08Case{Source: src, V2: l.v2, Removed: l.removed, NoCheck: l.nocheck, NoCall: l.nocall, Lo: -1, Hi: -1}
	tag := "v1"
	if l.v2 {
		tag = "v2"
	}
	if lp, ok := err.(*drv.LoadPanic); ok {
		w.Outcome("panic")
		w.Violate("C08:"+tag+":load-panics:"+panicSiteLoad(lp.Stack), fmt.Sprintf("loading panicked: %s\n%s", lp.Msg, src), cs)
		return
	}
	if offender == nil {
		w.Outcome("accept|" + part + "|" + keyExtra)
		if err != nil {
			w.Violate("C08:"+tag+":valid-program-rejected:"+part+":"+keyExtra, fmt.Sprintf("valid program rejected: %v\n%s", err, src), cs)
		}
		return
	}
	cs.Lo, cs.Hi = offender.Start, offender.End
	if err == nil {
		w.Outcome("accept!")
		// classify: is the position blind (an unknown function is accepted there too) or is it this offender?
		key := "offender=" + keyExtra
		if ctxB, ok := c08CtxByName[part]; ok {
			probe, _ := rt.PrintProg(ctxB(rt.Call("nosuch_fn")), nil)
			if l.load(probe) == nil {
				key = "position-not-checked=" + c08CtxClass(part)
			}
		}
		w.Violate("C08:"+tag+":offender-accepted:"+key, fmt.Sprintf("invalid construct %q accepted at load time\n%s", src[offender.Start:offender.End], src), cs)
		return
	}
	w.Outcome("reject|" + part + "|" + keyExtra)
	pe, ok := err.(*errchain.PlError)
	if !ok || len(pe.PosChain) == 0 {
		w.Violate("C08:"+tag+":error-without-position", fmt.Sprintf("%T %v\n%s", err, err, src), cs)
		return
	}
	p0 := pe.PosChain[0]
	if p0.File != "s.p" || p0.Pos < offender.Start || p0.Pos >= offender.End {
		w.Violate("C08:"+tag+":error-not-at-offender:"+keyExtra, fmt.Sprintf("error %q at offset %d (%d:%d), the offending construct %q spans [%d,%d)\n%s",
			pe.Err, p0.Pos, p0.Ln, p0.Col, src[offender.Start:offender.End], offender.Start, offender.End, src), cs)
		return
	}
	ln, col := scanLnCol(src, p0.Pos)
	if ln != p0.Ln || col != p0.Col {
		w.Violate("C08:"+tag+":error-lncol-inconsistent", fmt.Sprintf("offset %d rendered %d:%d, it is %d:%d\n%s", p0.Pos, p0.Ln, p0.Col, ln, col, src), cs)
	}
}

func panicSiteLoad(stack string) string {
	return panicSite(stack)
}

func c08Run(w *run.Worker) {
	rules := c08Rules()
	ctxs := c08Contexts()
	I, Id := rt.Int, rt.Id
	full := newC08Loader(false, "", "")
	v2l := newC08Loader(true, "", "")
	needsCall := func(c c08Ctx) bool { return c.Name == "slice-object" }
	_ = needsCall
	// ---- v1, full table: every context x every offender
	type off struct {
		name string
		f    nodeFn
	}
	var offs []off
	offs = append(offs, off{"unknown-function", func() *rt.Node { return rt.Call("nosuch") }})
	offs = append(offs, off{"unknown-function", func() *rt.Node { return rt.Call("nosuch", I(1), Id("x")) }})
	// names are case-sensitive: these are not the registered len / add_key / uppercase
	offs = append(offs, off{"unknown-function-by-case", func() *rt.Node { return rt.Call("LEN", Id("x")) }})
	offs = append(offs, off{"unknown-function-by-case", func() *rt.Node { return rt.Call("Add_Key", Id("k"), I(1)) }})
	offs = append(offs, off{"unknown-function-by-case", func() *rt.Node { return rt.Call("upperCase", Id("k")) }})
	for _, r := range rules {
		for _, o := range r.offenders() {
			offs = append(offs, off{"bad-" + r.Name, o})
		}
	}
	if w.Shard == 0 {
		w.Note("contexts", int64(len(ctxs)))
		w.Note("offenders_v1", int64(len(offs)))
	}
	for _, c := range ctxs {
		for _, o := range offs {
			if strings.HasPrefix(c.Name, "v2-") {
				break
			}
			if !w.Take() {
				continue
			}
			if w.Expired() {
				return
			}
			e := o.f()
			c08Try(w, full, c.Name, c.Build(e), e, o.name)
			if w.WantSample() && w.Index()%997 == 0 {
				src, _ := rt.PrintProg(c.Build(o.f()), nil)
				w.Sample(map[string]any{"context": c.Name, "offender": o.name, "program": src})
			}
		}
		// converse: every valid call in this context loads
		for _, r := range rules {
			if strings.HasPrefix(c.Name, "v2-") {
				break
			}
			top := r.Max
			if top < 0 {
				top = 4
			}
			for n := r.Min; n <= top; n++ {
				if !w.Take() {
					continue
				}
				c08Try(w, full, c.Name, c.Build(r.validCall(n)), nil, r.Name)
			}
		}
		if !strings.HasPrefix(c.Name, "v2-") {
			if w.Take() {
				c08Try(w, full, c.Name, c.Build(rt.Call("exit")), nil, "exit")
			}
			if w.Take() {
				c08Try(w, full, c.Name, c.Build(rt.Call("exit", I(1), I(2))), nil, "exit")
			}
		}
		// ---- v2: unknown function, unbindable arguments
		v2offs := []off{
			{"unknown-function", func() *rt.Node { return rt.Call("nosuch") }},
			{"unknown-function", func() *rt.Node { return rt.Call("add_key", Id("k"), I(1)) }},
			{"unknown-function-by-case", func() *rt.Node { return rt.Call("ID", I(1)) }},
			{"unknown-function-by-case", func() *rt.Node { return rt.Call("camelid", I(1)) }},
			{"missing-argument", func() *rt.Node { return rt.Call("id") }},
			{"surplus-argument", func() *rt.Node { return rt.Call("id", I(1), I(2)) }},
			{"unknown-named-argument", func() *rt.Node { return rt.Call("id", rt.Named("zz", I(1))) }},
			{"surplus-argument", func() *rt.Node { return rt.Call("one", I(1)) }},
			{"named-with-variadic", func() *rt.Node { return rt.Call("p", rt.Named("args", I(1))) }},
			{"positional-and-named-duplicate", func() *rt.Node { return rt.Call("id", I(1), rt.Named("x", I(2))) }},
			{"named-duplicate", func() *rt.Node { return rt.Call("id", rt.Named("x", I(1)), rt.Named("x", I(2))) }},
			{"positional-after-named", func() *rt.Node { return rt.Call("id", rt.Named("x", I(1)), I(2)) }},
			// enough arguments by count, a required parameter left out all the same
			{"missing-required-among-named", func() *rt.Node { return rt.Call("move", I(1), rt.Named("keep", rt.Bool(true))) }},
			{"missing-required-among-named", func() *rt.Node { return rt.Call("move", rt.Named("to", I(2)), rt.Named("keep", rt.Bool(true))) }},
			{"missing-required-among-named", func() *rt.Node { return rt.Call("move", rt.Named("keep", rt.Bool(true)), rt.Named("from", I(1))) }},
			{"missing-argument", func() *rt.Node { return rt.Call("move", I(1)) }},
			{"surplus-argument", func() *rt.Node { return rt.Call("move", I(1), I(2), rt.Bool(true), I(4)) }},
		}
		v1only := map[string]bool{"builtin-arg": true, "len-arg": true, "strfmt-arg": true, "call-named-arg": true, "call-depth-2-named": true}
		if v1only[c.Name] {
			continue
		}
		for _, o := range v2offs {
			if !w.Take() {
				continue
			}
			e := o.f()
			c08Try(w, v2l, c.Name, c.Build(e), e, o.name)
		}
		for _, ok := range []nodeFn{
			func() *rt.Node { return rt.Call("id", I(1)) }, func() *rt.Node { return rt.Call("id", rt.Named("x", I(1))) },
			func() *rt.Node { return rt.Call("one") }, func() *rt.Node { return rt.Call("p") }, func() *rt.Node { return rt.Call("p", I(1), I(2), I(3)) },
			func() *rt.Node { return rt.Call("void", rt.Call("two")) },
			func() *rt.Node { return rt.Call("camelId", I(1)) },
			func() *rt.Node { return rt.Call("move", I(1), I(2)) }, func() *rt.Node { return rt.Call("move", I(1), I(2), rt.Bool(true)) },
			func() *rt.Node { return rt.Call("move", rt.Named("to", I(2)), rt.Named("from", I(1))) }, func() *rt.Node { return rt.Call("move", I(1), rt.Named("keep", rt.Bool(true)), rt.Named("to", I(2))) },
		} {
			if !w.Take() {
				continue
			}
			c08Try(w, v2l, c.Name, c.Build(ok()), nil, "valid-v2-call")
		}
	}
	// ---- break / continue placement (both check passes)
	type bc struct {
		name  string
		build func(kw func() *rt.Node) ([]*rt.Node, *rt.Node) // returns program and the offender (nil = valid)
	}
	loopBody := func(s ...*rt.Node) *rt.Node { return rt.For(nil, Id("c"), nil, rt.Block(s...)) }
	bcs := []bc{
		{"top-level", func(kw func() *rt.Node) ([]*rt.Node, *rt.Node) { k := kw(); return []*rt.Node{rt.Call("p", I(1)), k}, k }},
		{"in-if-outside-loop", func(kw func() *rt.Node) ([]*rt.Node, *rt.Node) {
			k := kw()
			return []*rt.Node{rt.If(Id("c"), rt.Block(k))}, k
		}},
		{"in-else-outside-loop", func(kw func() *rt.Node) ([]*rt.Node, *rt.Node) {
			k := kw()
			return []*rt.Node{rt.If(Id("c"), rt.Block(), rt.Block(rt.If(Id("d"), rt.Block(k))))}, k
		}},
		{"after-for-ended", func(kw func() *rt.Node) ([]*rt.Node, *rt.Node) {
			k := kw()
			return []*rt.Node{loopBody(rt.Break()), k}, k
		}},
		{"after-forin-ended", func(kw func() *rt.Node) ([]*rt.Node, *rt.Node) {
			k := kw()
			return []*rt.Node{rt.ForIn("v", Id("l"), rt.Block(rt.Continue())), rt.Call("p", I(1)), k}, k
		}},
		{"after-nested-loops-ended", func(kw func() *rt.Node) ([]*rt.Node, *rt.Node) {
			k := kw()
			return []*rt.Node{loopBody(loopBody(rt.Break()), rt.Break()), rt.If(Id("c"), rt.Block(k))}, k
		}},
		{"in-if-after-loop-in-same-block", func(kw func() *rt.Node) ([]*rt.Node, *rt.Node) {
			k := kw()
			return []*rt.Node{rt.If(Id("c"), rt.Block(loopBody(rt.Continue()), k))}, k
		}},
		// valid placements
		{"valid-in-for", func(kw func() *rt.Node) ([]*rt.Node, *rt.Node) { return []*rt.Node{loopBody(kw())}, nil }},
		{"valid-in-forin", func(kw func() *rt.Node) ([]*rt.Node, *rt.Node) {
			return []*rt.Node{rt.ForIn("v", Id("l"), rt.Block(kw()))}, nil
		}},
		{"valid-in-if-in-loop", func(kw func() *rt.Node) ([]*rt.Node, *rt.Node) {
			return []*rt.Node{loopBody(rt.If(Id("c"), rt.Block(kw()), rt.Block(rt.If(Id("d"), rt.Block(kw())))))}, nil
		}},
		{"valid-in-outer-after-inner-ended", func(kw func() *rt.Node) ([]*rt.Node, *rt.Node) {
			return []*rt.Node{loopBody(loopBody(rt.Break()), kw())}, nil
		}},
		{"valid-in-outer-after-inner-forin-ended", func(kw func() *rt.Node) ([]*rt.Node, *rt.Node) {
			return []*rt.Node{rt.ForIn("v", Id("l"), rt.Block(rt.ForIn("u", Id("l"), rt.Block(rt.Continue())), rt.If(Id("c"), rt.Block(kw()))))}, nil
		}},
	}
	// every loop form (all 8 three-clause shapes and for-in, each with an empty and a non-empty body) followed by a stray keyword
	loopForms := []struct {
		name string
		mk   func() *rt.Node
	}{}
	for mask := 0; mask < 8; mask++ {
		for _, empty := range []bool{true, false} {
			mask, empty := mask, empty
			loopForms = append(loopForms, struct {
				name string
				mk   func() *rt.Node
			}{fmt.Sprintf("for-shape%d-empty%v", mask, empty), func() *rt.Node {
				var in, c, st *rt.Node
				if mask&1 != 0 {
					in = rt.Assign("=", Id("i"), I(0))
				}
				if mask&2 != 0 {
					c = rt.Bin("<", Id("i"), I(3))
				}
				if mask&4 != 0 {
					st = rt.Assign("=", Id("i"), rt.Bin("+", Id("i"), I(1)))
				}
				if empty {
					return rt.For(in, c, st, rt.Block())
				}
				return rt.For(in, c, st, rt.Block(rt.Call("p", Id("i")), rt.If(Id("c"), rt.Block(rt.Break()))))
			}})
		}
	}
	for _, empty := range []bool{true, false} {
		empty := empty
		loopForms = append(loopForms, struct {
			name string
			mk   func() *rt.Node
		}{fmt.Sprintf("forin-empty%v", empty), func() *rt.Node {
			if empty {
				return rt.ForIn("v", Id("l"), rt.Block())
			}
			return rt.ForIn("v", Id("l"), rt.Block(rt.Continue()))
		}})
	}
	for _, lf := range loopForms {
		lf := lf
		bcs = append(bcs,
			bc{"after-" + lf.name, func(kw func() *rt.Node) ([]*rt.Node, *rt.Node) {
				k := kw()
				return []*rt.Node{lf.mk(), k}, k
			}},
			bc{"in-if-after-" + lf.name, func(kw func() *rt.Node) ([]*rt.Node, *rt.Node) {
				k := kw()
				return []*rt.Node{lf.mk(), rt.Call("p", I(1)), rt.If(Id("c"), rt.Block(), rt.Block(k))}, k
			}},
			bc{"valid-in-outer-after-inner-" + lf.name, func(kw func() *rt.Node) ([]*rt.Node, *rt.Node) {
				return []*rt.Node{rt.ForIn("w", Id("l"), rt.Block(lf.mk(), kw()))}, nil
			}},
			bc{"after-nested-" + lf.name, func(kw func() *rt.Node) ([]*rt.Node, *rt.Node) {
				k := kw()
				return []*rt.Node{rt.If(Id("c"), rt.Block(rt.ForIn("w", Id("l"), rt.Block(lf.mk())))), k}, k
			}},
		)
	}
	for _, b := range bcs {
		for ki, kw := range []func() *rt.Node{rt.Break, rt.Continue} {
			for _, ld := range []*c08Loader{full, v2l} {
				if !w.Take() {
					continue
				}
				prog, offender := b.build(kw)
				c08Try(w, ld, "break-continue", prog, offender, b.name+[]string{":break", ":continue"}[ki])
			}
		}
	}
	// valid scripts whose grok patterns refer to definitions of enclosing blocks while the block itself
	// holds definitions of its own: never rejected
	{
		S := rt.Str
		ap := func(n, pat string) *rt.Node { return rt.Call("add_pattern", S(n), S(pat)) }
		gk := func(pat string) *rt.Node { return rt.Call("grok", Id("_"), S(pat)) }
		for i, prog := range [][]*rt.Node{
			{ap("outer_num", "\\d+"), rt.If(Id("c"), rt.Block(ap("inner_word", "[a-z]+"), gk("%{inner_word:w} %{outer_num:n}")))},
			{ap("outer_num", "\\d+"), rt.ForIn("v", Id("l"), rt.Block(ap("pair", "%{outer_num:a}-%{outer_num:b}"), gk("%{pair}"), rt.If(Id("v"), rt.Block(ap("deep", "x"), gk("%{deep}%{outer_num:n}%{pair}")))))},
			{ap("a1", "a"), rt.If(Id("c"), rt.Block(gk("%{a1}")), Id("d"), rt.Block(ap("b1", "b"), gk("%{a1}%{b1}")), rt.Block(ap("c1", "%{a1}c"), gk("%{c1}%{INT:i}")))},
			{rt.For(nil, Id("c"), nil, rt.Block(ap("w1", "\\w+"), rt.For(nil, Id("d"), nil, rt.Block(ap("w2", "%{w1}!"), gk("%{w2} %{w1} %{WORD:x}"), rt.Break())), rt.Break()))},
		} {
			if w.Take() {
				c08Try(w, full, "valid-pattern-scoping", prog, nil, fmt.Sprint(i))
				// directly afterwards: the same script without its definitions — every grok in it now names
				// patterns nobody has defined, whatever an earlier load has seen under those names
				valid, _ := rt.PrintProg(prog, nil)
				src, _ := rt.PrintProg(c08Strip(prog, "add_pattern"), nil)
				w.Eval()
				if err := full.load(src); err == nil {
					w.Violate("C08:v1:offender-accepted:pattern-defined-only-in-a-script-loaded-before", fmt.Sprintf("a script using patterns that only the script loaded before it defined is accepted\n--- loaded before ---\n%s--- accepted ---\n%s", valid, src),
						c08Case{Source: src, Lo: 0, Hi: len(src), Before: valid})
				}
				// and each of its grok calls alone, at the top and inside a block (the valid script is loaded
				// again before each: what it left behind is what the lone call must not profit from)
				var texts []string
				var walk func(ns []*rt.Node)
				walk = func(ns []*rt.Node) {
					for _, n := range ns {
						if n == nil {
							continue
						}
						if n.K == rt.KCall && n.S == "grok" && len(n.Kids) == 2 {
							texts = append(texts, n.Kids[1].S)
						}
						walk(n.Kids)
					}
				}
				walk(prog)
				for _, tx := range texts {
					for form := 0; form < 3; form++ {
						lone := []*rt.Node{gk(tx)}
						switch form {
						case 1:
							lone = []*rt.Node{rt.If(Id("c"), rt.Block(gk(tx)))}
						case 2:
							lone = []*rt.Node{rt.ForIn("v", Id("l"), rt.Block(rt.If(Id("v"), rt.Block(gk(tx)))))}
						}
						lsrc, _ := rt.PrintProg(lone, nil)
						w.Eval()
						_ = full.load(valid)
						if err := full.load(lsrc); err == nil {
							w.Violate("C08:v1:offender-accepted:pattern-defined-only-in-a-script-loaded-before", fmt.Sprintf("a grok call naming patterns that only the script loaded before it defined is accepted\n--- loaded before ---\n%s--- accepted ---\n%s", valid, lsrc),
								c08Case{Source: lsrc, Lo: 0, Hi: len(lsrc), Before: valid})
						}
					}
				}
			}
		}
	}
	c08Recheck(w, rules, ctxs)
	// ---- function tables: each builtin removed in turn / call entry without check entry
	for _, r := range rules {
		for variant := 0; variant < 3; variant++ {
			var ld *c08Loader
			switch variant {
			case 0:
				ld = newC08Loader(false, r.Name, "")
			case 1:
				ld = newC08Loader(false, "", r.Name)
			default:
				ld = newC08Loader(false, "", "").withoutCall(r.Name)
			}
			for ci, c := range ctxs {
				if ci%5 != 0 && !w.Thorough {
					continue
				}
				if c.Name == "len-arg" || c.Name == "builtin-arg" || c.Name == "strfmt-arg" || strings.HasPrefix(c.Name, "v2-") {
					continue // the context itself calls a builtin that may be the removed one
				}
				if !w.Take() {
					continue
				}
				e := r.validCall(r.Min)
				c08Try(w, ld, c.Name, c.Build(e), e, []string{"removed-", "no-check-entry-", "no-call-entry-"}[variant]+r.Name)
			}
			// an unrelated valid program still loads
			if w.Take() {
				other := "len"
				if r.Name == "len" {
					other = "uppercase"
				}
				for _, rr := range rules {
					if rr.Name == other {
						c08Try(w, ld, "statement", []*rt.Node{rr.validCall(rr.Min)}, nil, "unrelated-to-"+r.Name)
					}
				}
			}
		}
	}
}

// c08Recheck: the verdict of the exported Check method on an already loaded
// script depends only on the tree and the table it is given — it equals the
// verdict of a fresh load under that table (the state reached by load-then-
// recheck is compared with the state reached from the initial state).
func c08Recheck(w *run.Worker, rules []c08Rule, ctxs []c08Ctx) {
	I := rt.Int
	errStr := func(e error) string {
		if e == nil {
			return "<accepted>"
		}
		if pe, ok := e.(*errchain.PlError); ok {
			if pe == nil {
				return "<accepted>"
			}
			return pe.Error()
		}
		return e.Error()
	}
	// v1: load under the full table, re-check under the table without this builtin's check entry
	call, check := drv.Tables()
	for _, r := range rules {
		for ci, c := range ctxs {
			if ci%4 != 0 && !w.Thorough {
				continue
			}
			if c.Name == "len-arg" || c.Name == "builtin-arg" || c.Name == "strfmt-arg" || strings.HasPrefix(c.Name, "v2-") {
				continue
			}
			if !w.Take() {
				continue
			}
			src, _ := rt.PrintProg(c.Build(r.validCall(r.Min)), nil)
			cs := c08Case{Source: src, NoCheck: r.Name, Lo: -1, Hi: -1, Recheck: true}
			w.Eval()
			ok, errs := drv.LoadWith(map[string]string{"s.p": src, "other.p": "p(1)"}, call, check)
			if e, bad := errs["s.p"]; bad {
				w.Violate("C08:v1:valid-program-rejected:"+c.Name+":"+r.Name, fmt.Sprintf("valid program rejected: %v\n%s", e, src), cs)
				continue
			}
			sc := ok["s.p"]
			recheck := func(tbl map[string]plrt.FuncCheck) (out string) {
				defer func() {
					if x := recover(); x != nil {
						out = fmt.Sprintf("PANIC %v", x)
					}
				}()
				if e := sc.Check(tbl); e != nil {
					return e.Error()
				}
				return "<accepted>"
			}
			if got := recheck(check); got != "<accepted>" {
				w.Violate("C08:v1:recheck:second-check-under-same-table-differs", fmt.Sprintf("loaded, then Check with the same table: %s\n%s", got, src), cs)
			}
			reduced := map[string]plrt.FuncCheck{}
			for k, v := range check {
				if k != r.Name {
					reduced[k] = v
				}
			}
			_, ferrs := drv.LoadWith(map[string]string{"s.p": src, "other.p": "p(1)"}, call, reduced)
			fresh := errStr(ferrs["s.p"])
			got := recheck(reduced)
			w.Outcome("recheck|" + r.Name + "|" + b2s(got == fresh))
			if got != fresh {
				w.Violate("C08:v1:recheck:differs-from-fresh-load-under-that-table", fmt.Sprintf("loaded under the full table, then Check(table without %s): %s\nfresh load under that table: %s\n%s", r.Name, got, fresh, src), cs)
			}
			if got := recheck(check); got != "<accepted>" {
				w.Violate("C08:v1:recheck:check-under-first-table-after-another-differs", fmt.Sprintf("%s\n%s", got, src), cs)
			}
		}
	}
	// v2: the probe table with `id` declared with different parameter lists
	mkID, variants := c08MkID, c08IDVariants()
	calls := []nodeFn{
		func() *rt.Node { return rt.Call("id") }, func() *rt.Node { return rt.Call("id", I(1)) }, func() *rt.Node { return rt.Call("id", I(1), I(2)) },
		func() *rt.Node { return rt.Call("id", rt.Named("x", I(1))) }, func() *rt.Node { return rt.Call("id", rt.Named("z", I(1))) },
		func() *rt.Node { return rt.Call("id", I(1), rt.Named("y", I(2))) }, func() *rt.Node { return rt.Call("id", rt.Named("y", I(2)), rt.Named("x", I(1))) },
		func() *rt.Node { return rt.Call("id", I(1), I(2), I(3)) },
	}
	v1only := map[string]bool{"builtin-arg": true, "len-arg": true, "strfmt-arg": true, "call-named-arg": true, "call-depth-2-named": true}
	for ci, c := range ctxs {
		if (ci%6 != 0 && !w.Thorough) || v1only[c.Name] {
			continue
		}
		for _, mk := range calls {
			src, _ := rt.PrintProg(c.Build(mk()), nil)
			for ai, a := range variants {
				if !w.Take() {
					continue
				}
				ta := mkID(a.ps)
				w.Eval()
				sc, err := c08ParseV2(src, ta)
				if err != nil {
					continue
				}
				for bi, b := range variants {
					if ai == bi {
						continue
					}
					tb := mkID(b.ps)
					_, ferr := c08ParseV2(src, tb)
					fresh := errStr(ferr)
					sc.Fn = tb
					got := func() (out string) {
						defer func() {
							if x := recover(); x != nil {
								out = fmt.Sprintf("PANIC %v", x)
							}
						}()
						if e := sc.Check(); e != nil {
							return e.Error()
						}
						return "<accepted>"
					}()
					w.Eval()
					w.Outcome("recheck-v2|" + a.name + "|" + b.name + "|" + b2s(got == fresh))
					if got != fresh {
						w.Violate("C08:v2:recheck:differs-from-fresh-load-under-that-table",
							fmt.Sprintf("loaded with id%s, then Check() with id%s: %s\nfresh load with id%s: %s\n%s", a.name, b.name, got, b.name, fresh, src),
							c08Case{Source: src, V2: true, Lo: -1, Hi: -1, Recheck: true, TableA: a.name, TableB: b.name})
					}
				}
			}
		}
	}
}

func c08MkID(params []*v2.Param) map[string]*v2.Fn {
	t := drv.V2Fns()
	ps := params
	t["id"] = &v2.Fn{
		Desc:      v2.FnDesc{Name: "id", Params: ps, Returns: []*v2.Param{{Desc: "value"}}},
		CallCheck: func(ctx *v2.Task, e *ast.CallExpr) *errchain.PlError { return v2.CheckPassParam(ctx, e, ps) },
		Call: func(ctx *v2.Task, e *ast.CallExpr) *errchain.PlError {
			ctx.Regs.ReturnAppend(v2.V{V: int64(1), T: ast.Int})
			return nil
		},
	}
	return t
}

type c08IDVariant struct {
	name string
	ps   []*v2.Param
}

func c08IDVariants() []c08IDVariant {
	dflt := func() any { return int64(9) }
	return []c08IDVariant{
		{"()", nil}, {"(x)", []*v2.Param{{Name: "x"}}}, {"(x, y)", []*v2.Param{{Name: "x"}, {Name: "y"}}}, {"(z)", []*v2.Param{{Name: "z"}}},
		{"(x, y=9)", []*v2.Param{{Name: "x"}, {Name: "y", Val: dflt}}}, {"(...x)", []*v2.Param{{Name: "x", Variable: true}}},
	}
}

// c08RecheckReplay re-executes one recorded re-check case.
func c08RecheckReplay(c c08Case) (bool, string) {
	str := func(e error) string {
		if e == nil {
			return "<accepted>"
		}
		return e.Error()
	}
	if c.V2 {
		var a, b []*v2.Param
		for _, v := range c08IDVariants() {
			if v.name == c.TableA {
				a = v.ps
			}
			if v.name == c.TableB {
				b = v.ps
			}
		}
		sc, err := c08ParseV2(c.Source, c08MkID(a))
		if err != nil {
			return false, "does not load under table A: " + err.Error()
		}
		_, ferr := c08ParseV2(c.Source, c08MkID(b))
		sc.Fn = c08MkID(b)
		got := "<accepted>"
		if e := sc.Check(); e != nil {
			got = e.Error()
		}
		return got != str(ferr), fmt.Sprintf("re-check under id%s: %s\nfresh load under id%s: %s", c.TableB, got, c.TableB, str(ferr))
	}
	call, check := drv.Tables()
	ok, errs := drv.LoadWith(map[string]string{"s.p": c.Source, "other.p": "p(1)"}, call, check)
	if e, bad := errs["s.p"]; bad {
		return true, "valid program rejected: " + e.Error()
	}
	reduced := map[string]plrt.FuncCheck{}
	for k, v := range check {
		if k != c.NoCheck {
			reduced[k] = v
		}
	}
	_, ferrs := drv.LoadWith(map[string]string{"s.p": c.Source, "other.p": "p(1)"}, call, reduced)
	got := "<accepted>"
	if e := ok["s.p"].Check(reduced); e != nil {
		got = e.Error()
	}
	again := "<accepted>"
	if e := ok["s.p"].Check(check); e != nil {
		again = e.Error()
	}
	return got != str(ferrs["s.p"]) || again != "<accepted>", fmt.Sprintf("re-check without %s: %s\nfresh load under that table: %s\nfirst table again: %s", c.NoCheck, got, str(ferrs["s.p"]), again)
}

func b2s(b bool) string {
	if b {
		return "same"
	}
	return "differs"
}

func c08ParseV2(src string, t map[string]*v2.Fn) (sc *v2.Script, err error) {
	defer func() {
		if r := recover(); r != nil {
			sc, err = nil, fmt.Errorf("PANIC %v", r)
		}
	}()
	return engine.ParseV2("s.p", src, t)
}

func c08Replay(raw json.RawMessage) (bool, string) {
	var c c08Case
	if err := json.Unmarshal(raw, &c); err != nil {
		return false, err.Error()
	}
	if c.Recheck {
		return c08RecheckReplay(c)
	}
	l := newC08Loader(c.V2, c.Removed, c.NoCheck)
	if c.NoCall != "" {
		l.withoutCall(c.NoCall)
	}
	if c.Before != "" {
		_ = l.load(c.Before)
	}
	err := l.load(c.Source)
	if _, ok := err.(*drv.LoadPanic); ok {
		return true, err.Error()
	}
	if c.Lo < 0 {
		return err != nil, fmt.Sprintf("valid program: load error = %v", err)
	}
	if err == nil {
		return true, "offender accepted: " + c.Source[c.Lo:c.Hi]
	}
	pe, ok := err.(*errchain.PlError)
	if !ok || len(pe.PosChain) == 0 {
		return true, "error without position: " + err.Error()
	}
	p := pe.PosChain[0].Pos
	return p < c.Lo || p >= c.Hi, fmt.Sprintf("error %q at offset %d, offender %q spans [%d,%d)", strings.TrimSpace(pe.Err), p, c.Source[c.Lo:c.Hi], c.Lo, c.Hi)
}

func init() {
	run.Register(&run.Check{
		ID:    "C08",
		Level: "model_checking",
		Rule: "every syntactic position (100+ contexts: conditions, every for clause as expression and assignment, bodies, list/map elements at depth, map keys, every index level incl. LHS, slice object and every start/end/step bound in every form where it exists on identifier and literal objects, positional/named call arguments at depth 1-2, both sides of all 6 assignment kinds and tuple assignment, unary/binary/in/paren operands, attribute parts, deep blocks) " +
			"x every offender (unknown function; for each of 22 builtins every wrong argument count 0..4 and every wrong argument kind its rule forbids) on the v1 check pass; v2: unknown function and every unbindable call shape; break/continue in 7 invalid and 5 valid hand-written placements plus, for each of the 18 loop forms (8 three-clause shapes and for-in, empty and non-empty body), after the loop, in an if after it, after a nested one, and validly in an outer loop after an inner one — on both passes; " +
			"function tables: full, each builtin removed, each call entry without check entry; re-check: a loaded script's exported Check under another table (v1: each builtin's check entry removed; v2: id declared with 6 parameter lists, 8 call shapes) gives the verdict and message of a fresh load under that table, and the first table's verdict again afterwards; contexts also after break/continue met earlier in the loop body and after non-ASCII text; oracle: rejected iff offender present, first error position inside the offender's byte extent; every valid call of every builtin loads in every context",
		Assumptions: []string{"the per-builtin argument rules are the reference table of DESIGN.md appendix A (arity range and literal-kind constraints)"},
		Run:            c08Run,
		Replay:         c08Replay,
		QuickBudget:    4 * time.Minute,
		ThoroughBudget: 15 * time.Minute,
	})
}
