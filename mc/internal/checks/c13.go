package checks

import (
	"encoding/json"
	"fmt"
	"sort"
	"strings"
	"time"

	"github.com/GuanceCloud/platypus/pkg/errchain"

	"verif/mc/internal/drv"
	"verif/mc/internal/ref"
	"verif/mc/internal/rt"
	"verif/mc/internal/run"
)

// C13 — use() shares the point but not variables; exit() ends only its own script.

type c13Case struct {
	Scripts map[string]string `json:"scripts"`
	Main    string            `json:"main"`
	Second  map[string]string `json:"second_set,omitempty"` // two-deployments part: the set loaded afterwards
	Polls   int               `json:"polls,omitempty"`
	Capture bool              `json:"compare_stdout,omitempty"`
}

func c13Point() PointSpec {
	return PointSpec{Meas: "m", Fields: map[string]any{"message": "msg"}}
}

// chainCheck compares the position chain of a real error with the reference
// error: script names innermost first, the first position inside the failing
// statement, every further position exactly the `use` (or enclosing call)
// site.
func chainCheck(e *errchain.PlError, r *ref.RErr) string {
	if e == nil || r == nil {
		return ""
	}
	if len(e.PosChain) != len(r.Chain) {
		return fmt.Sprintf("chain length %d, reference %d (%v)", len(e.PosChain), len(r.Chain), r.Chain)
	}
	for i, pc := range e.PosChain {
		if pc.File != r.Chain[i] {
			return fmt.Sprintf("chain entry %d names %q, reference %q", i, pc.File, r.Chain[i])
		}
	}
	if r.Stmt != nil && r.Stmt.Start >= 0 {
		p0 := e.PosChain[0].Pos
		if p0 < r.Stmt.Start || p0 >= r.Stmt.End {
			return fmt.Sprintf("first position %d lies outside the failing statement [%d,%d)", p0, r.Stmt.Start, r.Stmt.End)
		}
	}
	for i, site := range r.Sites {
		if i+1 >= len(e.PosChain) {
			break
		}
		if got := e.PosChain[i+1].Pos; got != site.Start {
			return fmt.Sprintf("chain entry %d has offset %d, the call site is at %d", i+1, got, site.Start)
		}
	}
	return ""
}

func c13Enum(k int64, children []string) *senum {
	I, S, Id := rt.Int, rt.Str, rt.Id
	simple := []nodeFn{
		func() *rt.Node { return rt.Assign("=", Id("x"), I(k)) },
		func() *rt.Node { return rt.Call("p", I(k), Id("x"), Id("k")) },
		func() *rt.Node { return rt.Call("add_key", Id("k"), Id("x")) },
		func() *rt.Node { return rt.Call("exit") },
		func() *rt.Node { return rt.Call("p", rt.Bin("/", I(1), Id("z"))) },
	}
	for _, c := range children {
		c := c
		simple = append(simple, func() *rt.Node { return rt.Call("use", S(c)) })
	}
	return &senum{
		simple:   simple,
		conds:    []nodeFn{func() *rt.Node { return rt.Bool(true) }},
		forIns:   []func(body *rt.Node) *rt.Node{func(b *rt.Node) *rt.Node { return rt.ForIn("i", rt.List(I(1), I(2)), b) }},
		maxDepth: 2,
		memoS:    map[[3]int]*Fam{},
		memoB:    map[[3]int]*Fam{},
	}
}

// c13Stmts: if-with-else and elif forms are not wanted here; a reduced stmts
// family: simple | if true {B} | for i in [1,2] {B}.
func (e *senum) lite(size int, depth int) Fam {
	var parts []Fam
	if size == 1 {
		parts = append(parts, leavesOf(e.simple))
	}
	if depth < e.maxDepth && size >= 1 {
		inner := size - 1
		for _, c := range e.conds {
			c := c
			parts = append(parts, MapFam(e.liteBlocks(inner, depth+1), func(b any) any { return rt.If(c(), rt.Block(asNodes(b)...)) }))
		}
		for _, fi := range e.forIns {
			fi := fi
			parts = append(parts, MapFam(e.liteBlocks(inner, depth+1), func(b any) any { return fi(rt.Block(asNodes(b)...)) }))
		}
		if inner >= 1 {
			// the statements in an else branch: one that is not taken (what it contains must not leak into
			// the rest of the script, at load time either) and one that is
			parts = append(parts, MapFam(e.liteBlocks(inner, depth+1), func(b any) any {
				return rt.If(rt.Bool(true), rt.Block(), rt.Block(asNodes(b)...))
			}))
			parts = append(parts, MapFam(e.liteBlocks(inner, depth+1), func(b any) any {
				return rt.If(rt.Bool(false), rt.Block(), rt.Block(asNodes(b)...))
			}))
		}
	}
	return Sum(parts...)
}

func (e *senum) liteBlocks(size int, depth int) Fam {
	if size == 0 {
		return Leaves(func() any { return []*rt.Node(nil) })
	}
	parts := []Fam{MapFam(e.lite(size, depth), func(s any) any { return []*rt.Node{s.(*rt.Node)} })}
	for k := 1; k < size; k++ {
		parts = append(parts, Prod(e.lite(k, depth), e.lite(size-k, depth), func(a, b any) any { return []*rt.Node{a.(*rt.Node), b.(*rt.Node)} }))
	}
	if size >= 3 {
		// three statements at top level: 1+1+1
		parts = append(parts, Prod3(e.lite(1, depth), e.lite(1, depth), e.lite(size-2, depth), func(a, b, c any) any {
			return []*rt.Node{a.(*rt.Node), b.(*rt.Node), c.(*rt.Node)}
		}))
	}
	return Sum(parts...)
}

func upTo(e *senum, max int) Fam {
	var parts []Fam
	for s := 0; s <= max; s++ {
		parts = append(parts, e.liteBlocks(s, 0))
	}
	return Sum(parts...)
}

func usesScript(stmts []*rt.Node, name string) bool {
	for _, s := range stmts {
		if s == nil {
			continue
		}
		if s.K == rt.KCall && s.S == "use" && len(s.Kids) == 1 && s.Kids[0].S == name {
			return true
		}
		if usesScript(s.Kids, name) {
			return true
		}
	}
	return false
}

func c13Exec(w *run.Worker, part string, scripts map[string][]*rt.Node) {
	c13ExecP(w, part, &Prog{Scripts: scripts, Main: "a.p", Point: c13Point()})
}

func c13ExecP(w *run.Worker, part string, p *Prog) {
	w.Eval()
	v := Differential(p)
	w.Outcome(v.Outcome)
	if v.Skipped != "" {
		w.Note("unspecified_cells_skipped", 1)
		return
	}
	mk := func() c13Case { return c13Case{Scripts: p.Sources(), Main: "a.p", Polls: p.Polls, Capture: p.Capture} }
	if !v.OK {
		w.Violate("C13:"+part+":"+v.Key, v.What+"\n"+fmtScripts(p.Sources()), mk())
		return
	}
	if v.Real.Err != nil && v.RefErr != nil {
		// the rendered text has one line per chain entry — also when the host runs with debug logging
		// (the loggers then format the error while it is still being built)
		if msg := c13Rendering(v.Real.Err); msg != "" {
			w.Violate("C13:"+part+":error-rendering", msg+"\n"+fmtScripts(p.Sources()), mk())
			return
		}
		drv.Verbose()
		l2, e2 := drv.Load(p.Sources())
		var msg2 string
		if len(e2) == 0 {
			if r2 := drv.Run(l2["a.p"], p.Point.real().Build(), &drv.Sig{FireAt: realPollCap}); r2.Err != nil {
				msg2 = c13Rendering(r2.Err)
			}
		}
		drv.Quiet()
		w.Eval()
		if msg2 != "" {
			w.Violate("C13:"+part+":error-rendering-under-debug-logging", msg2+"\n"+fmtScripts(p.Sources()), mk())
			return
		}
		if msg := chainCheck(v.Real.Err, v.RefErr); msg != "" {
			w.Violate("C13:"+part+":error-chain:"+strings.SplitN(msg, " ", 3)[0]+"-"+strings.SplitN(msg, " ", 3)[1],
				msg+"\nerror: "+v.Real.Err.Error()+"\n"+fmtScripts(p.Sources()), mk())
			return
		}
		w.Note("error_chains_checked", 1)
	}
	if w.WantSample() && w.Index()%4099 == 0 {
		w.Sample(map[string]any{"scripts": p.Sources(), "trace": v.Real.Trace, "point": v.Real.Point})
	}
}

// c13Rendering: Error() = first line "file:ln:col: message", then one "file:ln:col:" line per further entry.
func c13Rendering(e *errchain.PlError) string {
	lines := strings.Split(e.Error(), "\n")
	if len(lines) != len(e.PosChain) {
		return fmt.Sprintf("the error carries %d positions but renders %d lines: %q", len(e.PosChain), len(lines), e.Error())
	}
	for i, p := range e.PosChain {
		if want := fmt.Sprintf("%s:%d:%d:", p.File, p.Ln, p.Col); !strings.HasPrefix(lines[i], want) {
			return fmt.Sprintf("line %d of the rendering is %q, the chain entry is %s", i, lines[i], want)
		}
	}
	return ""
}

func fmtScripts(m map[string]string) string {
	var names []string
	for n := range m {
		names = append(names, n)
	}
	sort.Strings(names)
	var b strings.Builder
	for _, n := range names {
		fmt.Fprintf(&b, "--- %s ---\n%s\n", n, m[n])
	}
	return b.String()
}

func c13Run(w *run.Worker) {
	c13Many(w)
	I, Id := rt.Int, rt.Id
	ea := c13Enum(1, []string{"b.p", "c.p"})
	eb := c13Enum(2, []string{"c.p"})
	ec := c13Enum(3, nil)
	amax, bmax, cmax := 3, 2, 1
	if w.Thorough {
		bmax, cmax = 3, 2
	}
	fa, fb, fc := upTo(ea, amax), upTo(eb, bmax), upTo(ec, cmax)
	if w.Shard == 0 {
		w.Note("bodies_a", fa.N)
		w.Note("bodies_b", fb.N)
		w.Note("bodies_c", fc.N)
	}
	trivial := func() []*rt.Node { return []*rt.Node{rt.Call("p", I(0))} }
	tail := func() *rt.Node { return rt.Call("p", I(9), Id("x"), Id("k")) }
	for ia := int64(0); ia < fa.N; ia++ {
		a := asNodes(fa.At(ia))
		ub, uc := usesScript(a, "b.p"), usesScript(a, "c.p")
		nb, nc := int64(1), int64(1)
		if ub {
			nb = fb.N
		}
		for ib := int64(0); ib < nb; ib++ {
			var b []*rt.Node
			if ub {
				b = asNodes(fb.At(ib))
			}
			bUsesC := ub && usesScript(b, "c.p")
			if uc || bUsesC {
				nc = fc.N
			} else {
				nc = 1
			}
			for ic := int64(0); ic < nc; ic++ {
				if !w.Take() {
					continue
				}
				if w.Expired() {
					return
				}
				scripts := map[string][]*rt.Node{}
				scripts["a.p"] = append(asNodes(fa.At(ia)), tail())
				if ub {
					scripts["b.p"] = append(asNodes(fb.At(ib)), tail())
				} else {
					scripts["b.p"] = trivial()
				}
				if uc || bUsesC {
					scripts["c.p"] = append(asNodes(fc.At(ic)), tail())
				} else {
					scripts["c.p"] = trivial()
				}
				c13Exec(w, "tree", scripts)
			}
		}
	}
	// exit() / a failing statement at every position of the body of a three-clause for, with and without a
	// post clause, directly and in a used script; and pure forwarders: a script whose whole body is one use()
	{
		exitC := func() *rt.Node { return rt.Call("exit") }
		raiseC := func() *rt.Node { return rt.Call("p", rt.Bin("/", I(1), Id("z"))) }
		for _, ev := range []func() *rt.Node{exitC, raiseC} {
			for pos := 0; pos <= 3; pos++ {
				// post clause: none / an assignment / a statement whose effect is visible (trace, point, a used script)
				for postKind := 0; postKind < 5; postKind++ {
					for _, viaUse := range []bool{false, true} {
						if !w.Take() {
							continue
						}
						body := []*rt.Node{rt.Call("add_key", Id("k"), Id("x")), rt.Call("p", I(5), Id("x"))}
						if postKind != 1 {
							body = append(body, rt.Assign("=", Id("x"), rt.Bin("+", Id("x"), I(1))))
						} else {
							body = append(body, rt.Call("p", I(7)))
						}
						body = append(body[:pos], append([]*rt.Node{ev()}, body[pos:]...)...)
						var post *rt.Node
						switch postKind {
						case 1:
							post = rt.Assign("=", Id("x"), rt.Bin("+", Id("x"), I(1)))
						case 2:
							post = rt.Call("p", I(4), Id("x"))
						case 3:
							post = rt.Call("add_key", Id("steps"), Id("x"))
						case 4:
							post = rt.Call("use", rt.Str("c.p"))
						}
						loop := []*rt.Node{rt.Assign("=", Id("x"), I(0)), rt.For(nil, rt.Bin("<", Id("x"), I(3)), post, rt.Block(body...)), rt.Call("p", I(6))}
						scripts := map[string][]*rt.Node{"b.p": trivial(), "c.p": trivial()}
						if viaUse {
							scripts["a.p"] = []*rt.Node{rt.Call("use", rt.Str("b.p")), rt.Call("use", rt.Str("b.p")), tail()}
							scripts["b.p"] = loop
						} else {
							scripts["a.p"] = append(loop, tail())
						}
						c13Exec(w, "for-body", scripts)
					}
				}
			}
			for _, mid := range [][]*rt.Node{{rt.Call("use", rt.Str("c.p"))}, {rt.Call("use", rt.Str("c.p")), rt.Call("use", rt.Str("c.p"))}, {rt.If(rt.Bool(true), rt.Block(rt.Call("use", rt.Str("c.p"))))}} {
				if !w.Take() {
					continue
				}
				scripts := map[string][]*rt.Node{
					"a.p": {rt.Call("p", I(1)), rt.Call("use", rt.Str("b.p")), tail()},
					"b.p": mid,
					"c.p": {rt.Assign("=", Id("x"), I(3)), rt.Call("add_key", Id("k"), Id("x")), ev(), rt.Call("p", I(8))},
				}
				c13Exec(w, "forwarder", scripts)
			}
		}
	}
	// two deployments: a later load of a set with the same caller text and another callee
	// must not change what the earlier load's caller runs
	mkSet := func(b []*rt.Node, viaB bool) *Prog {
		sc := map[string][]*rt.Node{"a.p": {rt.Call("p", I(1)), rt.Call("use", rt.Str("b.p")), tail()}, "b.p": append(b, tail()), "c.p": trivial()}
		if viaB {
			// a -> b -> c with only c different
			sc["b.p"] = []*rt.Node{rt.Call("use", rt.Str("c.p")), tail()}
			sc["c.p"] = append(b, tail())
		}
		return &Prog{Scripts: sc, Main: "a.p", Point: c13Point()}
	}
	for ib := int64(0); ib < fb.N; ib++ {
		for _, viaB := range []bool{false, true} {
			if !w.Take() {
				continue
			}
			if viaB && usesScript(asNodes(fb.At(ib)), "c.p") {
				continue
			}
			p1 := mkSet(asNodes(fb.At(ib)), viaB)
			p2 := mkSet(asNodes(fb.At((ib+1)%fb.N)), viaB)
			if viaB && usesScript(p2.Scripts["c.p"], "c.p") {
				p2 = mkSet(trivial(), viaB)
			}
			w.Eval()
			v1 := Differential(p1)
			if !v1.OK || v1.Skipped != "" {
				continue // reported by the tree part
			}
			l1, e1 := drv.Load(p1.Sources())
			_, _ = drv.Load(p2.Sources())
			if len(e1) > 0 {
				continue
			}
			res := drv.Run(l1["a.p"], p1.Point.real().Build(), &drv.Sig{FireAt: realPollCap})
			w.Eval()
			got := strings.Join(res.Trace, ";") + "|" + res.Point + "|" + fmt.Sprint(res.Err != nil)
			want := strings.Join(v1.Real.Trace, ";") + "|" + v1.Real.Point + "|" + fmt.Sprint(v1.Real.Err != nil)
			w.Outcome("two-sets|" + got)
			if got != want || res.Panic != "" {
				w.Violate("C13:two-deployments:earlier-load-runs-differently-after-a-later-load",
					fmt.Sprintf("first set, run alone: %s\nfirst set, run after a second set was loaded: %s %s\nfirst set:\n%ssecond set:\n%s", want, got, res.Panic, fmtScripts(p1.Sources()), fmtScripts(p2.Sources())),
					c13Case{Scripts: p1.Sources(), Main: "a.p", Second: p2.Sources()})
			}
		}
	}
	// extended alphabet: exit() / raise in the clauses of a three-clause for
	exit := func() *rt.Node { return rt.Call("exit") }
	raise := func() *rt.Node { return rt.Call("p", rt.Bin("/", I(1), Id("z"))) }
	inc := func() *rt.Node { return rt.Assign("=", Id("x"), rt.Bin("+", Id("x"), I(1))) }
	cond := func() *rt.Node { return rt.Bin("<", Id("x"), I(2)) }
	for _, ev := range []func() *rt.Node{exit, raise} {
		for pos := 0; pos < 3; pos++ {
			for _, viaUse := range []bool{false, true} {
				if !w.Take() {
					continue
				}
				init, c, step := rt.Assign("=", Id("x"), I(0)), cond(), inc()
				switch pos {
				case 0:
					init = ev()
				case 1:
					c = ev()
				case 2:
					step = ev()
				}
				loop := []*rt.Node{rt.Assign("=", Id("x"), I(0)), rt.For(init, c, step, rt.Block(rt.Call("p", I(5), Id("x")), rt.Call("add_key", Id("k"), Id("x")))), rt.Call("p", I(6))}
				scripts := map[string][]*rt.Node{"b.p": trivial(), "c.p": trivial()}
				if viaUse {
					scripts["a.p"] = []*rt.Node{rt.Call("use", rt.Str("b.p")), tail()}
					scripts["b.p"] = loop
				} else {
					scripts["a.p"] = append(loop, tail())
				}
				c13Exec(w, "for-clause", scripts)
			}
		}
	}
}

// c13Many: (1) callees without statements (a comment, blank lines, a lone semicolon): use() runs their zero
// statements and resumes the caller; (2) use() executed many times in one run (loops of 17..300 rounds, nested
// loops through two levels): every execution runs the callee and resumes the caller, the count of earlier calls
// changes nothing; (3) chains of 5..40 scripts, each using the next, with a plain end, exit() or a failing
// statement at the deepest level (the error chain then has one entry per level).
func c13Many(w *run.Worker) {
	I, Id, S := rt.Int, rt.Id, rt.Str
	use := func(n string) *rt.Node { return rt.Call("use", S(n)) }
	tail := func() *rt.Node { return rt.Call("p", I(9), Id("x"), Id("k")) }
	for _, empty := range []string{"# reserved for site specific rules\n", "\n\n", ";", "\n# a\n\n# b", " \t\n"} {
		for shape := 0; shape < 5; shape++ {
			if !w.Take() {
				continue
			}
			p := &Prog{Main: "a.p", Point: c13Point(), SrcOverride: map[string]string{}}
			body := func() []*rt.Node {
				return []*rt.Node{rt.Assign("=", Id("x"), I(4)), rt.Call("add_key", Id("k"), Id("x")), rt.Call("p", I(3), Id("x"))}
			}
			switch shape {
			case 0: // a -> b(empty)
				p.Scripts = map[string][]*rt.Node{"a.p": {rt.Call("p", I(1)), use("b.p"), tail()}, "b.p": nil}
				p.SrcOverride["b.p"] = empty
			case 1: // a -> b -> c(empty)
				p.Scripts = map[string][]*rt.Node{"a.p": {rt.Call("p", I(1)), use("b.p"), tail()}, "b.p": append(body(), use("c.p"), tail()), "c.p": nil}
				p.SrcOverride["c.p"] = empty
			case 2: // a -> b(empty), a -> c
				p.Scripts = map[string][]*rt.Node{"a.p": {use("b.p"), use("c.p"), use("b.p"), tail()}, "b.p": nil, "c.p": body()}
				p.SrcOverride["b.p"] = empty
			case 3: // inside a loop
				p.Scripts = map[string][]*rt.Node{"a.p": {rt.ForIn("i", rt.List(I(1), I(2)), rt.Block(use("b.p"), rt.Call("p", I(2), Id("i")))), tail()}, "b.p": nil}
				p.SrcOverride["b.p"] = empty
			case 4: // the entry script itself has no statements, an unused sibling has none either
				p.Scripts = map[string][]*rt.Node{"a.p": nil, "b.p": nil}
				p.SrcOverride["a.p"], p.SrcOverride["b.p"] = empty, empty
			}
			c13ExecP(w, "statement-less-script", p)
		}
	}
	for _, n := range []int64{16, 17, 33, 70, 300} {
		for shape := 0; shape < 4; shape++ {
			if !w.Take() {
				continue
			}
			p := &Prog{Main: "a.p", Point: c13Point(), Polls: 40000}
			loop := func(v string, n int64, body ...*rt.Node) *rt.Node {
				return rt.For(rt.Assign("=", Id(v), I(0)), rt.Bin("<", Id(v), I(n)), rt.Assign("=", Id(v), rt.Bin("+", Id(v), I(1))), rt.Block(body...))
			}
			switch shape {
			case 0: // one level, many rounds
				p.Scripts = map[string][]*rt.Node{"a.p": {loop("i", n, use("b.p")), rt.Call("p", I(1), Id("i")), tail()}, "b.p": {rt.Call("p", I(2))}}
			case 1: // the callee uses a third script every time
				p.Scripts = map[string][]*rt.Node{"a.p": {loop("i", n, use("b.p")), rt.Call("p", I(1), Id("i")), tail()}, "b.p": {use("c.p"), rt.Call("p", I(2))}, "c.p": {rt.Call("p", I(3))}}
			case 2: // nested loops over two levels (rounds split between the levels)
				m := int64(3)
				for m*m < n {
					m++
				}
				p.Scripts = map[string][]*rt.Node{"a.p": {loop("i", m, use("b.p")), rt.Call("p", I(1), Id("i")), tail()}, "b.p": {loop("j", m, use("c.p")), rt.Call("p", I(2), Id("j"))}, "c.p": {rt.Call("p", I(3))}}
			case 3: // the many calls happen in a sibling before the one that matters
				p.Scripts = map[string][]*rt.Node{"a.p": {use("b.p"), use("c.p"), tail()}, "b.p": {loop("j", n, use("c.p"))}, "c.p": {rt.Call("p", I(3)), rt.Call("add_key", Id("k"), I(1))}}
			}
			c13ExecP(w, "many-use-calls", p)
		}
	}
	// what a used script prints appears where it runs, between the caller's own lines; what it decodes is its own
	for shape := 0; shape < 4; shape++ {
		if !w.Take() {
			continue
		}
		pf := func(s string) *rt.Node { return rt.Call("printf", S(s+" %v\n"), Id("k")) }
		doc := `{"n": 1, "l": [1, 2]}`
		p := &Prog{Main: "a.p", Point: c13Point(), Capture: true}
		switch shape {
		case 0:
			p.Scripts = map[string][]*rt.Node{"a.p": {pf("a1"), use("b.p"), pf("a2")}, "b.p": {pf("b1"), rt.Call("add_key", Id("k"), I(2)), use("c.p"), pf("b2")}, "c.p": {pf("c")}}
		case 1:
			p.Scripts = map[string][]*rt.Node{"a.p": {rt.ForIn("i", rt.List(I(1), I(2)), rt.Block(use("b.p"), pf("a"))), tail()}, "b.p": {pf("b"), rt.Call("exit"), pf("never")}}
		case 2: // caller and callee decode the same text; the callee changes its document in place
			p.Scripts = map[string][]*rt.Node{
				"a.p": {rt.Assign("=", Id("j"), rt.Call("load_json", S(doc))), use("b.p"), rt.Call("p", Id("j")), rt.Assign("=", rt.Index("j", S("n")), I(5)), use("b.p"), rt.Call("p", Id("j"))},
				"b.p": {rt.Assign("=", Id("d"), rt.Call("load_json", S(doc))), rt.Call("p", Id("d")), rt.Assign("=", rt.Index("d", S("n")), I(2)), rt.Assign("=", rt.Index("d", S("l"), I(0)), S("changed")), use("c.p")},
				"c.p": {rt.Assign("=", Id("e"), rt.Call("load_json", S(doc))), rt.Call("p", Id("e"))}}
		case 3: // the document comes from the shared point
			p.Scripts = map[string][]*rt.Node{
				"a.p": {rt.Call("add_key", Id("_"), S(doc)), rt.Assign("=", Id("j"), rt.Call("load_json", Id("_"))), rt.Assign("=", rt.Index("j", S("l"), I(1)), S("by a")), use("b.p"), rt.Call("p", Id("j"))},
				"b.p": {rt.Assign("=", Id("j"), rt.Call("load_json", Id("_"))), rt.Call("p", Id("j")), rt.Assign("=", rt.Index("j", S("n")), I(2))}}
		}
		c13ExecP(w, "output-and-documents-of-used-scripts", p)
	}
	for _, depth := range []int{5, 17, 40} {
		for end := 0; end < 3; end++ {
			if !w.Take() {
				continue
			}
			p := &Prog{Main: "a.p", Point: c13Point(), Scripts: map[string][]*rt.Node{}}
			name := func(i int) string {
				if i == 0 {
					return "a.p"
				}
				return fmt.Sprintf("s%d.p", i)
			}
			for i := 0; i < depth; i++ {
				p.Scripts[name(i)] = []*rt.Node{rt.Call("p", I(int64(i))), use(name(i + 1)), rt.Call("p", I(int64(100+i)), Id("k"))}
			}
			last := []*rt.Node{rt.Call("add_key", Id("k"), I(int64(depth)))}
			switch end {
			case 1:
				last = append(last, rt.Call("exit"), rt.Call("p", I(7)))
			case 2:
				last = append(last, rt.Call("p", rt.Bin("/", I(1), Id("z"))))
			}
			p.Scripts[name(depth)] = last
			c13ExecP(w, "deep-chain", p)
		}
	}
}

func c13Replay(raw json.RawMessage) (bool, string) {
	var c c13Case
	if err := json.Unmarshal(raw, &c); err != nil {
		return false, err.Error()
	}
	if c.Second != nil {
		l1, e1 := drv.Load(c.Scripts)
		if len(e1) > 0 {
			return false, fmt.Sprint(e1)
		}
		alone := drv.Run(l1[c.Main], c13Point().real().Build(), &drv.Sig{FireAt: realPollCap})
		l1, _ = drv.Load(c.Scripts)
		_, _ = drv.Load(c.Second)
		after := drv.Run(l1[c.Main], c13Point().real().Build(), &drv.Sig{FireAt: realPollCap})
		a, b := fmt.Sprint(alone.Trace, alone.Point, alone.Err), fmt.Sprint(after.Trace, after.Point, after.Err)
		return a != b, "alone: " + a + "\nafter the second load: " + b
	}
	p := &Prog{Scripts: map[string][]*rt.Node{}, Main: c.Main, Point: c13Point(), Polls: c.Polls, Capture: c.Capture, SrcOverride: map[string]string{}}
	for name, src := range c.Scripts {
		tree, err := parseToTree(name, src)
		if err != nil {
			return false, err.Error()
		}
		p.Scripts[name] = tree
		if len(tree) == 0 {
			p.SrcOverride[name] = src
		}
	}
	v := Differential(p)
	if !v.OK {
		return true, v.What
	}
	if msg := chainCheck(v.Real.Err, v.RefErr); msg != "" {
		return true, msg
	}
	return false, "agrees with the reference"
}

func init() {
	run.Register(&run.Check{
		ID:    "C13",
		Level: "model_checking",
		Rule: "scripts a.p (uses b.p, c.p), b.p (uses c.p), c.p: every body of total size <=3 / <=2 / <=1 statements (thorough 3/3/2) over {x=K, p(K,x,k), add_key(k,x), exit(), raise, use(child)} each optionally inside `if true {}` / `for i in [1,2] {}` / the else branch of `if true {} else {}` (not taken) / of `if false {} else {}` (taken), " +
			"same variable and key names on every side, followed by a final probe; all reachable combinations; plus exit()/raise in each clause and at every body position of a three-clause for (post clause absent, an assignment, a probe, add_key, use()), directly and through use(); pure forwarder scripts (whole body = one use()); " +
			"callees and entry scripts without statements (5 spellings x 5 shapes); use() executed 16..300 times in one run (one level, two levels, nested loops, in a sibling first); chains of 5/17/40 scripts ending plainly, in exit() or in a failing statement; " +
			"oracle: probe trace, final point, error flag equal the reference (fresh scope per callee, shared point, exit local); on errors the position chain = failing statement, then every use site outward",
		Assumptions: []string{"bodies of scripts that are not reachable are replaced by a trivial body (they cannot influence the run)"},
		Run:            c13Run,
		Replay:         c13Replay,
		QuickBudget:    4 * time.Minute,
		ThoroughBudget: 30 * time.Minute,
	})
}
