package checks

import (
	"encoding/json"
	"fmt"
	"strings"
	"time"

	"verif/mc/internal/rt"
	"verif/mc/internal/run"
)

// C18 — the v2 interpreter follows the language semantics and never reuses
// stale values.

type c18Case struct {
	Part   string `json:"part"`
	Source string `json:"source"`
}

func c18Exec(w *run.Worker, part string, stmts []*rt.Node, keyExtra string) Verdict {
	p := &Prog{Scripts: map[string][]*rt.Node{"s.p": stmts}, Main: "s.p"}
	w.Eval()
	v := DifferentialV2(p)
	w.Outcome(v.Outcome)
	if v.Skipped != "" {
		w.Note("unspecified_cells_skipped", 1)
		return v
	}
	if !v.OK {
		pk := part
		if strings.HasPrefix(part, "no-value:") {
			pk = "no-value" // the position is in the description; one class per construct
			if i := strings.Index(keyExtra, "("); i > 0 {
				keyExtra = keyExtra[:i] + "(..)"
			}
		}
		key := "C18:" + pk + ":" + v.Key
		if v.Key == "panic" {
			key += ":" + panicClass(v.Real.Panic)
		}
		if keyExtra != "" {
			key += ":" + keyExtra
		}
		w.Violate(key, v.What, c18Case{Part: part, Source: p.Sources()["s.p"]})
	}
	return v
}

// (a) the operator table on v2 (literal and variable operands)
func c18Ops(w *run.Worker) {
	vals := c02Values()
	Id := rt.Id
	for src := srcLit; src <= srcVar; src++ {
		for _, form := range []string{"bin", "asg", "un"} {
			ops := c02BinOps
			if form == "asg" {
				ops = c02AsgOps
			} else if form == "un" {
				ops = c02UnOps
			}
			for _, op := range ops {
				for l := range vals {
					for r := range vals {
						if form == "un" && r != 0 {
							continue
						}
						if !w.Take() {
							continue
						}
						lv, rv := vals[l], vals[r]
						var stmts []*rt.Node
						var le, re *rt.Node
						if src == srcLit {
							le, re = lv.Node(), rv.Node()
							if (op == "/" || op == "%") && form == "bin" && rv.IsLit && isZeroLit(re) {
								continue // rejected by the parser, see C02
							}
						} else {
							stmts = append(stmts, rt.Assign("=", Id("x"), lv.Node()), rt.Assign("=", Id("y"), rv.Node()))
							le, re = Id("x"), Id("y")
						}
						switch form {
						case "bin":
							stmts = append(stmts, rt.Call("p", rt.Normalize(rt.Bin(op, le, re))))
						case "un":
							e := rt.Normalize(rt.Un(op, rt.Paren(le)))
							stmts = append(stmts, rt.Call("p", e))
						case "asg":
							stmts = append(stmts, rt.Assign("=", Id("z"), le), rt.Assign(op, Id("z"), re), rt.Call("p", Id("z")))
						}
						v := c18Exec(w, form, stmts, "")
						_ = v
					}
				}
			}
		}
	}
}

// value positions in which a construct without value must be an error
type c18Pos struct {
	Name  string
	Build func(e *rt.Node) []*rt.Node
}

func c18Positions() []c18Pos {
	I, S, Id := rt.Int, rt.Str, rt.Id
	one := func(f func(e *rt.Node) *rt.Node) func(e *rt.Node) []*rt.Node {
		return func(e *rt.Node) []*rt.Node { return []*rt.Node{rt.Normalize(f(e))} }
	}
	ps := []c18Pos{
		{"assign-source", one(func(e *rt.Node) *rt.Node { return rt.Assign("=", Id("b"), e) })},
		{"compound-source", one(func(e *rt.Node) *rt.Node { return rt.Assign("+=", Id("a"), e) })},
		{"tuple-source", one(func(e *rt.Node) *rt.Node { return rt.AssignN([]*rt.Node{Id("b"), Id("c")}, []*rt.Node{I(1), e}) })},
		{"index-assign-source", one(func(e *rt.Node) *rt.Node { return rt.Assign("=", rt.Index("l", I(0)), e) })},
		{"if-cond", one(func(e *rt.Node) *rt.Node { return rt.If(e, rt.Block(rt.Call("p", I(1))), rt.Block(rt.Call("p", I(2)))) })},
		{"elif-cond", one(func(e *rt.Node) *rt.Node {
			return rt.If(rt.Bool(false), rt.Block(), e, rt.Block(rt.Call("p", I(1))), rt.Block(rt.Call("p", I(2))))
		})},
		{"for-cond", one(func(e *rt.Node) *rt.Node { return rt.For(nil, e, nil, rt.Block(rt.Call("p", I(1)), rt.Break())) })},
		{"forin-iter", one(func(e *rt.Node) *rt.Node { return rt.ForIn("v", e, rt.Block(rt.Call("p", Id("v")))) })},
		{"list-elem", one(func(e *rt.Node) *rt.Node { return rt.Call("p", rt.List(I(1), e)) })},
		{"map-key", one(func(e *rt.Node) *rt.Node { return rt.Call("p", rt.Map(e, I(1))) })},
		{"map-value", one(func(e *rt.Node) *rt.Node { return rt.Call("p", rt.Map(S("k"), e)) })},
		{"index-key", one(func(e *rt.Node) *rt.Node { return rt.Call("p", rt.Index("l", e)) })},
		{"index-key-lhs", one(func(e *rt.Node) *rt.Node { return rt.Assign("=", rt.Index("l", e), I(1)) })},
		{"slice-start", one(func(e *rt.Node) *rt.Node { return rt.Call("p", rt.Slice(Id("l"), e, nil, nil, false)) })},
		{"slice-end", one(func(e *rt.Node) *rt.Node { return rt.Call("p", rt.Slice(Id("l"), nil, e, nil, false)) })},
		{"slice-step", one(func(e *rt.Node) *rt.Node { return rt.Call("p", rt.Slice(Id("l"), nil, nil, e, true)) })},
		{"call-arg", one(func(e *rt.Node) *rt.Node { return rt.Call("p", I(1), e) })},
		{"call-arg-named", one(func(e *rt.Node) *rt.Node { return rt.Call("p", rt.Call("id", rt.Named("x", e))) })},
		{"nested-call-arg", one(func(e *rt.Node) *rt.Node { return rt.Call("p", rt.Call("id", e)) })},
		{"unary-minus", one(func(e *rt.Node) *rt.Node { return rt.Call("p", rt.Un("-", e)) })},
		{"unary-not", one(func(e *rt.Node) *rt.Node { return rt.Call("p", rt.Un("!", e)) })},
		{"paren", one(func(e *rt.Node) *rt.Node { return rt.Assign("=", Id("b"), rt.Paren(e)) })},
		{"in-left", one(func(e *rt.Node) *rt.Node { return rt.Call("p", rt.In(e, Id("l"))) })},
		{"in-right", one(func(e *rt.Node) *rt.Node { return rt.Call("p", rt.In(I(1), e)) })},
	}
	for _, op := range c02BinOps {
		if op == "in" {
			continue
		}
		op := op
		ps = append(ps, c18Pos{"left-of-" + op, one(func(e *rt.Node) *rt.Node { return rt.Call("p", rt.Bin(op, e, Id("a"))) })})
		ps = append(ps, c18Pos{"right-of-" + op, one(func(e *rt.Node) *rt.Node { return rt.Call("p", rt.Bin(op, Id("a"), e)) })})
	}
	return ps
}

func c18NoValue(w *run.Worker) {
	I, S, Id := rt.Int, rt.Str, rt.Id
	// constructs that yield no value
	novals := []struct {
		name string
		f    nodeFn
	}{
		{"void()", func() *rt.Node { return rt.Call("void") }},
		{"void(7)", func() *rt.Node { return rt.Call("void", I(7)) }},
		{"void(true)", func() *rt.Node { return rt.Call("void", rt.Bool(true)) }},
		{"void([1])", func() *rt.Node { return rt.Call("void", rt.List(I(1))) }},
		{"attr", func() *rt.Node { return rt.Attr(Id("a"), Id("fld")) }},
		{"p()", func() *rt.Node { return rt.Call("p") }},
		{"two()", func() *rt.Node { return rt.Call("two") }},
	}
	// preceding statements leaving different things in the result register
	pres := []func() []*rt.Node{
		func() []*rt.Node { return nil },
		func() []*rt.Node { return []*rt.Node{rt.Assign("=", Id("q"), I(5))} },
		func() []*rt.Node { return []*rt.Node{rt.Assign("=", Id("q"), rt.Bool(true))} },
		func() []*rt.Node { return []*rt.Node{rt.Assign("=", Id("q"), rt.Bool(false))} },
		func() []*rt.Node { return []*rt.Node{rt.Assign("=", Id("q"), rt.List(I(1), I(2)))} },
		func() []*rt.Node { return []*rt.Node{rt.Call("p", S("s"))} },
		func() []*rt.Node { return []*rt.Node{rt.Call("one")} },
		func() []*rt.Node { return []*rt.Node{rt.Call("two")} },
		func() []*rt.Node { return []*rt.Node{rt.If(rt.Bool(true), rt.Block())} },
		func() []*rt.Node { return []*rt.Node{rt.Assign("=", Id("q"), rt.Nil())} },
	}
	for _, pos := range c18Positions() {
		for _, nv := range novals {
			for pi, pre := range pres {
				if !w.Take() {
					continue
				}
				stmts := []*rt.Node{rt.Assign("=", Id("a"), I(3)), rt.Assign("=", Id("l"), rt.List(I(10), I(11), I(12))), rt.Assign("=", Id("b"), I(0)), rt.Assign("=", Id("c"), I(0))}
				stmts = append(stmts, pre()...)
				stmts = append(stmts, pos.Build(nv.f())...)
				stmts = append(stmts, rt.Call("p", I(99), Id("a"), Id("b"), Id("l")))
				v := c18Exec(w, "no-value:"+pos.Name, stmts, nv.name)
				if w.WantSample() && pi == 1 && nv.name == "void(7)" && pos.Name == "assign-source" {
					w.Sample(map[string]any{"program": (&Prog{Scripts: map[string][]*rt.Node{"s.p": stmts}, Main: "s.p"}).Sources()["s.p"], "real_trace": v.Real.Trace, "real_err": fmt.Sprint(v.Real.Err)})
				}
			}
		}
	}
}

func c18Tuples(w *run.Worker) {
	I, S, Id := rt.Int, rt.Str, rt.Id
	lhs := []nodeFn{
		func() *rt.Node { return Id("a") }, func() *rt.Node { return Id("b") }, func() *rt.Node { return Id("n") },
		func() *rt.Node { return rt.Index("l", I(0)) }, func() *rt.Node { return rt.Index("l", I(1)) }, func() *rt.Node { return rt.Index("m", S("k")) },
		func() *rt.Node { return rt.Index("l", I(9)) }, func() *rt.Node { return rt.Index("l", Id("a")) },
	}
	rhs := []nodeFn{
		func() *rt.Node { return Id("a") }, func() *rt.Node { return Id("b") }, func() *rt.Node { return I(7) },
		func() *rt.Node { return rt.Index("l", I(0)) }, func() *rt.Node { return rt.Index("l", I(1)) },
		func() *rt.Node { return rt.Call("two") }, func() *rt.Node { return rt.Call("one") }, func() *rt.Node { return rt.Call("void") },
		func() *rt.Node { return rt.Call("p", Id("a")) }, func() *rt.Node { return rt.Bin("+", Id("a"), Id("b")) }, func() *rt.Node { return Id("undef") },
	}
	prelude := func() []*rt.Node {
		return []*rt.Node{rt.Assign("=", Id("a"), I(1)), rt.Assign("=", Id("b"), I(2)), rt.Assign("=", Id("l"), rt.List(I(10), I(11))), rt.Assign("=", Id("m"), rt.Map(S("k"), I(5)))}
	}
	tail := func() *rt.Node { return rt.Call("p", Id("a"), Id("b"), Id("l"), Id("m")) }
	for nl := 1; nl <= 3; nl++ {
		for nr := 1; nr <= 3; nr++ {
			li := make([]int, nl)
			for {
				ri := make([]int, nr)
				for {
					if w.Take() {
						var ls, rs []*rt.Node
						for _, i := range li {
							ls = append(ls, lhs[i]())
						}
						for _, i := range ri {
							rs = append(rs, rhs[i]())
						}
						stmts := append(prelude(), rt.AssignN(ls, rs), tail())
						c18Exec(w, "tuple", stmts, fmt.Sprintf("%dto%d", nr, nl))
					}
					j := nr - 1
					for ; j >= 0; j-- {
						ri[j]++
						if ri[j] < len(rhs) {
							break
						}
						ri[j] = 0
					}
					if j < 0 {
						break
					}
				}
				j := nl - 1
				for ; j >= 0; j-- {
					li[j]++
					if li[j] < len(lhs) {
						break
					}
					li[j] = 0
				}
				if j < 0 {
					break
				}
			}
			if nl == 3 && nr == 3 && !w.Thorough {
				break
			}
		}
	}
}

func c18Enum() *senum {
	I, S, Id := rt.Int, rt.Str, rt.Id
	inc := func(v string) *rt.Node { return rt.Assign("=", Id(v), rt.Bin("+", Id(v), I(1))) }
	return &senum{
		simple: []nodeFn{
			func() *rt.Node { return rt.Call("p", Id("x"), Id("y")) },
			func() *rt.Node { return inc("x") },
			func() *rt.Node { return rt.Assign("=", Id("y"), I(7)) },
			func() *rt.Node { return rt.Assign("+=", Id("x"), I(10)) },
			func() *rt.Node { return rt.Assign("=", Id("w"), Id("x")) },
			func() *rt.Node { return rt.Call("p", Id("w")) },
		},
		loopOnly: []nodeFn{func() *rt.Node { return rt.Break() }, func() *rt.Node { return rt.Continue() }},
		conds: []nodeFn{
			func() *rt.Node { return rt.Bool(true) },
			func() *rt.Node { return rt.Bin("<", Id("x"), I(2)) },
			func() *rt.Node { return Id("y") },
		},
		forInits: []nodeFn{nil, func() *rt.Node { return rt.Assign("=", Id("y"), I(0)) }},
		// w is only ever assigned inside bodies: a header that mentions it (behind a short-circuit the first
		// time round) must find it undefined — what a finished iteration assigned is gone
		forConds: []nodeFn{nil, func() *rt.Node { return rt.Bin("<", Id("x"), I(2)) },
			func() *rt.Node { return rt.Normalize(rt.Bin("||", rt.Bin("<", Id("x"), I(1)), rt.Bin("<", Id("w"), I(2)))) }},
		forSteps: []nodeFn{nil, func() *rt.Node { return inc("x") },
			func() *rt.Node { return rt.Normalize(rt.Assign("=", Id("x"), rt.Bin("+", rt.Bin("+", Id("x"), I(1)), rt.Bin("*", Id("w"), I(0))))) }},
		forIns: []func(body *rt.Node) *rt.Node{
			func(b *rt.Node) *rt.Node { return rt.ForIn("y", rt.List(I(1), I(2)), b) },
			func(b *rt.Node) *rt.Node { return rt.ForIn("x", rt.Str("ab"), b) },
			func(b *rt.Node) *rt.Node { return rt.ForIn("v", rt.Map(S("a"), I(1), S("b"), I(2)), b) },
		},
		maxDepth: 3,
		memoS:    map[[3]int]*Fam{},
		memoB:    map[[3]int]*Fam{},
	}
}

func c18Structural(w *run.Worker) {
	I, Id := rt.Int, rt.Id
	e := c18Enum()
	maxSize := 3
	if w.Thorough {
		maxSize = 4
	}
	for size := 1; size <= maxSize; size++ {
		fam := e.blocks(size, false, 0)
		for i := int64(0); i < fam.N; i++ {
			if !w.Take() {
				continue
			}
			if w.Expired() {
				return
			}
			stmts := []*rt.Node{rt.Assign("=", Id("x"), I(0)), rt.Assign("=", Id("y"), I(0))}
			stmts = append(stmts, asNodes(fam.At(i))...)
			stmts = append(stmts, rt.Call("p", Id("x"), Id("y")))
			c18Exec(w, "structure", stmts, "")
		}
	}
}

// object-less index expressions and other error-only forms
func c18Misc(w *run.Worker) {
	I, Id := rt.Int, rt.Id
	forms := []func() []*rt.Node{
		func() []*rt.Node { return []*rt.Node{rt.Call("p", rt.NoObjIndex(I(0)))} },
		func() []*rt.Node { return []*rt.Node{rt.NoObjIndex(I(0))} },
		func() []*rt.Node { return []*rt.Node{rt.Assign("=", rt.NoObjIndex(I(0)), I(1))} },
		func() []*rt.Node { return []*rt.Node{rt.Assign("+=", rt.NoObjIndex(I(0)), I(1))} },
		func() []*rt.Node { return []*rt.Node{rt.AssignN([]*rt.Node{Id("a"), rt.NoObjIndex(I(0))}, []*rt.Node{I(1), I(2)})} },
		func() []*rt.Node { return []*rt.Node{rt.If(rt.NoObjIndex(I(0)), rt.Block())} },
		func() []*rt.Node { return []*rt.Node{rt.ForIn("v", rt.NoObjIndex(I(0)), rt.Block())} },
		func() []*rt.Node { return []*rt.Node{rt.Call("p", rt.Index("a", rt.NoObjIndex(I(0))))} },
		func() []*rt.Node { return []*rt.Node{rt.Call("p", rt.Slice(Id("l"), rt.NoObjIndex(I(0)), nil, nil, false))} },
		func() []*rt.Node { return []*rt.Node{rt.Call("p", Id("undefined_name"))} },
		func() []*rt.Node { return []*rt.Node{rt.Assign("+=", Id("undefined_name"), I(1))} },
		func() []*rt.Node { return []*rt.Node{rt.Assign("=", rt.Index("undefined_name", I(0)), I(1))} },
		func() []*rt.Node { return []*rt.Node{rt.Call("p", rt.Index("undefined_name", I(0)))} },
		func() []*rt.Node { return []*rt.Node{rt.ForIn("v", Id("undefined_name"), rt.Block())} },
		func() []*rt.Node { return []*rt.Node{rt.If(rt.Bool(false), rt.Block(rt.Assign("=", Id("inner"), I(1)))), rt.Call("p", Id("inner"))} },
		func() []*rt.Node { return []*rt.Node{rt.For(rt.Assign("=", Id("i"), I(0)), rt.Bin("<", Id("i"), I(1)), rt.Assign("+=", Id("i"), I(1)), rt.Block()), rt.Call("p", Id("i"))} },
	}
	// a name first assigned in a loop body is gone in the next pass — however the previous pass ended
	// (falling off the end, continue, continue inside an if) and whatever is iterated
	for _, iter := range []func() *rt.Node{
		func() *rt.Node { return rt.List(I(1), I(2), I(3)) }, func() *rt.Node { return rt.Str("abc") }, func() *rt.Node { return rt.Map(rt.Str("k1"), I(1), rt.Str("k2"), I(2)) },
	} {
		for _, ending := range []func() []*rt.Node{
			func() []*rt.Node { return nil },
			func() []*rt.Node { return []*rt.Node{rt.Continue()} },
			func() []*rt.Node { return []*rt.Node{rt.If(rt.Bool(true), rt.Block(rt.Continue()))} },
			func() []*rt.Node { return []*rt.Node{rt.If(rt.Bool(false), rt.Block(), rt.Block(rt.Continue())), rt.Call("p", I(5))} },
		} {
			iter, ending := iter, ending
			forms = append(forms, func() []*rt.Node {
				body := []*rt.Node{rt.Assign("=", Id("n"), rt.Bin("+", Id("n"), I(1))), rt.If(rt.Bin(">", Id("n"), I(1)), rt.Block(rt.Call("p", Id("fresh")))), rt.Assign("=", Id("fresh"), Id("v"))}
				body = append(body, ending()...)
				return []*rt.Node{rt.Assign("=", Id("n"), I(0)), rt.ForIn("v", iter(), rt.Block(body...)), rt.Call("p", Id("n"))}
			})
			forms = append(forms, func() []*rt.Node {
				body := []*rt.Node{rt.Assign("=", Id("n"), rt.Bin("+", Id("n"), I(1))), rt.If(rt.Bin(">", Id("n"), I(1)), rt.Block(rt.Call("p", Id("fresh")))), rt.Assign("=", Id("fresh"), Id("n"))}
				body = append(body, ending()...)
				return []*rt.Node{rt.Assign("=", Id("n"), I(0)), rt.For(nil, rt.Bin("<", Id("n"), I(3)), nil, rt.Block(body...)), rt.Call("p", Id("n"))}
			})
		}
	}
	for _, f := range forms {
		if !w.Take() {
			continue
		}
		stmts := []*rt.Node{rt.Assign("=", Id("a"), I(3)), rt.Assign("=", Id("l"), rt.List(I(10), I(11)))}
		stmts = append(stmts, f()...)
		stmts = append(stmts, rt.Call("p", I(99)))
		c18Exec(w, "misc", stmts, "")
	}
}

// (f) the truthiness table on v2: every pair of representatives in if/elif/else, each as a for
// condition, under `!`, and as the condition of a loop whose counter steps through fractions
func c18Truthiness(w *run.Worker) {
	I, S, Id := rt.Int, rt.Str, rt.Id
	conds := []nodeFn{
		func() *rt.Node { return rt.Nil() },
		func() *rt.Node { return I(0) }, func() *rt.Node { return I(1) }, func() *rt.Node { return I(-3) },
		func() *rt.Node { return rt.Float(0) }, func() *rt.Node { return rt.Float(0.5) }, func() *rt.Node { return rt.Float(0.99) }, func() *rt.Node { return rt.Float(-0.75) }, func() *rt.Node { return rt.Float(1.5) },
		func() *rt.Node { return S("") }, func() *rt.Node { return S("a") }, func() *rt.Node { return S("0") },
		func() *rt.Node { return rt.List() }, func() *rt.Node { return rt.List(I(0)) },
		func() *rt.Node { return rt.Map() }, func() *rt.Node { return rt.Map(S("a"), I(0)) },
		func() *rt.Node { return rt.Bool(true) }, func() *rt.Node { return rt.Bool(false) },
		func() *rt.Node { return Id("x") },  // variable holding 0
		func() *rt.Node { return Id("hf") }, // variable holding 0.5
		func() *rt.Node { return rt.Bin("<", Id("x"), I(2)) },
		func() *rt.Node { return rt.Un("!", Id("hf")) },
		func() *rt.Node { return rt.Call("one") },
		func() *rt.Node { return rt.Call("id", rt.Float(0.25)) },
		func() *rt.Node { return rt.Bin("/", rt.Float(1), I(4)) },
		func() *rt.Node { return rt.Float(-0.0) },
		func() *rt.Node { return rt.Float(1e-20) }, func() *rt.Node { return rt.Float(-3e-300) }, func() *rt.Node { return rt.Float(5e-324) },
	}
	pre := func() []*rt.Node {
		return []*rt.Node{rt.Assign("=", Id("x"), I(0)), rt.Assign("=", Id("hf"), rt.Float(0.5))}
	}
	for _, c1 := range conds {
		for _, c2 := range conds {
			if !w.Take() {
				continue
			}
			c18Exec(w, "truthiness", append(pre(),
				rt.If(c1(), rt.Block(rt.Call("p", I(1))), c2(), rt.Block(rt.Call("p", I(2))), rt.Block(rt.Call("p", I(3)))),
				rt.Call("p", I(4))), "")
		}
		if w.Take() {
			c18Exec(w, "truthiness-for", append(pre(),
				rt.For(rt.Assign("=", Id("i"), I(0)), c1(), rt.Assign("=", Id("i"), rt.Bin("+", Id("i"), I(1))),
					rt.Block(rt.Call("p", Id("i")), rt.If(rt.Bin(">=", Id("i"), I(1)), rt.Block(rt.Break())))),
				rt.Call("p", Id("i"))), "")
		}
		if w.Take() {
			c18Exec(w, "truthiness-not", append(pre(), rt.If(rt.Un("!", rt.Normalize(rt.Paren(c1()))), rt.Block(rt.Call("p", I(1))), rt.Block(rt.Call("p", I(2))))), "")
		}
	}
	if w.Take() {
		// a counter stepping 1.5, 1.0, 0.5, 0.0 as the loop condition
		c18Exec(w, "truthiness-countdown", []*rt.Node{
			rt.For(rt.Assign("=", Id("c"), rt.Float(1.5)), Id("c"), rt.Assign("=", Id("c"), rt.Bin("-", Id("c"), rt.Float(0.5))), rt.Block(rt.Call("p", Id("c")))),
			rt.Call("p", Id("c"))}, "")
	}
}

// (g) for-in on v2: list order, string characters (not bytes), every map key once, loop variable and
// body-local names, break/continue
func c18ForIn(w *run.Worker) {
	I, S, Id := rt.Int, rt.Str, rt.Id
	iters := []nodeFn{
		func() *rt.Node { return rt.List(I(1), I(2)) },
		func() *rt.Node { return rt.List() },
		func() *rt.Node { return rt.List(rt.List(I(1)), S("s"), rt.Nil(), rt.Float(1.5), rt.Bool(true)) },
		func() *rt.Node { return S("ab") },
		func() *rt.Node { return S("") },
		func() *rt.Node { return S("é!") },
		func() *rt.Node { return S("a\u00e9b") },
		func() *rt.Node { return S("\u65e5\u672c\u8a9ex") },
		func() *rt.Node { return S("\U0001d4b3y") },
		func() *rt.Node { return rt.Map(S("k"), I(1)) },
		func() *rt.Node { return rt.Map(S("a"), I(1), S("b"), I(2)) },
		func() *rt.Node { return rt.Map() },
		func() *rt.Node { return Id("lst") },
		func() *rt.Node { return Id("txt") },
		func() *rt.Node { return rt.Slice(Id("lst"), I(1), nil, nil, false) },
		func() *rt.Node { return rt.Slice(Id("txt"), I(1), nil, nil, false) },
		func() *rt.Node { return Id("n") },   // an int
		func() *rt.Node { return Id("nul") }, // nil
	}
	bodies := []func() []*rt.Node{
		func() []*rt.Node { return []*rt.Node{rt.Call("p", Id("v"))} },
		func() []*rt.Node { return []*rt.Node{rt.Call("p", Id("v")), rt.Continue(), rt.Call("p", I(0))} },
		func() []*rt.Node { return []*rt.Node{rt.Call("p", Id("v")), rt.Break(), rt.Call("p", I(0))} },
		func() []*rt.Node {
			return []*rt.Node{rt.Assign("=", Id("n"), rt.Bin("+", Id("n"), I(1))), rt.Assign("=", Id("acc"), rt.Bin("+", Id("acc"), rt.List(Id("v")))), rt.Call("p", Id("n"))}
		},
		func() []*rt.Node {
			return []*rt.Node{rt.If(rt.Bin("==", Id("v"), S("\u00e9")), rt.Block(rt.Call("p", S("e-acute")))), rt.If(rt.Bin("in", Id("v"), Id("txt")), rt.Block(rt.Call("p", S("in"))))}
		},
		func() []*rt.Node {
			return []*rt.Node{rt.ForIn("u", S("\u00e9z"), rt.Block(rt.Call("p", Id("v"), Id("u"))))}
		},
		func() []*rt.Node { return nil },
	}
	for _, it := range iters {
		for _, b := range bodies {
			if !w.Take() {
				continue
			}
			stmts := []*rt.Node{
				rt.Assign("=", Id("n"), I(0)), rt.Assign("=", Id("nul"), rt.Nil()), rt.Assign("=", Id("acc"), rt.List()), rt.Assign("=", Id("v"), S("before")),
				rt.Assign("=", Id("lst"), rt.List(I(5), S("\u00e9"), I(7))), rt.Assign("=", Id("txt"), S("x\u00e9\u65e5")),
				rt.ForIn("v", it(), rt.Block(b()...)),
				rt.Call("p", Id("n"), Id("acc"), Id("v")),
			}
			c18Exec(w, "for-in", stmts, "")
		}
	}
}

func c18Run(w *run.Worker) {
	d := dctx{id: "C18", diff: DifferentialV2, v2: true}
	c18Truthiness(w)
	c18ForIn(w)
	c18Misc(w)
	c18NoValue(w)
	c18Tuples(w)
	c18Ops(w)
	c02TreeRun(w, d, 1, 8)
	c02TreeRun(w, d, 2, 8)
	if w.Thorough {
		c02TreeRun(w, d, 3, 5)
	}
	v2exec := func(part string, stmts []*rt.Node) { c18Exec(w, part, stmts, "") }
	c03Counted(w, v2exec)
	c03Rounds(w, v2exec)
	c03Chains(w, v2exec)
	c02Again(w, d)
	c04SliceAgain(w, d)
	c04Paths(w, d)
	c04Alias(w, d)
	c04Reeval(w, d)
	c04LenIn(w, d)
	c18Structural(w)
	c04Slices(w, d)
}

func c18Replay(raw json.RawMessage) (bool, string) {
	var c c18Case
	if err := json.Unmarshal(raw, &c); err != nil {
		return false, err.Error()
	}
	src := c.Source
	if src == "" {
		// cases recorded by the shared generators carry the source under "source" too
		var alt struct {
			Source string `json:"source"`
			Tree   string `json:"tree"`
		}
		_ = json.Unmarshal(raw, &alt)
		src = alt.Source
		if src == "" {
			src = alt.Tree
		}
	}
	tree, err := parseToTree("s.p", src)
	if err != nil {
		return false, err.Error()
	}
	v := DifferentialV2(&Prog{Scripts: map[string][]*rt.Node{"s.p": tree}, Main: "s.p"})
	return !v.OK, strings.TrimSpace(v.What)
}

func init() {
	run.Register(&run.Check{
		ID:    "C18",
		Level: "model_checking",
		Rule: "on the v2 interpreter with probe functions p (variadic), void, one, two, id supplied through the function table: " +
			"(0) the truthiness table (29 representatives incl. fractions between -1 and 1 and denormals; all pairs in if/elif/else, each as a for condition and under !, a counter stepping through fractions) and for-in over 18 iterables (lists, strings with 2-, 3- and 4-byte characters, maps, slices, non-iterables) x 7 bodies; (1) 52 value positions (assignment sources, both operands of every operator, conditions, list/map elements, index keys, slice bounds, call arguments, for-in iterable, ...) x 7 constructs without a single value (void(), void(7), attribute expression, p(), two(), ...) x 10 preceding statements that leave different values behind; " +
			"(2) all tuple assignments of 1..3 targets from 8 targets x 1..3 sources from 11 sources (swaps, index targets, two(), void(), arity mismatches, undefined names); " +
			"(3) the C02 operator table (literal and variable operands) and probed expression trees, the C04 slice table / index paths / aliasing sequences, and every control-flow program of size <=3 (thorough <=4), all against the reference in its v2 dialect (undefined name = error, whole right side evaluated before assigning, no-value in a value position = error)",
		Assumptions: []string{"functions declare their return values in FnDesc.Returns (the probe table does)"},
		Run:            c18Run,
		Replay:         c18Replay,
		QuickBudget:    5 * time.Minute,
		ThoroughBudget: 30 * time.Minute,
	})
}
