package checks

import (
	"encoding/json"
	"fmt"
	"strings"
	"time"

	"github.com/GuanceCloud/platypus/pkg/parser"

	"verif/mc/internal/drv"
	"verif/mc/internal/rt"
	"verif/mc/internal/run"
)

// C06 — expressions group by the documented precedence; layout never matters.

type c06Case struct {
	Source string `json:"source"`
	Want   string `json:"want_tree"`
	Before string `json:"parsed_before,omitempty"` // a rejected text parsed immediately before
}

// rejected texts parsed before every 16th text: the parse of a valid text does not depend on what the
// parser object met before (unbalanced brackets, open strings, lexer errors, a fault at the end of input)
var c06Rejected = []string{"x = [1, 2 3", "if a { b c", "x = 1)", "f(1, (2", "x = {\"k\": [", "s = \"open", "s = \"\"\"open\n", "`open", "x = -a[1/0]", "x = ]", "for ;; { }}", "x = 0x", "a b", "f(a=, )", "x = \"\\q\"", "# c\n)"}

var c06Count int

// parseTree parses text with the real parser and converts the result.
func parseTree(src string) ([]*rt.Node, error) {
	stmts, err := parser.ParsePipeline("s.p", src)
	if err != nil {
		return nil, err
	}
	if stmts == nil {
		return nil, fmt.Errorf("parser returned neither a tree nor an error")
	}
	return drv.FromAst(stmts)
}

// c06Check parses src and compares with the generated tree.
func c06Check(w *run.Worker, part string, prog []*rt.Node, src string) bool {
	w.Eval()
	before := ""
	c06Count++
	if c06Count%16 == 0 {
		before = c06Rejected[(c06Count/16)%len(c06Rejected)]
		if _, err := parser.ParsePipeline("r.p", before); err == nil {
			w.Note("rejected_texts_accepted(decided by C05/C07)", 1)
		}
		part += ":after-a-rejected-text"
	}
	got, err := parseTree(src)
	if err != nil {
		w.Outcome("reject")
		w.Violate("C06:"+part+":rejected:"+c06Shape(prog), fmt.Sprintf("valid text rejected: %v\n%s\nexpected tree: %s\nparsed immediately before: %q", err, src, rt.SexpProg(prog), before),
			c06Case{Source: src, Want: rt.SexpProg(prog), Before: before})
		return false
	}
	if !rt.EqualProg(got, prog) {
		w.Outcome("differs")
		w.Violate("C06:"+part+":wrong-tree:"+c06Shape(prog), fmt.Sprintf("text:\n%s\nparsed  : %s\nexpected: %s\nparsed immediately before: %q", src, rt.SexpProg(got), rt.SexpProg(prog), before),
			c06Case{Source: src, Want: rt.SexpProg(prog), Before: before})
		return false
	}
	w.OutcomeHash(hash2(rt.SexpProg(got), "", 0))
	return true
}

// c06Shape: a coarse class of the tree for the violation key (root kinds/ops).
func c06Shape(prog []*rt.Node) string {
	if len(prog) == 0 {
		return "empty"
	}
	n := prog[0]
	s := n.K.String()
	if n.Op != "" {
		s += n.Op
	}
	for _, k := range n.Kids {
		if k != nil && (k.K == rt.KBin || k.K == rt.KIn || k.K == rt.KUnary) {
			s += "," + k.K.String() + k.Op
		} else if k != nil && k.K == rt.KParen && len(k.Kids) == 1 && k.Kids[0] != nil {
			s += ",(" + k.Kids[0].K.String() + k.Kids[0].Op + ")"
		}
	}
	return s
}

var c06Gaps = map[int][]string{
	rt.SiteAfterOp:    {" ", "\t", "\n", "\n\n", " # c\n", "\n  ", "#\n", " #\n", "# \n#\n", "\r\n", " \r\n\t"},
	rt.SiteAfterComma: {" ", "\t", "\n", "\n\n", " # c\n", "#\n"},
	rt.SiteAfterOpen:  {" ", "\t", "\n", "\n\n", " # c\n", "#\n"},
	rt.SiteAfterColon: {" ", "\t", "\n", "\n\n", " # c\n", "#\n"},
	rt.SiteBetween:    {";", "\n\n", ";\n", "\n# c\n", " ; ", ";;", "\n;\n", " # c\n", "#\n", " #\n", "\n#\n", "#\n#\n", "\r\n", ";\r\n", "\n\t\n"},
	rt.SiteSpace:      {" ", "\t", "   "},
}

// c06Layouts prints prog with every choice of <= maxIns layout insertions.
func c06Layouts(w *run.Worker, part string, prog []*rt.Node, maxIns int) {
	_, sites := rt.PrintProg(prog, nil)
	n := len(sites)
	try := func(ins map[int]string) {
		src, _ := rt.PrintProg(prog, func(i, kind int) string { return ins[i] })
		c06Check(w, part, prog, src)
	}
	for i := 0; i < n; i++ {
		for _, g := range c06Gaps[sites[i]] {
			try(map[int]string{i: g})
		}
	}
	if maxIns >= 2 {
		for i := 0; i < n; i++ {
			if sites[i] == rt.SiteSpace {
				continue
			}
			for j := i + 1; j < n; j++ {
				if sites[j] == rt.SiteSpace {
					continue
				}
				for _, g1 := range c06Gaps[sites[i]] {
					for _, g2 := range c06Gaps[sites[j]] {
						try(map[int]string{i: g1, j: g2})
					}
				}
			}
		}
	}
}

func c06Parens(w *run.Worker, part string, root *rt.Node, max int) {
	n := countParenSlots(root)
	for i := 0; i < n; i++ {
		t := withParens(root, map[int]bool{i: true})
		src, _ := rt.PrintProg([]*rt.Node{t}, nil)
		c06Check(w, part, []*rt.Node{t}, src)
		if max >= 2 {
			for j := i; j < n; j++ {
				var t2 *rt.Node
				if j == i {
					// doubly nested parentheses at one slot
					t2 = withParens(t, map[int]bool{i: true})
				} else {
					t2 = withParens(root, map[int]bool{i: true, j: true})
				}
				src, _ := rt.PrintProg([]*rt.Node{t2}, nil)
				c06Check(w, part, []*rt.Node{t2}, src)
			}
		}
	}
}

func c06Run(w *run.Worker) {
	type fam struct {
		name    string
		f       Fam
		parens  int // 0 none, 1, 2
		layouts int
	}
	fams := []fam{
		{"ops1", pOpTrees(1), 2, 2},
		{"ops2", pOpTrees(2), 2, 2},
		{"unary", pUnaryMix(), 2, 2},
		{"leaf-unary", pLeafUnary(), 1, 1},
		{"statements", pStatements(), 2, 1},
		{"leaf-pairs", pLeafPairs(), 0, 1},
		{"ops3", pOpTrees(3), 1, 1},
	}
	if w.Thorough {
		fams[4].layouts = 2
		fams[5].parens, fams[5].layouts = 1, 2
		fams[6].parens, fams[6].layouts = 2, 2
		fams = append(fams, fam{"ops4", pOpTrees(4), 0, 0})
	}
	for _, fm := range fams {
		if w.Shard == 0 {
			w.Note("base_trees_"+fm.name, fm.f.N)
		}
		for i := int64(0); i < fm.f.N; i++ {
			if !w.Take() {
				continue
			}
			if w.Expired() {
				return
			}
			root := fm.f.At(i).(*rt.Node)
			prog := []*rt.Node{root}
			src, _ := rt.PrintProg(prog, nil)
			if !c06Check(w, fm.name, prog, src) {
				continue
			}
			if w.WantSample() && i%211 == 0 {
				w.Sample(map[string]any{"text": src, "tree": rt.Sexp(root)})
			}
			if fm.parens > 0 {
				c06Parens(w, fm.name+"+parens", root, fm.parens)
			}
			if fm.layouts > 0 {
				c06Layouts(w, fm.name+"+layout", prog, fm.layouts)
			}
		}
	}
	// statement boundaries: every way a statement can end x every way the next one can begin, over every
	// separator — the boundary is the line break (or `;`), whatever stands on either side of it
	{
		I, S, Id := rt.Int, rt.Str, rt.Id
		enders := []nodeFn{
			func() *rt.Node { return rt.Assign("=", Id("a"), I(1)) }, func() *rt.Node { return rt.Assign("=", Id("a"), Id("b")) }, func() *rt.Node { return rt.Call("f", Id("a")) },
			func() *rt.Node { return rt.Index("a", I(0)) }, func() *rt.Node { return rt.If(Id("a"), rt.Block(Id("b"))) }, func() *rt.Node { return rt.For(nil, nil, nil, rt.Block(rt.Break())) },
			func() *rt.Node { return rt.Assign("=", Id("x"), rt.List(I(1))) }, func() *rt.Node { return rt.Assign("=", Id("x"), rt.Map(S("k"), I(1))) }, func() *rt.Node { return S("s") },
			func() *rt.Node { return rt.Attr(Id("a"), Id("b")) }, func() *rt.Node { return rt.Assign("+=", Id("a"), rt.Un("-", Id("b"))) }, func() *rt.Node { return rt.Bool(true) },
		}
		starters := []nodeFn{
			func() *rt.Node { return rt.Un("-", Id("b")) }, func() *rt.Node { return rt.Un("+", Id("b")) }, func() *rt.Node { return rt.Un("!", Id("c")) }, func() *rt.Node { return I(-5) },
			func() *rt.Node { return rt.Paren(Id("a")) }, func() *rt.Node { return rt.List(I(1)) }, func() *rt.Node { return rt.Map(S("k"), I(1)) }, func() *rt.Node { return S("t") },
			func() *rt.Node { return rt.NoObjIndex(I(0)) }, func() *rt.Node { return rt.Assign("=", rt.Un("-", Id("b")), I(1)) }, func() *rt.Node { return rt.Call("g") },
		}
		for _, en := range enders {
			for _, sta := range starters {
				if !w.Take() {
					continue
				}
				prog := []*rt.Node{en(), sta(), rt.Assign("=", Id("z"), I(0))}
				for _, g := range []string{"", "\n\n", ";", " # c\n", "\r\n", " ;\n"} {
					src, _ := rt.PrintProg(prog, func(i, kind int) string {
						if kind == rt.SiteBetween && g != "" {
							return g
						}
						return ""
					})
					c06Check(w, "boundary", prog, src)
				}
			}
		}
	}
	// statement sequences: separators between two and three statements
	st := pStatements()
	step := int64(7)
	for i := int64(0); i+2 < st.N; i += step {
		if !w.Take() {
			continue
		}
		prog := []*rt.Node{st.At(i).(*rt.Node), st.At(i + 1).(*rt.Node), st.At(i + 2).(*rt.Node)}
		src, _ := rt.PrintProg(prog, nil)
		if c06Check(w, "sequence", prog, src) {
			c06LayoutsBetween(w, prog)
		}
	}
}

// c06LayoutsBetween varies only the statement separators (all combinations).
func c06LayoutsBetween(w *run.Worker, prog []*rt.Node) {
	_, sites := rt.PrintProg(prog, nil)
	var seps []int
	for i, k := range sites {
		if k == rt.SiteBetween {
			seps = append(seps, i)
		}
	}
	// only the top-level separators (first two found at depth 0 are enough; all are tried pairwise)
	gaps := c06Gaps[rt.SiteBetween]
	for a := 0; a < len(seps); a++ {
		for b := a + 1; b < len(seps); b++ {
			for _, g1 := range gaps {
				for _, g2 := range gaps {
					src, _ := rt.PrintProg(prog, func(i, kind int) string {
						if i == seps[a] {
							return g1
						}
						if i == seps[b] {
							return g2
						}
						return ""
					})
					c06Check(w, "sequence+layout", prog, src)
				}
			}
		}
	}
	// leading / trailing separators and comments around the whole program
	base, _ := rt.PrintProg(prog, nil)
	for _, pre := range []string{"\n", "\n\n", "# c\n", " ", "\t\n", "# c\n\n"} {
		c06Check(w, "sequence+layout", prog, pre+base)
	}
	for _, post := range []string{"\n", "\n\n", ";", "; \n", "\n# c\n", " # c", "\n# c", "#", " #", "\n#", "#\n"} {
		c06Check(w, "sequence+layout", prog, base+post)
	}
}

func c06Replay(raw json.RawMessage) (bool, string) {
	var c c06Case
	if err := json.Unmarshal(raw, &c); err != nil {
		return false, err.Error()
	}
	if c.Before != "" {
		_, _ = parser.ParsePipeline("r.p", c.Before)
	}
	got, err := parseTree(c.Source)
	if err != nil {
		return true, "rejected: " + err.Error()
	}
	s := rt.SexpProg(got)
	return s != c.Want, fmt.Sprintf("parsed  : %s\nexpected: %s", s, strings.TrimSpace(c.Want))
}

func init() {
	run.Register(&run.Check{
		ID:    "C06",
		Level: "model_checking",
		Rule: "every expression tree with 1..3 (thorough 4) binary operators over all 14 operators in all shapes, every unary/binary placement, every pair of 47 primary-expression forms (calls with positional and named arguments, index chains, the 24 slice forms, attribute chains, list/map literals, sign-folded literals) under every operator, " +
			"every statement form (6 assignment kinds, tuple assignment, if/elif/else, the 8 for shapes with expression and assignment clauses, for-in) over 12 expression representatives; each printed with the minimal parentheses of the documented table, " +
			"then with every choice of <=2 redundant parenthesis pairs and every choice of <=2 layout insertions (space, tab, newline, blank line, comment) at the admissible sites; every 16th text is parsed directly after one of 16 rejected texts (unbalanced brackets, open strings, lexer errors, a fault in the last token); oracle: parsed tree == generated tree",
		Assumptions: []string{"reference precedence: documented table + unary above * / % + `in` between && and comparisons (gram.y and the IDE grammar agree)"},
		Run:            c06Run,
		Replay:         c06Replay,
		QuickBudget:    4 * time.Minute,
		ThoroughBudget: 30 * time.Minute,
	})
}
