package checks

import (
	"encoding/json"
	"fmt"
	"strings"
	"time"

	plrt "github.com/GuanceCloud/platypus/pkg/engine/runtime"

	"verif/mc/internal/drv"
	"verif/mc/internal/rt"
	"verif/mc/internal/run"
)

// C03 — control flow and variable scoping behave as specified.

type c03Case struct {
	Part   string `json:"part"`
	Source string `json:"source"`
}

func c03Point() PointSpec {
	return PointSpec{Meas: "m", Tags: map[string]string{"tg": "tv"}, Fields: map[string]any{"pk": "pv", "message": "msg", "n0": int64(0), "fz": 0.0, "es": ""}}
}

// one representative (or more) of every truthiness class
func c03Conds() []nodeFn {
	I, S, Id := rt.Int, rt.Str, rt.Id
	return []nodeFn{
		func() *rt.Node { return rt.Nil() },
		func() *rt.Node { return I(0) }, func() *rt.Node { return I(1) }, func() *rt.Node { return I(-3) },
		func() *rt.Node { return rt.Float(0) }, func() *rt.Node { return rt.Float(0.5) },
		func() *rt.Node { return S("") }, func() *rt.Node { return S("a") }, func() *rt.Node { return S("0") },
		func() *rt.Node { return rt.List() }, func() *rt.Node { return rt.List(I(0)) },
		func() *rt.Node { return rt.Map() }, func() *rt.Node { return rt.Map(S("a"), I(0)) },
		func() *rt.Node { return rt.Bool(true) }, func() *rt.Node { return rt.Bool(false) },
		func() *rt.Node { return Id("q") },  // absent name
		func() *rt.Node { return Id("pk") }, // point key (non-empty string)
		func() *rt.Node { return Id("n0") }, // point key int 0
		func() *rt.Node { return Id("fz") }, // point key float 0
		func() *rt.Node { return Id("es") }, // point key ""
		func() *rt.Node { return Id("tg") }, // tag
		func() *rt.Node { return Id("x") },  // variable (0)
		func() *rt.Node { return rt.Bin("<", Id("x"), I(2)) },
		func() *rt.Node { return rt.Un("!", Id("x")) },
		func() *rt.Node { return rt.Call("len", S("")) },
		func() *rt.Node { return rt.Float(-0.0) },
		func() *rt.Node { return rt.Float(1e-20) }, func() *rt.Node { return rt.Float(-3e-300) }, func() *rt.Node { return rt.Float(5e-324) }, // truthy: only 0 is false
	}
}

// the canary: a script loaded once per worker that only reads names. It is
// run directly after every program (no load in between, as a host running
// loaded scripts back to back does): a name no script of THIS run assigned
// reads the point's key or nil, whatever ran before.
// (besides reading names the canary holds one construct of every kind: whatever a later parse or load
// does to storage the canary's tree lives in shows in its next run)
const c03CanarySrc = "p(x, y, z, v, w, u, i, lst, mp, pk, n0, _)\n" +
	"if pk == \"nope\" { p(101) } elif n0 == 0 { p(102) } elif pk == \"pv\" { p(103) } else { p(104) }\n" +
	"if n0 { p(107) } elif pk { if true { p(108) } } else { p(109) }\n" +
	"for cq = 0; cq < 2; cq = cq + 1 { if cq == 1 { p(105, cq) } }\n" +
	"for ce in [\"a\", \"b\"] { p(106, ce) }\n" +
	"p({\"k\": [1, \"two\"]}, \"lit\\t\" + 'q', -3, 1.5, [1, 2, 3][1:], `pk`)\n"

var (
	c03Canary     *plrt.Script
	c03CanaryWant string
)

func c03RunCanary() (string, string) {
	res := drv.Run(c03Canary, c03Point().real().Build(), &drv.Sig{FireAt: realPollCap})
	if res.Panic != "" {
		return "PANIC " + res.Panic, ""
	}
	return strings.Join(res.Trace, ";") + "|" + fmt.Sprint(res.Err), res.Point
}

func c03Exec(w *run.Worker, part string, stmts []*rt.Node) {
	if c03Canary == nil {
		sc, err := drv.Load1("canary.p", c03CanarySrc)
		if err != nil {
			w.Violate("C03:harness:canary-does-not-load", err.Error(), c03Case{Part: "canary", Source: c03CanarySrc})
			return
		}
		c03Canary = sc
		c03CanaryWant, _ = c03RunCanary()
		if want := `p(nil,nil,nil,nil,nil,nil,nil,nil,nil,s:"pv",i:0,s:"msg");p(i:102);p(i:108);p(i:105,i:1);p(i:106,s:"a");p(i:106,s:"b");p({"k":[i:1,s:"two"]},s:"lit\tq",i:-3,f:1.5,[i:2,i:3],s:"pv")|<nil>`; c03CanaryWant != want {
			w.Violate("C03:canary:first-run-in-fresh-worker", fmt.Sprintf("canary gives %s, expected %s", c03CanaryWant, want), c03Case{Part: "canary", Source: c03CanarySrc})
		}
	}
	p := &Prog{Scripts: map[string][]*rt.Node{"s.p": stmts}, Main: "s.p", Point: c03Point()}
	w.Eval()
	v := Differential(p)
	w.Outcome(v.Outcome)
	if got, _ := c03RunCanary(); got != c03CanaryWant {
		w.Violate("C03:canary:names-bound-by-an-earlier-run", fmt.Sprintf("after the program below ran, a script that only reads names sees %s instead of %s\n%s", got, c03CanaryWant, p.Sources()["s.p"]),
			c03Case{Part: "canary", Source: p.Sources()["s.p"]})
	}
	if v.Skipped != "" {
		w.Note("unspecified_cells_skipped", 1)
		return
	}
	if !v.OK {
		w.Violate("C03:"+part+":"+v.Key, v.What, c03Case{Part: part, Source: p.Sources()["s.p"]})
	} else if w.WantSample() && w.Index()%1531 == 0 {
		w.Sample(map[string]any{"program": p.Sources()["s.p"], "trace": v.Real.Trace})
	}
}

func c03Truthiness(w *run.Worker) {
	I, Id := rt.Int, rt.Id
	conds := c03Conds()
	x0 := func() *rt.Node { return rt.Assign("=", Id("x"), I(0)) }
	for _, c1 := range conds {
		for _, c2 := range conds {
			if !w.Take() {
				continue
			}
			c03Exec(w, "truthiness", []*rt.Node{x0(),
				rt.If(c1(), rt.Block(rt.Call("p", I(1))), c2(), rt.Block(rt.Call("p", I(2))), rt.Block(rt.Call("p", I(3)))),
				rt.Call("p", I(4))})
		}
		if w.Take() {
			// as a for condition (bounded by break)
			c03Exec(w, "truthiness-for", []*rt.Node{x0(),
				rt.For(rt.Assign("=", Id("i"), I(0)), c1(), rt.Assign("=", Id("i"), rt.Bin("+", Id("i"), I(1))),
					rt.Block(rt.Call("p", Id("i")), rt.If(rt.Bin(">=", Id("i"), I(1)), rt.Block(rt.Break())))),
				rt.Call("p", Id("i"))})
		}
		if w.Take() {
			c03Exec(w, "truthiness-if", []*rt.Node{x0(), rt.If(c1(), rt.Block(rt.Call("p", I(1)))), rt.Call("p", I(2))})
		}
		// two bare nested guards: each follows the truthiness table on its own
		for _, c2 := range conds {
			if !w.Take() {
				continue
			}
			c03Exec(w, "truthiness-nested-guards", []*rt.Node{x0(), rt.If(c1(), rt.Block(rt.If(c2(), rt.Block(rt.Call("p", I(1)))))), rt.Call("p", I(2))})
		}
	}
}

func c03Iterables() []nodeFn {
	I, S, Id := rt.Int, rt.Str, rt.Id
	return []nodeFn{
		func() *rt.Node { return rt.List(I(1), I(2)) },
		func() *rt.Node { return rt.List() },
		func() *rt.Node { return rt.List(rt.List(I(1)), S("s"), rt.Nil(), rt.Float(1.5), rt.Bool(true)) },
		func() *rt.Node { return S("ab") },
		func() *rt.Node { return S("") },
		func() *rt.Node { return S("é!") },
		func() *rt.Node { return rt.Map(S("k"), I(1)) },
		func() *rt.Node { return rt.Map(S("a"), I(1), S("b"), I(2)) },
		func() *rt.Node { return rt.Map() },
		func() *rt.Node { return Id("pk") },
		func() *rt.Node { return Id("tg") },
		func() *rt.Node { return Id("n0") },
		func() *rt.Node { return Id("q") },
		func() *rt.Node { return Id("lst") },
		func() *rt.Node { return Id("mp") },
		func() *rt.Node { return rt.Slice(Id("lst"), I(1), nil, nil, false) },
		func() *rt.Node { return rt.Call("load_json", S("[1,2]")) },
	}
}

func c03ForIn(w *run.Worker) {
	I, S, Id := rt.Int, rt.Str, rt.Id
	bodies := []func() []*rt.Node{
		func() []*rt.Node { return []*rt.Node{rt.Call("p", Id("v"))} },
		func() []*rt.Node { return []*rt.Node{rt.Call("p", Id("v")), rt.Continue(), rt.Call("p", I(0))} },
		func() []*rt.Node { return []*rt.Node{rt.Call("p", Id("v")), rt.Break(), rt.Call("p", I(0))} },
		func() []*rt.Node {
			return []*rt.Node{rt.Assign("=", Id("w"), Id("v")), rt.Assign("=", Id("x"), rt.Bin("+", Id("x"), I(1))), rt.Call("p", Id("w"), Id("x"))}
		},
		func() []*rt.Node {
			return []*rt.Node{rt.If(rt.Bin("==", Id("x"), I(1)), rt.Block(rt.Break())), rt.Assign("=", Id("x"), rt.Bin("+", Id("x"), I(1))), rt.Call("p", Id("v"))}
		},
		func() []*rt.Node {
			return []*rt.Node{rt.Assign("=", rt.Index("lst", I(0)), I(9)), rt.Call("p", Id("v"))}
		},
		func() []*rt.Node {
			return []*rt.Node{rt.ForIn("u", rt.List(I(7), I(8)), rt.Block(rt.If(rt.Bin("==", Id("u"), I(8)), rt.Block(rt.Break())), rt.Call("p", Id("v"), Id("u")))), rt.Call("p", Id("u"))}
		},
		func() []*rt.Node { return []*rt.Node{rt.Assign("=", Id("v"), I(100)), rt.Call("p", Id("v"))} },
		// a body-local read before it is assigned: it does not survive from the previous iteration
		func() []*rt.Node { return []*rt.Node{rt.Call("p", Id("w"), Id("v")), rt.Assign("=", Id("w"), Id("v"))} },
		func() []*rt.Node {
			return []*rt.Node{rt.If(rt.Bin("==", Id("w"), rt.Nil()), rt.Block(rt.Call("p", I(1))), rt.Block(rt.Call("p", I(2), Id("w")))), rt.Assign("=", Id("w"), I(5)), rt.Assign("=", Id("w2"), I(6))}
		},
		// a for-in over a map inside the loop (the loops keep their own key lists)
		func() []*rt.Node {
			return []*rt.Node{rt.ForIn("u", rt.Map(S("x"), I(1), S("y"), I(2)), rt.Block(rt.Call("p", Id("v"), Id("u")))), rt.Call("p", Id("v"))}
		},
		// an else branch taken inside the body, then a body-local: gone in the next iteration and after the loop
		func() []*rt.Node {
			return []*rt.Node{rt.Call("p", Id("w2")), rt.If(rt.Bool(false), rt.Block(), rt.Block(rt.Assign("=", Id("e1"), I(1)))), rt.Assign("=", Id("w2"), Id("v")), rt.Call("p", Id("e1"))}
		},
		func() []*rt.Node { return nil },
	}
	for _, it := range c03Iterables() {
		for _, vn := range []string{"v", "x", "_", "pk"} {
			for _, b := range bodies {
				if !w.Take() {
					continue
				}
				body := b()
				if vn != "v" {
					// rename loop variable uses
					for _, s := range body {
						renameIdent(s, "v", vn)
					}
				}
				stmts := []*rt.Node{
					rt.Assign("=", Id("x"), I(0)),
					rt.Assign("=", Id("lst"), rt.List(I(5), I(6), I(7))),
					rt.Assign("=", Id("mp"), rt.Map(S("k1"), I(1), S("k2"), I(2))),
					rt.ForIn(vn, it(), rt.Block(body...)),
					rt.Call("p", Id("x"), Id(vn), Id("w"), Id("u"), Id("lst"), Id("w2"), Id("e1")),
				}
				c03Exec(w, "for-in", stmts)
			}
		}
	}
}

// c03ForInAgain: a for-in statement executed several times (inside an outer loop, three-clause or
// for-in) while the names its iterable mentions change: every execution iterates over the values of
// that moment, in order.
func c03ForInAgain(w *run.Worker) {
	I, S, Id := rt.Int, rt.Str, rt.Id
	iters := append(c03Iterables(),
		func() *rt.Node { return rt.List(Id("x"), I(1)) },
		func() *rt.Node { return rt.List(rt.List(Id("x"), I(1)), rt.List(Id("o"), I(2))) },
		func() *rt.Node { return rt.List(rt.Map(S("k"), Id("x"))) },
		func() *rt.Node { return rt.List(S("s"), rt.List(rt.List(Id("x")))) },
		func() *rt.Node { return rt.List(rt.Bin("+", Id("x"), I(1))) },
		func() *rt.Node { return rt.List(Id("lst"), Id("x")) },
		func() *rt.Node { return rt.List(rt.Index("lst", I(0)), rt.List(rt.Index("lst", I(0)))) },
		func() *rt.Node { return rt.Map(S("a"), Id("x")) },
		func() *rt.Node { return rt.List(rt.List(S("pk"), Id("pk"))) },
		func() *rt.Node { return rt.List(rt.List(I(1), I(2)), rt.List(I(3))) },
	)
	inner := []func() []*rt.Node{
		func() []*rt.Node { return []*rt.Node{rt.Call("p", Id("v"))} },
		func() []*rt.Node {
			return []*rt.Node{rt.If(rt.Bin("==", Id("v"), rt.List(I(20), I(1))), rt.Block(rt.Continue())), rt.Call("p", Id("v"), Id("x"))}
		},
		// the body writes into the element it was handed
		func() []*rt.Node {
			return []*rt.Node{rt.Call("p", Id("v")), rt.If(rt.Bin("==", Id("o"), I(1)), rt.Block(rt.Assign("=", Id("v"), I(0))))}
		},
	}
	outers := []func(body []*rt.Node) *rt.Node{
		func(body []*rt.Node) *rt.Node { return rt.ForIn("o", rt.List(I(1), I(2), I(3)), rt.Block(body...)) },
		func(body []*rt.Node) *rt.Node {
			return rt.For(rt.Assign("=", Id("o"), I(1)), rt.Bin("<", Id("o"), I(4)), rt.Assign("=", Id("o"), rt.Bin("+", Id("o"), I(1))), rt.Block(body...))
		},
	}
	for _, it := range iters {
		for _, in := range inner {
			for _, out := range outers {
				if !w.Take() {
					continue
				}
				body := []*rt.Node{
					rt.Assign("=", Id("x"), rt.Bin("*", Id("o"), I(10))),
					rt.Assign("=", rt.Index("lst", I(0)), Id("x")),
					rt.Call("add_key", Id("pk"), Id("x")),
					rt.ForIn("v", it(), rt.Block(in()...)),
				}
				stmts := []*rt.Node{
					rt.Assign("=", Id("x"), I(0)),
					rt.Assign("=", Id("lst"), rt.List(I(5), I(6), I(7))),
					rt.Assign("=", Id("mp"), rt.Map(S("k1"), I(1), S("k2"), I(2))),
					out(body),
					rt.Call("p", Id("x"), Id("v"), Id("o"), Id("lst")),
				}
				c03Exec(w, "for-in-again", stmts)
			}
		}
	}
}

func renameIdent(n *rt.Node, from, to string) {
	if n == nil {
		return
	}
	if n.K == rt.KIdent && n.S == from {
		n.S = to
	}
	for _, k := range n.Kids {
		renameIdent(k, from, to)
	}
}

// ---- structural enumeration by size -----------------------------------------

// senum builds indexable families of statements / blocks of an exact size.
type senum struct {
	simple   []nodeFn
	loopOnly []nodeFn
	conds    []nodeFn
	forInits []nodeFn // nil entry = omitted
	forConds []nodeFn
	forSteps []nodeFn
	forIns   []func(body *rt.Node) *rt.Node
	maxDepth int
	memoS    map[[3]int]*Fam
	memoB    map[[3]int]*Fam
}

func b2i(b bool) int {
	if b {
		return 1
	}
	return 0
}

func asNodes(x any) []*rt.Node {
	if x == nil {
		return nil
	}
	return x.([]*rt.Node)
}

func leavesOf(fs []nodeFn) Fam {
	var ls []func() any
	for _, f := range fs {
		f := f
		ls = append(ls, func() any { return f() })
	}
	return Leaves(ls...)
}

// stmts: all single statements of exactly the given size (values: *rt.Node).
func (e *senum) stmts(size int, inLoop bool, depth int) Fam {
	key := [3]int{size, b2i(inLoop), depth}
	if r, ok := e.memoS[key]; ok {
		return *r
	}
	var parts []Fam
	if size == 1 {
		parts = append(parts, leavesOf(e.simple))
		if inLoop {
			parts = append(parts, leavesOf(e.loopOnly))
		}
	}
	if depth < e.maxDepth && size >= 1 {
		inner := size - 1
		for _, c := range e.conds {
			c := c
			parts = append(parts, MapFam(e.blocks(inner, inLoop, depth+1), func(b any) any {
				return rt.If(c(), rt.Block(asNodes(b)...))
			}))
		}
		for k1 := 0; k1 <= inner; k1++ {
			for _, c := range e.conds {
				c := c
				parts = append(parts, Prod(e.blocks(k1, inLoop, depth+1), e.blocks(inner-k1, inLoop, depth+1), func(b1, b2 any) any {
					return rt.If(c(), rt.Block(asNodes(b1)...), rt.Block(asNodes(b2)...))
				}))
			}
		}
		// if / elif / else with blocks of size <= 1 each
		for k1 := 0; k1 <= 1 && k1 <= inner; k1++ {
			for k2 := 0; k2 <= 1 && k1+k2 <= inner; k2++ {
				k3 := inner - k1 - k2
				if k3 > 1 {
					continue
				}
				for _, c := range e.conds {
					for _, c2 := range e.conds {
						c, c2 := c, c2
						parts = append(parts, Prod3(e.blocks(k1, inLoop, depth+1), e.blocks(k2, inLoop, depth+1), e.blocks(k3, inLoop, depth+1), func(b1, b2, b3 any) any {
							return rt.If(c(), rt.Block(asNodes(b1)...), c2(), rt.Block(asNodes(b2)...), rt.Block(asNodes(b3)...))
						}))
					}
				}
			}
		}
		for _, in := range e.forInits {
			for _, c := range e.forConds {
				for _, st := range e.forSteps {
					in, c, st := in, c, st
					parts = append(parts, MapFam(e.blocks(inner, true, depth+1), func(b any) any {
						var i0, c0, s0 *rt.Node
						if in != nil {
							i0 = in()
						}
						if c != nil {
							c0 = c()
						}
						if st != nil {
							s0 = st()
						}
						return rt.For(i0, c0, s0, rt.Block(asNodes(b)...))
					}))
				}
			}
		}
		for _, fi := range e.forIns {
			fi := fi
			parts = append(parts, MapFam(e.blocks(inner, true, depth+1), func(b any) any {
				return fi(rt.Block(asNodes(b)...))
			}))
		}
	}
	f := Sum(parts...)
	e.memoS[key] = &f
	return f
}

// blocks: all statement lists (length 0..2) of exactly the given total size
// (values: []*rt.Node).
func (e *senum) blocks(size int, inLoop bool, depth int) Fam {
	key := [3]int{size, b2i(inLoop), depth}
	if r, ok := e.memoB[key]; ok {
		return *r
	}
	var parts []Fam
	if size == 0 {
		parts = append(parts, Leaves(func() any { return []*rt.Node(nil) }))
	} else {
		parts = append(parts, MapFam(e.stmts(size, inLoop, depth), func(s any) any { return []*rt.Node{s.(*rt.Node)} }))
		for k := 1; k < size; k++ {
			parts = append(parts, Prod(e.stmts(k, inLoop, depth), e.stmts(size-k, inLoop, depth), func(a, b any) any {
				return []*rt.Node{a.(*rt.Node), b.(*rt.Node)}
			}))
		}
	}
	f := Sum(parts...)
	e.memoB[key] = &f
	return f
}

func c03Enum() *senum {
	I, S, Id := rt.Int, rt.Str, rt.Id
	inc := func(v string) *rt.Node { return rt.Assign("=", Id(v), rt.Bin("+", Id(v), I(1))) }
	return &senum{
		simple: []nodeFn{
			func() *rt.Node { return rt.Call("p", Id("x"), Id("y")) },
			func() *rt.Node { return inc("x") },
			func() *rt.Node { return rt.Assign("=", Id("y"), I(7)) },
			func() *rt.Node { return rt.Assign("+=", Id("x"), I(10)) },
			func() *rt.Node { return rt.Assign("=", Id("pk"), Id("x")) },
			func() *rt.Node { return rt.Call("p", Id("pk"), Id("_")) },
			func() *rt.Node { return rt.Assign("=", Id("pk"), rt.Nil()) }, // a nil-valued variable still shadows the point key
			func() *rt.Node { return rt.Assign("+=", Id("n0"), I(5)) },    // compound assignment to a name that is only a point key
			func() *rt.Node { return rt.Assign("=", Id("x"), rt.Bin("/", Id("x"), Id("n0"))) }, // a run-time error (n0 is 0 unless assigned)
			func() *rt.Node { return rt.Assign("=", Id("w"), Id("x")) },                            // a name only ever assigned by such statements (block-local wherever it runs)
		},
		loopOnly: []nodeFn{func() *rt.Node { return rt.Break() }, func() *rt.Node { return rt.Continue() }},
		conds: []nodeFn{
			func() *rt.Node { return rt.Bool(true) },
			func() *rt.Node { return rt.Bin("<", Id("x"), I(2)) },
			func() *rt.Node { return Id("y") },
		},
		forInits: []nodeFn{nil, func() *rt.Node { return rt.Assign("=", Id("y"), I(0)) }},
		forConds: []nodeFn{nil, func() *rt.Node { return rt.Bin("<", Id("x"), I(2)) }},
		forSteps: []nodeFn{nil, func() *rt.Node { return inc("x") }, func() *rt.Node { return rt.Assign("=", Id("z"), Id("x")) }, // first assigns a name in the post clause
			func() *rt.Node { return rt.Call("p", I(7), Id("y"), Id("w")) }}, // probes y and w, which a body may assign: the body's names are gone when the post clause runs
		forIns: []func(body *rt.Node) *rt.Node{
			func(b *rt.Node) *rt.Node { return rt.ForIn("y", rt.List(I(1), I(2)), b) },
			func(b *rt.Node) *rt.Node { return rt.ForIn("x", rt.Str("ab"), b) },
			func(b *rt.Node) *rt.Node { return rt.ForIn("v", rt.Map(S("a"), I(1), S("b"), I(2)), b) },
		},
		maxDepth: 3,
		memoS:    map[[3]int]*Fam{},
		memoB:    map[[3]int]*Fam{},
	}
}

func c03Structural(w *run.Worker) {
	I, Id := rt.Int, rt.Id
	e := c03Enum()
	maxSize := 3
	if w.Thorough {
		maxSize = 4
	}
	for size := 1; size <= maxSize; size++ {
		if size == 4 {
			// the largest size over a reduced alphabet (6 simple statements, 12 for shapes), so that the tier completes
			full := c03Enum()
			e = &senum{simple: []nodeFn{full.simple[0], full.simple[1], full.simple[2], full.simple[4], full.simple[7], full.simple[8]}, loopOnly: full.loopOnly, conds: full.conds,
				forInits: full.forInits, forConds: full.forConds, forSteps: full.forSteps[:3], forIns: full.forIns, maxDepth: 3, memoS: map[[3]int]*Fam{}, memoB: map[[3]int]*Fam{}}
		}
		// programs: x = 0 ; <one or two statements of this total size> ; p(x, y)
		fam := e.blocks(size, false, 0)
		if w.Shard == 0 {
			w.Note(fmt.Sprintf("programs_of_size_%d", size), fam.N)
		}
		for i := int64(0); i < fam.N; i++ {
			if !w.Take() {
				continue
			}
			if w.Expired() {
				return
			}
			stmts := []*rt.Node{rt.Assign("=", Id("x"), I(0))}
			stmts = append(stmts, asNodes(fam.At(i))...)
			stmts = append(stmts, rt.Call("p", Id("x"), Id("y"), Id("pk"), Id("z"), Id("n0"), Id("w")))
			c03Exec(w, "structure", stmts)
		}
	}
}

// c03Chains: if/elif chains of 3 and 4 branches whose conditions compare ONE name with literals, some
// literal repeated, the operands in either order: the first branch whose condition holds runs, whatever
// a table built from the literals would say.
func c03Chains(w *run.Worker, exec func(part string, stmts []*rt.Node)) {
	I, S, Id := rt.Int, rt.Str, rt.Id
	conds := []nodeFn{
		func() *rt.Node { return rt.Bin("==", Id("x"), S("a")) }, func() *rt.Node { return rt.Bin("==", Id("x"), S("b")) },
		func() *rt.Node { return rt.Bin("==", S("a"), Id("x")) }, func() *rt.Node { return rt.Bin("==", Id("x"), I(1)) },
		func() *rt.Node { return rt.Bin("!=", Id("x"), S("a")) },
	}
	vals := []nodeFn{func() *rt.Node { return S("a") }, func() *rt.Node { return S("b") }, func() *rt.Node { return S("c") }, func() *rt.Node { return I(1) }, rt.Nil, func() *rt.Node { return Id("pk") }}
	for n := 3; n <= 4; n++ {
		total := 1
		for i := 0; i < n; i++ {
			total *= len(conds)
		}
		for code := 0; code < total; code++ {
			for _, withElse := range []bool{false, true} {
				for _, v := range vals {
					if !w.Take() {
						continue
					}
					var args []*rt.Node
					c := code
					for b := 0; b < n; b++ {
						args = append(args, conds[c%len(conds)](), rt.Block(rt.Call("p", I(int64(b+1)))))
						c /= len(conds)
					}
					if withElse {
						args = append(args, rt.Block(rt.Call("p", I(0))))
					}
					exec("chain", []*rt.Node{rt.Assign("=", Id("x"), v()), rt.If(args...), rt.Call("p", I(9))})
				}
			}
		}
	}
}

// c03Rounds: loop bodies whose statements depend on the round: a name assigned at body level in one
// round, inside a nested block in another, read in between and after the loop. Every round starts with
// a fresh body frame; a name first assigned inside a nested block ends with that block.
func c03Rounds(w *run.Worker, exec func(part string, stmts []*rt.Node)) {
	I, Id := rt.Int, rt.Id
	for _, name := range []string{"y", "pk"} {
		y := func() *rt.Node { return Id(name) }
		pool := []nodeFn{
			func() *rt.Node { return rt.Assign("=", y(), Id("i")) },
			func() *rt.Node { return rt.Call("p", y()) },
			func() *rt.Node { return rt.If(rt.Bin("==", Id("i"), I(1)), rt.Block(rt.Assign("=", y(), I(10)))) },
			func() *rt.Node { return rt.If(rt.Bin("==", Id("i"), I(2)), rt.Block(rt.Assign("=", y(), I(20)))) },
			func() *rt.Node { return rt.If(rt.Bin(">=", Id("i"), I(2)), rt.Block(rt.Call("p", y()))) },
			func() *rt.Node {
				return rt.If(rt.Bin("==", Id("i"), I(2)), rt.Block(rt.If(rt.Bool(true), rt.Block(rt.Assign("=", y(), I(30)))), rt.Call("p", y())))
			},
		}
		loops := []func(body *rt.Node) *rt.Node{
			func(body *rt.Node) *rt.Node { return rt.ForIn("i", rt.List(I(1), I(2), I(3)), body) },
			func(body *rt.Node) *rt.Node {
				return rt.For(rt.Assign("=", Id("i"), I(1)), rt.Bin("<=", Id("i"), I(3)), rt.Assign("=", Id("i"), rt.Bin("+", Id("i"), I(1))), body)
			},
		}
		for n := 2; n <= 4; n++ {
			total := 1
			for i := 0; i < n; i++ {
				total *= len(pool)
			}
			for code := 0; code < total; code++ {
				for _, l := range loops {
					if !w.Take() {
						continue
					}
					var body []*rt.Node
					c := code
					for b := 0; b < n; b++ {
						body = append(body, pool[c%len(pool)]())
						c /= len(pool)
					}
					exec("rounds", []*rt.Node{l(rt.Block(body...)), rt.Call("p", y())})
				}
			}
		}
	}
}

// c03DupNames: an input point in which one name is a tag AND a field (hosts merge records that way).
// The tag is what a read of the name yields (pinned: InitPt indexes tags after fields) - whatever the
// type of the same-named field's value: the program behaves as on the point that has the tag only.
func c03DupNames(w *run.Worker) {
	src := "p(svc)\nif svc { p(1) } else { p(2) }\nx = svc\np(x, x == \"api\")\nfor c in svc { p(c) }\nl = [svc, 1]\np(l)\n"
	sc, err := drv.Load1("dup.p", src)
	if err != nil {
		w.Violate("C03:harness:dup-names-script-does-not-load", err.Error(), c03Case{Part: "dup-names", Source: src})
		return
	}
	runOn := func(fields map[string]any) string {
		res := drv.Run(sc, PointSpec{Meas: "m", Tags: map[string]string{"svc": "api"}, Fields: fields}.real().Build(), &drv.Sig{FireAt: realPollCap})
		if res.Panic != "" {
			return "PANIC " + res.Panic
		}
		return strings.Join(res.Trace, ";") + "|" + fmt.Sprint(res.Err)
	}
	for i, v := range []any{nil, int64(7), 2.5, true, false, "field text", "", int64(0)} {
		if !w.Take() {
			continue
		}
		w.Eval()
		want := runOn(map[string]any{"other": int64(1)})
		got := runOn(map[string]any{"other": int64(1), "svc": v})
		w.Outcome("dup-names|" + got)
		if got != want {
			w.Violate("C03:dup-names:read-depends-on-the-same-named-field", fmt.Sprintf("tag svc=\"api\" and field svc=%#v (case %d): %s\nwith the tag only: %s\n%s", v, i, got, want, src), c03Case{Part: "dup-names", Source: src})
		}
	}
}

// c03Counted: counting loops in their usual spellings - for c = A; c < B; c = c + 1 - with the counter a
// fresh name or a variable of the enclosing block, bounds that are constants, another variable, an
// expression reading the counter; bodies that leave it alone, change it, change the bound, break or
// continue. The counter and everything else are read after the loop: the loop runs clause by clause.
func c03Counted(w *run.Worker, exec func(part string, stmts []*rt.Node)) {
	I, Id := rt.Int, rt.Id
	for _, c := range []string{"i", "x"} {
		cv := func() *rt.Node { return Id(c) }
		inits := []nodeFn{func() *rt.Node { return rt.Assign("=", cv(), I(0)) }, func() *rt.Node { return rt.Assign("=", cv(), I(1)) }, func() *rt.Node { return rt.Assign("=", cv(), I(5)) }}
		conds := []nodeFn{
			func() *rt.Node { return rt.Bin("<", cv(), I(3)) }, func() *rt.Node { return rt.Bin("<=", cv(), I(2)) }, func() *rt.Node { return rt.Bin("<", cv(), Id("b")) },
			func() *rt.Node { return rt.Bin("<", rt.Bin("*", cv(), I(2)), I(5)) }, func() *rt.Node { return rt.Bin(">", I(3), cv()) },
		}
		posts := []nodeFn{
			func() *rt.Node { return rt.Assign("=", cv(), rt.Bin("+", cv(), I(1))) }, func() *rt.Node { return rt.Assign("+=", cv(), I(1)) },
			func() *rt.Node { return rt.Assign("=", cv(), rt.Bin("+", I(1), cv())) }, func() *rt.Node { return rt.Assign("=", cv(), rt.Bin("+", cv(), I(2))) },
		}
		bodies := []func() []*rt.Node{
			func() []*rt.Node { return nil },
			func() []*rt.Node { return []*rt.Node{rt.Call("p", cv())} },
			func() []*rt.Node { return []*rt.Node{rt.Assign("=", cv(), rt.Bin("+", cv(), I(1))), rt.Call("p", cv())} },
			func() []*rt.Node { return []*rt.Node{rt.Assign("=", Id("b"), rt.Bin("-", Id("b"), I(1))), rt.Call("p", cv(), Id("b"))} },
			func() []*rt.Node { return []*rt.Node{rt.If(rt.Bin("==", cv(), I(1)), rt.Block(rt.Break())), rt.Call("p", cv())} },
			func() []*rt.Node { return []*rt.Node{rt.If(rt.Bin("==", cv(), I(1)), rt.Block(rt.Continue())), rt.Call("p", cv())} },
		}
		for _, in := range inits {
			for _, cd := range conds {
				for _, po := range posts {
					for _, bd := range bodies {
						if !w.Take() {
							continue
						}
						stmts := []*rt.Node{rt.Assign("=", Id("x"), I(7)), rt.Assign("=", Id("b"), I(4)),
							rt.For(in(), cd(), po(), rt.Block(bd()...)), rt.Call("p", cv(), Id("x"), Id("b"))}
						exec("counted-loop", stmts)
						if !w.Take() {
							continue
						}
						// the same loop one block down, its counter declared in the enclosing block
						stmts = []*rt.Node{rt.Assign("=", Id("b"), I(4)), rt.Assign("=", cv(), I(9)),
							rt.If(rt.Bool(true), rt.Block(rt.For(in(), cd(), po(), rt.Block(bd()...)), rt.Call("p", cv()))), rt.Call("p", cv(), Id("b"))}
						exec("counted-loop", stmts)
					}
				}
			}
		}
	}
}

func c03Run(w *run.Worker) {
	c03Counted(w, func(part string, stmts []*rt.Node) { c03Exec(w, part, stmts) })
	c03DupNames(w)
	c03Chains(w, func(part string, stmts []*rt.Node) { c03Exec(w, part, stmts) })
	c03Rounds(w, func(part string, stmts []*rt.Node) { c03Exec(w, part, stmts) })
	c03Truthiness(w)
	c03ForIn(w)
	c03ForInAgain(w)
	c03Structural(w)
}

func c03Replay(raw json.RawMessage) (bool, string) {
	var c c03Case
	if err := json.Unmarshal(raw, &c); err != nil {
		return false, err.Error()
	}
	if c.Part == "canary" {
		sc, err := drv.Load1("canary.p", c03CanarySrc)
		if err != nil {
			return true, err.Error()
		}
		c03Canary = sc
		want, _ := c03RunCanary()
		prog, err := drv.Load1("s.p", c.Source)
		if err != nil {
			return false, "program does not load: " + err.Error()
		}
		drv.Run(prog, c03Point().real().Build(), &drv.Sig{FireAt: realPollCap})
		got, _ := c03RunCanary()
		return got != want, fmt.Sprintf("canary alone: %s\ncanary after the program: %s", want, got)
	}
	if c.Part == "dup-names" {
		sc, err := drv.Load1("dup.p", c.Source)
		if err != nil {
			return false, err.Error()
		}
		runOn := func(fields map[string]any) string {
			res := drv.Run(sc, PointSpec{Meas: "m", Tags: map[string]string{"svc": "api"}, Fields: fields}.real().Build(), &drv.Sig{FireAt: realPollCap})
			return strings.Join(res.Trace, ";") + "|" + fmt.Sprint(res.Err) + res.Panic
		}
		want := runOn(map[string]any{"other": int64(1)})
		var b strings.Builder
		bad := false
		for _, v := range []any{nil, int64(7), 2.5, true, false, "field text", "", int64(0)} {
			got := runOn(map[string]any{"other": int64(1), "svc": v})
			fmt.Fprintf(&b, "field svc=%#v: %s\n", v, got)
			bad = bad || got != want
		}
		return bad, "with the tag only: " + want + "\n" + b.String()
	}
	return replaySource(c.Source, c03Point())
}

func init() {
	run.Register(&run.Check{
		ID:    "C03",
		Level: "model_checking",
		Rule: "(A) every ordered pair of 29 condition representatives (incl. floats of magnitude 1e-20, 3e-300 and the smallest denormal: truthy) (all truthiness classes; literals, variables, point keys, a tag, an absent name) in if/elif/else, and each as for-condition; " +
			"(B) 17 iterables (lists, strings incl. multi-byte, 0/1/2-key maps, point values, non-iterables) x 4 loop-variable names (new, an outer variable, `_`, a point key) x 11 bodies (continue, break, nested loop, shadowing, mutation during iteration, body-locals read before assignment); " +
			"(B2) 27 iterables (the 17 above + list and map literals that mention names at depth 1..3, index expressions, point keys) x 3 bodies inside an outer for-in / three-clause for that changes those names between the executions of the inner for-in; " +
			"(C) every program of total size <=3 statements (thorough: also size 4 over 6 of the simple statements and 12 of the for shapes), nesting <=3, over {probe(x,y), probe(pk,_), x=x+1, y=7, x+=10, pk=x, pk=nil, n0+=5 (a name that is only a point key), x=x/n0 (a run-time error while n0 is 0), break, continue} x if / if-else / if-elif-else x the 16 three-clause for shapes (init absent|y=0, condition absent|x<2, post absent|x=x+1|z=x|a post clause reading y) x 3 for-in forms, final probe of x, y, pk, z, n0; " +
			"ordered probe trace + final point compared with the reference interpreter; map iteration order is tried in both orders; after EVERY program a name-reading canary script (loaded once) runs with no load in between and must see only the point's keys and nil",
		Assumptions: []string{"non-terminating programs are cut by a signal after 3000 polls (real) / 40000 steps (reference) and compared as trace prefixes"},
		Run:            c03Run,
		Replay:         c03Replay,
		QuickBudget:    4 * time.Minute,
		ThoroughBudget: 30 * time.Minute,
	})
}
