package checks

import (
	"math"
	"encoding/json"
	"fmt"
	"time"

	"verif/mc/internal/rt"
	"verif/mc/internal/run"
)

// C11 — field-manipulating builtins have exactly their documented effect.

type c11Case struct {
	Source string         `json:"source"`
	Tags   map[string]string `json:"tags"`
	Fields map[string]any `json:"fields"`
}

type c11Val struct {
	Name   string
	Node   nodeFn
	Field  any  // scalar Go value for a point field (nil if not representable)
	Scalar bool // usable as a point field
	Str    bool // usable as a tag value
}

func c11Vals() []c11Val {
	I, S := rt.Int, rt.Str
	return []c11Val{
		{"int", func() *rt.Node { return I(42) }, int64(42), true, false},
		{"float", func() *rt.Node { return rt.Float(2.5) }, 2.5, true, false},
		{"bool", func() *rt.Node { return rt.Bool(true) }, true, true, false},
		{"str", func() *rt.Node { return S("abc") }, "abc", true, true},
		{"padded", func() *rt.Node { return S("  xyA a yx ") }, "  xyA a yx ", true, true},
		{"urlenc", func() *rt.Node { return S("a%20b%2Fc+d") }, "a%20b%2Fc+d", true, true},
		{"badurl", func() *rt.Node { return S("a%zzb") }, "a%zzb", true, true},
		{"json", func() *rt.Node { return S(`{"a":[1,2]}`) }, `{"a":[1,2]}`, true, true},
		{"numstr", func() *rt.Node { return S("12") }, "12", true, true},
		{"json-trailing", func() *rt.Node { return S(`{"a":1}}`) }, `{"a":1}}`, true, true},
		{"json-two-values", func() *rt.Node { return S(`[1] [2]`) }, `[1] [2]`, true, true},
		{"json-number-junk", func() *rt.Node { return S(`12abc`) }, `12abc`, true, true},
		{"empty", func() *rt.Node { return S("") }, "", true, true},
		{"plus-no-percent", func() *rt.Node { return S("q=hello+world") }, "q=hello+world", true, true},
		{"trailing-percent", func() *rt.Node { return S("100%") }, "100%", true, true},
		{"percent-utf8", func() *rt.Node { return S("%E6%97%A5+%e6%9c%ac") }, "%E6%97%A5+%e6%9c%ac", true, true},
		{"non-ascii", func() *rt.Node { return S("héllo wörld ǆ") }, "héllo wörld ǆ", true, true},
		{"tabs-newlines", func() *rt.Node { return S("\t x\ty \n") }, "\t x\ty \n", true, true},
		{"regex-special", func() *rt.Node { return S("a.b(c)$1aa") }, "a.b(c)$1aa", true, true},
		{"floatstr", func() *rt.Node { return S("-3.5") }, "-3.5", true, true},
		{"boolstr", func() *rt.Node { return S("true") }, "true", true, true},
		{"unicode-space", func() *rt.Node { return S("\u00a0\u3000x y\u2028\u0085") }, "\u00a0\u3000x y\u2028\u0085", true, true},
		{"zero-padded", func() *rt.Node { return S("010") }, "010", true, true},
		{"hexstr", func() *rt.Node { return S("0x1f") }, "0x1f", true, true},
		{"underscored", func() *rt.Node { return S("1_000") }, "1_000", true, true},
		{"expstr", func() *rt.Node { return S("1e3") }, "1e3", true, true},
		{"bigfloat", func() *rt.Node { return rt.Float(1e19) }, 1e19, true, false},
		{"negzero", func() *rt.Node { return rt.Float(math.Copysign(0, -1)) }, math.Copysign(0, -1), true, false},
		{"maxint", func() *rt.Node { return I(math.MaxInt64) }, int64(math.MaxInt64), true, false},
		{"integral-float", func() *rt.Node { return rt.Float(3) }, 3.0, true, false},
		{"list", func() *rt.Node { return rt.List(I(1), S("a")) }, nil, false, false},
		{"map", func() *rt.Node { return rt.Map(S("a"), I(1)) }, nil, false, false},
		{"nil", func() *rt.Node { return rt.Nil() }, nil, true, false},
	}
}

// key shapes: how the key argument is spelled and which key it designates
type c11Shape struct {
	Name string
	Arg  nodeFn // the argument node
	Key  string // designated key
	Var  nodeFn // how a variable of that name is written on the left of `=`
	KeyLikeOnly bool
}

func c11Shapes() []c11Shape {
	Id := rt.Id
	return []c11Shape{
		{"ident", func() *rt.Node { return Id("k") }, "k", func() *rt.Node { return Id("k") }, false},
		{"backquoted", func() *rt.Node { return rt.QId("k") }, "k", func() *rt.Node { return Id("k") }, false},
		{"string", func() *rt.Node { return rt.Str("k") }, "k", func() *rt.Node { return Id("k") }, false},
		{"underscore", func() *rt.Node { return Id("_") }, "message", func() *rt.Node { return Id("_") }, false},
		{"attr", func() *rt.Node { return rt.Attr(Id("k"), Id("sub")) }, "k.sub", func() *rt.Node { return rt.QId("k.sub") }, false},
		{"attr-index", func() *rt.Node { return rt.Attr(Id("k"), rt.Index("sub", rt.Int(0))) }, "k.sub[0]", func() *rt.Node { return rt.QId("k.sub[0]") }, false},
	}
}

// situations: where the subject lives
const (
	sitVar = iota
	sitField
	sitTag
	sitVarOverField
	sitVarOverTag
	sitAbsent
	sitCount
	// C11 only: a variable of that name existed and is gone - it was local to a loop body or a block that
	// has ended, or it was the variable of a finished for-in loop; the builtin sees the point (or nothing)
	sitGoneBodyVarOverField = sitCount
	sitGoneBlockVarAbsent   = sitCount + 1
	sitGoneLoopVarOverTag   = sitCount + 2
	sitGoneRoundVarOverField = sitCount + 3 // the builtin runs at the top of a for-in body whose previous round assigned the name further down
	sitGoneStringLoopVar     = sitCount + 4
	sitRoundValues           = sitCount + 5 // the builtin runs in every round of a for-in that gives the subject variable another value each time
	sitRenamedAwayField      = sitCount + 6 // the key was a field a moment ago: rename moved it to another name right before the builtin
	sitRenamedAwayTag        = sitCount + 7
	sitDroppedField          = sitCount + 8 // ... drop_key removed it right before the builtin
	sitCount11               = sitCount + 9
)

var c11SitNames = []string{"variable", "field", "tag", "variable-over-field", "variable-over-tag", "absent", "gone-body-variable-over-field", "gone-block-variable-absent", "gone-loop-variable-over-tag", "variable-of-the-previous-round-over-field", "gone-variable-of-a-loop-over-a-string", "variable-with-another-value-every-round", "field-renamed-away-just-before", "tag-renamed-away-just-before", "field-dropped-just-before"}

type c11Tmpl struct {
	Name    string
	Build   func(k nodeFn) []*rt.Node // statements using the key argument
	NoStrKey bool                      // the key position does not admit a string literal
}

func c11Templates() []c11Tmpl {
	I, S, Id := rt.Int, rt.Str, rt.Id
	one := func(f func(k nodeFn) *rt.Node) func(k nodeFn) []*rt.Node {
		return func(k nodeFn) []*rt.Node { return []*rt.Node{f(k)} }
	}
	ts := []c11Tmpl{
		{"add_key(K)", one(func(k nodeFn) *rt.Node { return rt.Call("add_key", k()) }), false},
		{"add_key(K,1)", one(func(k nodeFn) *rt.Node { return rt.Call("add_key", k(), I(1)) }), false},
		{"add_key(K,str)", one(func(k nodeFn) *rt.Node { return rt.Call("add_key", k(), S("v")) }), false},
		{"add_key(K,nil)", one(func(k nodeFn) *rt.Node { return rt.Call("add_key", k(), rt.Nil()) }), false},
		{"add_key(K,list)", one(func(k nodeFn) *rt.Node { return rt.Call("add_key", k(), rt.List(I(1), rt.Map(S("a"), rt.Float(1)))) }), false},
		{"add_key(K,expr)", one(func(k nodeFn) *rt.Node { return rt.Call("add_key", k(), rt.Bin("+", Id("o1"), I(1))) }), false},
		{"add_key(K,get_key)", one(func(k nodeFn) *rt.Node { return rt.Call("add_key", k(), rt.Call("get_key", Id("o2"))) }), false},
		{"add_key(other,K-as-value)", one(func(k nodeFn) *rt.Node { return rt.Call("add_key", Id("dst"), rt.Call("get_key", k())) }), false},
		{"p(get_key(K))", one(func(k nodeFn) *rt.Node { return rt.Call("p", rt.Call("get_key", k())) }), false},
		{"set_tag(K)", one(func(k nodeFn) *rt.Node { return rt.Call("set_tag", k()) }), false},
		{"set_tag(K,str)", one(func(k nodeFn) *rt.Node { return rt.Call("set_tag", k(), S("v")) }), false},
		{"set_tag(K,ident)", one(func(k nodeFn) *rt.Node { return rt.Call("set_tag", k(), Id("o1")) }), false},
		{"set_tag(K,absent-ident)", one(func(k nodeFn) *rt.Node { return rt.Call("set_tag", k(), Id("nosuch")) }), false},
		{"drop_key(K)", one(func(k nodeFn) *rt.Node { return rt.Call("drop_key", k()) }), false},
		{"rename(new,K)", one(func(k nodeFn) *rt.Node { return rt.Call("rename", Id("nw"), k()) }), true},
		{"rename(\"new\",K)", one(func(k nodeFn) *rt.Node { return rt.Call("rename", S("nw"), k()) }), true},
		{"rename(K,o1)", one(func(k nodeFn) *rt.Node { return rt.Call("rename", k(), Id("o3")) }), false},
		{"rename(K,K)", one(func(k nodeFn) *rt.Node { return rt.Call("rename", k(), k()) }), true},
		{"rename(message,K)", one(func(k nodeFn) *rt.Node { return rt.Call("rename", Id("message"), k()) }), true},
		{"rename(K,message)", one(func(k nodeFn) *rt.Node { return rt.Call("rename", k(), Id("message")) }), false},
		{"printf(fmt,load_json(K))", one(func(k nodeFn) *rt.Node { return rt.Call("printf", S("j=%v|\n"), rt.Call("load_json", k())) }), false},
		{"printf(fmt,len(load_json(K))+1)", one(func(k nodeFn) *rt.Node {
			return rt.Call("printf", S("n=%d|\n"), rt.Bin("+", rt.Call("len", rt.Call("load_json", k())), I(1)))
		}), false},
		{"strfmt(dst,%v,load_json(K))", one(func(k nodeFn) *rt.Node { return rt.Call("strfmt", Id("dst"), S("<%v>"), rt.Call("load_json", k())) }), false},
		{"set_measurement(K)", one(func(k nodeFn) *rt.Node { return rt.Call("set_measurement", k()) }), false},
		{"set_measurement(K,true)", one(func(k nodeFn) *rt.Node { return rt.Call("set_measurement", k(), rt.Bool(true)) }), false},
		{"set_measurement(K,false)", one(func(k nodeFn) *rt.Node { return rt.Call("set_measurement", k(), rt.Bool(false)) }), false},
		{"p(len(K))", one(func(k nodeFn) *rt.Node { return rt.Call("p", rt.Call("len", k())) }), false},
		{"p(load_json(K))", one(func(k nodeFn) *rt.Node { return rt.Call("p", rt.Call("load_json", k())) }), false},
		{"uppercase(K)", one(func(k nodeFn) *rt.Node { return rt.Call("uppercase", k()) }), false},
		{"url_decode(K)", one(func(k nodeFn) *rt.Node { return rt.Call("url_decode", k()) }), false},
		{"trim(K)", one(func(k nodeFn) *rt.Node { return rt.Call("trim", k()) }), false},
		{"trim(K,space)", one(func(k nodeFn) *rt.Node { return rt.Call("trim", k(), S(" ")) }), false},
		{"trim(K,xy)", one(func(k nodeFn) *rt.Node { return rt.Call("trim", k(), S("xy ")) }), false},
		{"trim(K,empty)", one(func(k nodeFn) *rt.Node { return rt.Call("trim", k(), S("")) }), false},
		{"replace(K,a+,b)", one(func(k nodeFn) *rt.Node { return rt.Call("replace", k(), S("a+"), S("b")) }), false},
		{"replace(K,group)", one(func(k nodeFn) *rt.Node { return rt.Call("replace", k(), S(`(\d+)`), S("<$1>")) }), false},
		// patterns without any regexp syntax, replacement templates all the same
		{"replace(K,plain,$0$0)", one(func(k nodeFn) *rt.Node { return rt.Call("replace", k(), S("aa"), S("<$0$0>")) }), false},
		{"replace(K,plain,$$)", one(func(k nodeFn) *rt.Node { return rt.Call("replace", k(), S("a"), S("$$")) }), false},
		{"replace(K,plain,${1}x$1)", one(func(k nodeFn) *rt.Node { return rt.Call("replace", k(), S("b"), S("[${1}x$1$name]")) }), false},
		{"replace(K,space,$)", one(func(k nodeFn) *rt.Node { return rt.Call("replace", k(), S(" "), S("$")) }), false},
		{"replace(K,badre)", one(func(k nodeFn) *rt.Node { return rt.Call("replace", k(), S("("), S("x")) }), false},
		{"strfmt(K,%v)", one(func(k nodeFn) *rt.Node { return rt.Call("strfmt", k(), S("%v"), Id("o1")) }), false},
		{"strfmt(K,%d-%s)", one(func(k nodeFn) *rt.Node { return rt.Call("strfmt", k(), S("%d-%s"), I(3), Id("o2")) }), false},
		{"strfmt(K,noargs)", one(func(k nodeFn) *rt.Node { return rt.Call("strfmt", k(), S("plain 100%%")) }), false},
		{"strfmt(dst,%v,K)", one(func(k nodeFn) *rt.Node { return rt.Call("strfmt", Id("dst"), S("<%v>"), rt.Call("get_key", k())) }), false},
		{"strfmt(K,mismatch)", one(func(k nodeFn) *rt.Node { return rt.Call("strfmt", k(), S("%d %d"), S("s")) }), false},
		{"printf(fmt,K)", one(func(k nodeFn) *rt.Node { return rt.Call("printf", S("v=%v|\n"), rt.Call("get_key", k())) }), false},
		{"printf(K)", one(func(k nodeFn) *rt.Node { return rt.Call("printf", k()) }), false},
		{"printf(fmt,args)", one(func(k nodeFn) *rt.Node { return rt.Call("printf", S("%d %s %v\n"), I(1), Id("o2"), rt.List(I(1))) }), false},
	}
	for _, t := range []string{"bool", "int", "float", "str", "string"} {
		t := t
		ts = append(ts, c11Tmpl{"cast(K," + t + ")", one(func(k nodeFn) *rt.Node { return rt.Call("cast", k(), S(t)) }), false})
	}
	return ts
}

func c11BasePoints() []PointSpec {
	return []PointSpec{
		{Meas: "m0", Tags: map[string]string{"o2": "t"}, Fields: map[string]any{"o1": int64(5), "o3": "third", "message": "hello msg"}},
		{Meas: "", Tags: map[string]string{}, Fields: map[string]any{}},
		{Meas: "m2", Tags: map[string]string{"o2": "", "o3": "tagged"}, Fields: map[string]any{"o1": "  pad  ", "message": nil, "dst": 1.5}},
	}
}

func c11Build(t c11Tmpl, sh c11Shape, sit int, val c11Val, base PointSpec) (*Prog, bool) {
	if t.NoStrKey && sh.Name == "string" {
		return nil, false
	}
	pt := PointSpec{Meas: base.Meas, Tags: map[string]string{}, Fields: map[string]any{}, Time: 1700000000000000000}
	for k, v := range base.Tags {
		pt.Tags[k] = v
	}
	for k, v := range base.Fields {
		pt.Fields[k] = v
	}
	// the subject key must start out absent unless the situation puts it there
	delete(pt.Tags, sh.Key)
	delete(pt.Fields, sh.Key)
	var pre []*rt.Node
	setVar := func(v nodeFn) { pre = append(pre, rt.Assign("=", sh.Var(), v())) }
	switch sit {
	case sitVar:
		setVar(val.Node)
	case sitField:
		if !val.Scalar {
			return nil, false
		}
		pt.Fields[sh.Key] = val.Field
	case sitTag:
		if !val.Str {
			return nil, false
		}
		pt.Tags[sh.Key] = val.Field.(string)
	case sitVarOverField:
		pt.Fields[sh.Key] = "fieldval"
		setVar(val.Node)
	case sitVarOverTag:
		pt.Tags[sh.Key] = "tagval"
		setVar(val.Node)
	case sitAbsent:
		if val.Name != "int" {
			return nil, false // the value plays no role
		}
	case sitGoneBodyVarOverField:
		pt.Fields[sh.Key] = "fieldval"
		pre = append(pre, rt.ForIn("q", rt.List(rt.Int(1), rt.Int(2)), rt.Block(rt.Assign("=", sh.Var(), val.Node()))))
	case sitGoneBlockVarAbsent:
		pre = append(pre, rt.If(rt.Bool(true), rt.Block(rt.Assign("=", sh.Var(), val.Node()))))
	case sitGoneLoopVarOverTag:
		if sh.Key != "k" {
			return nil, false
		}
		pt.Tags[sh.Key] = "tagval"
		pre = append(pre, rt.ForIn("k", rt.List(val.Node()), rt.Block(rt.Assign("=", rt.Id("q"), rt.Int(1)))))
	case sitGoneStringLoopVar:
		if sh.Key != "k" || val.Name != "int" {
			return nil, false
		}
		pt.Fields[sh.Key] = "fieldval"
		pre = append(pre, rt.ForIn("k", rt.Str("xy"), rt.Block(rt.Assign("=", rt.Id("q"), rt.Int(1)))))
	case sitGoneRoundVarOverField:
		pt.Fields[sh.Key] = "fieldval"
	case sitRenamedAwayField, sitDroppedField:
		if !val.Scalar || sh.Name == "string" {
			return nil, false
		}
		pt.Fields[sh.Key] = val.Field
		// (the key is read first: whatever the point remembers about its last lookup is about this key)
		pre = append(pre, rt.Assign("=", rt.Id("rb0"), rt.Call("get_key", sh.Arg())))
		if sit == sitDroppedField {
			pre = append(pre, rt.Call("drop_key", sh.Arg()))
		} else {
			pre = append(pre, rt.Call("rename", rt.Id("nw2"), sh.Arg()))
		}
	case sitRenamedAwayTag:
		if !val.Str || sh.Name == "string" {
			return nil, false
		}
		pt.Tags[sh.Key] = val.Field.(string)
		pre = append(pre, rt.Assign("=", rt.Id("rb0"), rt.Call("get_key", sh.Arg())), rt.Call("rename", rt.Id("nw2"), sh.Arg()))
	}
	body := t.Build(sh.Arg)
	if sit == sitRoundValues {
		body = []*rt.Node{rt.ForIn("q", rt.List(val.Node(), rt.Str("second round"), rt.Int(3)), rt.Block(append([]*rt.Node{rt.Assign("=", sh.Var(), rt.Id("q"))}, body...)...))}
	}
	if sit == sitGoneRoundVarOverField {
		body = []*rt.Node{rt.ForIn("q", rt.List(rt.Int(1), rt.Int(2)), rt.Block(append(body, rt.Assign("=", sh.Var(), val.Node()))...))}
	}
	tail := rt.Call("p", rt.Call("get_key", rt.Str(sh.Key)), rt.Call("get_key", rt.Id("o1")), rt.Call("get_key", rt.Id("dst")))
	// the same key read in a plain expression directly after the builtin (no call in between), then probed
	plain := rt.Assign("=", rt.Id("rb"), rt.QId(sh.Key))
	stmts := append(append(pre, body...), plain, tail, rt.Call("p", rt.Id("rb")))
	return &Prog{Scripts: map[string][]*rt.Node{"s.p": stmts}, Main: "s.p", Point: pt, Capture: true}, true
}

func c11Run(w *run.Worker) {
	tmpls := c11Templates()
	shapes := c11Shapes()
	vals := c11Vals()
	bases := c11BasePoints()
	if w.Shard == 0 {
		w.Note("templates", int64(len(tmpls)))
	}
	for _, t := range tmpls {
		for _, sh := range shapes {
			for sit := 0; sit < sitCount11; sit++ {
				for _, val := range vals {
					for bi, base := range bases {
						if !w.Take() {
							continue
						}
						if w.Expired() {
							return
						}
						p, ok := c11Build(t, sh, sit, val, base)
						if !ok {
							continue
						}
						w.Eval()
						v := Differential(p)
						w.Outcome(v.Outcome)
						src := p.Sources()["s.p"]
						cs := c11Case{Source: src, Tags: p.Point.Tags, Fields: p.Point.Fields}
						if v.Skipped != "" {
							w.Note("unspecified_cells_skipped", 1)
							w.Note("unspecified:"+v.Skipped, 1)
							continue
						}
						if !v.OK {
							key := "C11:" + t.Name + ":" + v.Key
							if v.Key == "unexpected-load-error" {
								key = "C11:valid-shape-rejected:" + t.Name + ":" + sh.Name
							} else {
								key += ":" + c11SitNames[sit]
							}
							w.Violate(key, fmt.Sprintf("key shape %s, subject %s = %s, base point %d\n%s", sh.Name, c11SitNames[sit], val.Name, bi, v.What), cs)
						} else if w.WantSample() && w.Index()%3001 == 0 {
							w.Sample(map[string]any{"program": src, "point": p.Point.String(), "real_outcome": v.Outcome})
						}
					}
				}
			}
		}
	}
}

func c11Replay(raw json.RawMessage) (bool, string) {
	var c c11Case
	if err := json.Unmarshal(raw, &c); err != nil {
		return false, err.Error()
	}
	tree, err := parseToTree("s.p", c.Source)
	if err != nil {
		return false, err.Error()
	}
	fields := map[string]any{}
	for k, v := range c.Fields {
		if f, ok := v.(float64); ok && f == float64(int64(f)) && (k == "o1" || k == "k" || k == "message" || k == "k.sub") {
			// JSON loses the int/float distinction; the generator only uses integral ints
			fields[k] = int64(f)
			continue
		}
		fields[k] = v
	}
	p := &Prog{Scripts: map[string][]*rt.Node{"s.p": tree}, Main: "s.p", Point: PointSpec{Meas: "m0", Tags: c.Tags, Fields: fields, Time: 1700000000000000000}, Capture: true}
	v := Differential(p)
	return !v.OK, v.What
}

func init() {
	run.Register(&run.Check{
		ID:    "C11",
		Level: "model_checking",
		Rule: "49 call templates of the 15 builtins (every optional argument present/absent, identifier/attribute/string/expression arguments, all cast types, good and bad regular expressions, format strings with matching and mismatching verbs) " +
			"x 6 key spellings (identifier, back-quoted, string literal, `_`, attribute expression, attribute expression with an index) x 15 subject situations (variable only, field only, tag only, variable shadowing a field, variable shadowing a tag, absent, and three in which a variable of that name has ceased to exist: local to a finished loop body over a field, local to a finished block with the key absent, variable of a finished for-in loop over a tag, the builtin at the top of a for-in body whose previous round assigned the name, variable of a finished loop over a string, a variable given another value in every round of a loop around the builtin, a field / tag renamed away and a field dropped right before the builtin) " +
			"x 32 subject values (int incl. the largest, float incl. 1e19, -0.0 and an integral one, bool, zero-padded / hex / underscored / exponent numeric strings, plain/padded/url-encoded/'+' without '%'/trailing '%'/percent-encoded UTF-8/undecodable/JSON/JSON with trailing text/numeric/float/bool/non-ASCII/tab+newline/regex-special/empty strings, list, map, nil) x 3 base points; " +
			"oracle: the whole canonical final point (so every other key is checked untouched), captured standard output, probe trace of return values, of a plain-expression read of the subject key directly after the builtin and of three get_key read-backs, error flag — all equal to the reference builtins",
		Assumptions: []string{"strings, regexp, net/url, fmt, encoding/json and spf13/cast are the trusted base the reference shares with the code", "unspecified cells: cast of collections / non-numeric strings, cast to \"string\", rename onto an existing key, set_tag from a construct without value"},
		Run:            c11Run,
		Replay:         c11Replay,
		QuickBudget:    5 * time.Minute,
		ThoroughBudget: 15 * time.Minute,
	})
}
