//go:build verif

package checks

import (
	"fmt"
	"strings"
	"time"

	"github.com/GuanceCloud/platypus/pkg/inimpl/guancecloud/input"
	vsync "github.com/GuanceCloud/platypus/pkg/verifsync"

	"verif/mc/internal/drv"
	"verif/mc/internal/run"
)

// C14, part "parked neighbour" (instrumented build: every wait for a lock goes
// through the sync shim and is reported).
//
// Run A of a loaded script is suspended inside its poll number j: its script is
// at a statement boundary inside a loop or a used script, its own signal has
// not fired, and it makes no further progress (an endless wait loop looks like
// this to everybody else). Run B of the SAME loaded script, on its own point,
// then runs with its signal reporting true from poll k on. B has to return by
// its own steps alone — it never waits for A — and with the result B has when
// it runs alone. Afterwards A's signal fires and A has to finish as the
// prefix-at-poll-j run. Control passes between the two goroutines by channel
// hand-off only: one of them runs at any time, so every execution is
// deterministic.

type c14ParkOut struct {
	A, B    c14Out
	Waited  string // non-empty: B waited for a lock while A was parked
	BStuck  bool   // B did not return although A had finished
	NoPark  bool   // A finished before reaching poll j
	Timeout bool
}

func (r *c14Runner) exec(sig *drv.Sig, record bool) c14Out {
	var out c14Out
	var pt *input.Point
	if !r.v2 {
		pt = r.point.real().Build()
	}
	if record {
		prev := sig.OnPoll
		sig.OnPoll = func(n int) {
			s := c14Snap{TLen: drv.CurTraceLen()}
			if pt != nil {
				s.Point = drv.CanonPoint(pt)
			}
			out.Snaps = append(out.Snaps, s)
			if prev != nil {
				prev(n)
			}
		}
	}
	if r.v2 {
		out.Res = drv.RunV2(r.s2, sig)
	} else {
		out.Res = drv.Run(r.s1, pt, sig)
	}
	return out
}

func (r *c14Runner) parked(j, k int) c14ParkOut {
	var out c14ParkOut
	parkedCh := make(chan struct{})
	unpark := make(chan struct{})
	doneA := make(chan c14Out, 1)
	doneB := make(chan c14Out, 1)
	blockedCh := make(chan string)
	resumeB := make(chan struct{})
	go func() {
		sig := &drv.Sig{FireAt: j}
		sig.OnPoll = func(n int) {
			if n == j {
				parkedCh <- struct{}{}
				<-unpark
			}
		}
		doneA <- r.exec(sig, false)
	}()
	select {
	case <-parkedCh:
	case a := <-doneA:
		out.A, out.NoPark = a, true
		return out
	case <-time.After(c14HangTimeout):
		out.Timeout = true
		return out
	}
	// A is parked; B runs alone
	vsync.Hooks.Blocked = func(label string) {
		blockedCh <- label
		<-resumeB
	}
	defer func() { vsync.Hooks.Blocked = nil }()
	go func() { doneB <- r.exec(&drv.Sig{FireAt: k}, false) }()
	aDone := false
	for {
		select {
		case b := <-doneB:
			out.B = b
			if !aDone {
				close(unpark)
				select {
				case out.A = <-doneA:
				case <-time.After(c14HangTimeout):
					out.Timeout = true
				}
			}
			return out
		case label := <-blockedCh:
			if aDone {
				out.BStuck = true
				return out // B's goroutine stays behind; the caller stops the worker
			}
			out.Waited = label
			close(unpark)
			select {
			case out.A = <-doneA:
				aDone = true
			case <-time.After(c14HangTimeout):
				out.Timeout = true
				return out
			}
			resumeB <- struct{}{}
		case <-time.After(c14HangTimeout):
			out.Timeout = true
			return out
		}
	}
}

// c14ParkVerdict runs one (j, k) cell and judges it. key "" = fine.
func c14ParkVerdict(r *c14Runner, base c14Out, scripts map[string]string, isV2 bool, j, k int) (key, msg, outcome string, stop bool) {
	agrees := func(got c14Out, k int) string {
		if k > len(base.Snaps) {
			if strings.Join(got.Res.Trace, ";") != strings.Join(base.Res.Trace, ";") || got.Res.Point != base.Res.Point || fmt.Sprint(got.Res.Err) != fmt.Sprint(base.Res.Err) {
				return fmt.Sprintf("trace %v point %s err %v, alone: trace %v point %s err %v", got.Res.Trace, got.Res.Point, got.Res.Err, base.Res.Trace, base.Res.Point, base.Res.Err)
			}
			return ""
		}
		snap := base.Snaps[k-1]
		want := base.Res.Trace[:snap.TLen]
		switch {
		case got.Res.Panic != "":
			return "panic: " + got.Res.Panic
		case got.Res.Err != nil:
			return fmt.Sprintf("error %v", got.Res.Err)
		case strings.Join(got.Res.Trace, ";") != strings.Join(want, ";"):
			return fmt.Sprintf("trace %v, alone with the signal from poll %d: %v", got.Res.Trace, k, want)
		case !isV2 && got.Res.Point != snap.Point:
			return fmt.Sprintf("point %s, alone with the signal from poll %d: %s", got.Res.Point, k, snap.Point)
		}
		return ""
	}
	o := r.parked(j, k)
	head := fmt.Sprintf("run A is suspended at its poll %d (its own signal has not fired); run B of the same loaded script has its signal true from poll %d on", j, k)
	switch {
	case o.Timeout || o.BStuck:
		return "run-does-not-return", head + ": a run does not return", "", true
	case o.NoPark:
		return "poll-count-not-deterministic", fmt.Sprintf("run A finished before its poll %d although the run alone polls %d times", j, base.Res.Polls), "", false
	case o.Waited != "":
		return "run-waits-for-another-run", head + fmt.Sprintf(": B waits for a lock (%s) that is held while A polls; B cannot observe its own signal before A moves on", o.Waited), "", false
	}
	outcome = fmt.Sprintf("%d|%d|%s", j, k, strings.Join(o.B.Res.Trace, ";"))
	if m := agrees(o.B, k); m != "" {
		return "result-differs-from-run-alone", head + ": B gives " + m, outcome, false
	}
	if m := agrees(o.A, j); m != "" {
		return "suspended-run-differs-from-run-alone", head + "; then A's signal fires: A gives " + m, outcome, false
	}
	return "", "", outcome, false
}

// c14ParkCheck enumerates (j, k) for one program. Returns false if the worker should stop.
func c14ParkCheck(w *run.Worker, scripts map[string]string, isV2 bool, horizon int) bool {
	r, err := c14Load(scripts, isV2)
	if err != nil {
		return true // reported by the main part
	}
	tag := "v1"
	if isV2 {
		tag = "v2"
	}
	base := r.exec(&drv.Sig{FireAt: horizon + 1}, true)
	w.Eval()
	if base.Res.Panic != "" {
		return true // reported by the main part
	}
	n := base.Res.Polls
	if n > horizon {
		n = horizon
	}
	for j := 1; j <= n; j++ {
		for k := 1; k <= n+1; k++ {
			kk := k
			if k == n+1 {
				kk = horizon + 1
			}
			key, msg, outcome, stop := c14ParkVerdict(r, base, scripts, isV2, j, kk)
			w.Eval()
			if key != "" {
				w.Violate("C14:"+tag+":parked:"+key, msg+"\n"+fmtScripts(scripts), c14ParkCase{Scripts: scripts, V2: isV2, J: j, K: kk, Horizon: horizon, Part: "parked"})
				if stop {
					w.Cap("stopped after a run that did not return")
				}
				return !stop
			}
			w.Outcome("parked|" + tag + "|" + outcome)
		}
	}
	return true
}

func c14ParkReplay(c c14ParkCase) (bool, string) {
	r, err := c14Load(c.Scripts, c.V2)
	if err != nil {
		return true, err.Error()
	}
	base := r.exec(&drv.Sig{FireAt: c.Horizon + 1}, true)
	key, msg, _, _ := c14ParkVerdict(r, base, c.Scripts, c.V2, c.J, c.K)
	if key == "" {
		return false, fmt.Sprintf("A parked at poll %d, B signalled from poll %d: B returns by itself with the result of the run alone", c.J, c.K)
	}
	return true, key + ": " + msg
}

func init() {
	c14Parked = c14ParkCheck
	c14ParkedReplay = c14ParkReplay
}
