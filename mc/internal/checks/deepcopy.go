package checks

import (
	"reflect"
	"time"
	"unsafe"
)

// deepCopy returns a structure-preserving copy of v: every pointer, map and
// slice reachable from v is duplicated exactly once (sharing inside the value
// is kept: two keys that point at one object point at one object in the copy),
// unexported fields included. It is what lets an explicit-state search treat a
// real object as a state: whatever the implementation keeps inside the object
// — including fields a later version adds — travels with the clone.
func deepCopy[T any](v T) T {
	memo := map[unsafe.Pointer]reflect.Value{}
	out := copyValue(reflect.ValueOf(&v).Elem(), memo)
	return out.Interface().(T)
}

var (
	timeType     = reflect.TypeOf(time.Time{})
	locationType = reflect.TypeOf((*time.Location)(nil))
)

func copyValue(v reflect.Value, memo map[unsafe.Pointer]reflect.Value) reflect.Value {
	if !v.IsValid() {
		return v
	}
	t := v.Type()
	if t == timeType || t == locationType {
		return v // immutable values: shared
	}
	switch v.Kind() {
	case reflect.Ptr:
		if v.IsNil() {
			return v
		}
		key := v.UnsafePointer()
		if c, ok := memo[key]; ok {
			return c
		}
		n := reflect.New(t.Elem())
		memo[key] = n
		setAny(n.Elem(), copyValue(v.Elem(), memo))
		return n
	case reflect.Interface:
		if v.IsNil() {
			return v
		}
		c := copyValue(v.Elem(), memo)
		n := reflect.New(t).Elem()
		n.Set(c)
		return n
	case reflect.Struct:
		n := reflect.New(t).Elem()
		for i := 0; i < v.NumField(); i++ {
			src := v.Field(i)
			if !src.CanInterface() {
				if !v.CanAddr() {
					// make the struct addressable to reach its unexported fields
					tmp := reflect.New(t).Elem()
					tmp.Set(v)
					v = tmp
					src = v.Field(i)
				}
				src = reflect.NewAt(src.Type(), unsafe.Pointer(src.UnsafeAddr())).Elem()
			}
			dst := n.Field(i)
			if !dst.CanSet() {
				dst = reflect.NewAt(dst.Type(), unsafe.Pointer(dst.UnsafeAddr())).Elem()
			}
			setAny(dst, copyValue(src, memo))
		}
		return n
	case reflect.Map:
		if v.IsNil() {
			return v
		}
		key := v.UnsafePointer()
		if c, ok := memo[key]; ok {
			return c
		}
		n := reflect.MakeMapWithSize(t, v.Len())
		memo[key] = n
		it := v.MapRange()
		for it.Next() {
			n.SetMapIndex(copyValue(it.Key(), memo), copyValue(it.Value(), memo))
		}
		return n
	case reflect.Slice:
		if v.IsNil() {
			return v
		}
		n := reflect.MakeSlice(t, v.Len(), v.Len())
		for i := 0; i < v.Len(); i++ {
			setAny(n.Index(i), copyValue(v.Index(i), memo))
		}
		return n
	case reflect.Array:
		n := reflect.New(t).Elem()
		for i := 0; i < v.Len(); i++ {
			setAny(n.Index(i), copyValue(v.Index(i), memo))
		}
		return n
	}
	return v
}

func setAny(dst, src reflect.Value) {
	if !src.IsValid() {
		return
	}
	if !src.CanInterface() {
		// a value read out of an unexported field: go through memory
		if src.CanAddr() {
			src = reflect.NewAt(src.Type(), unsafe.Pointer(src.UnsafeAddr())).Elem()
		} else {
			tmp := reflect.New(src.Type()).Elem()
			reflect.NewAt(src.Type(), unsafe.Pointer(tmp.UnsafeAddr())).Elem().Set(reflect.ValueOf(valueInterface(src)))
			src = tmp
		}
	}
	dst.Set(src)
}

// valueInterface extracts the value of a reflect.Value that came from an unexported field and is not
// addressable (scalars only reach this point).
func valueInterface(v reflect.Value) any {
	switch v.Kind() {
	case reflect.Bool:
		return v.Bool()
	case reflect.Int, reflect.Int8, reflect.Int16, reflect.Int32, reflect.Int64:
		return reflect.ValueOf(v.Int()).Convert(v.Type()).Interface()
	case reflect.Uint, reflect.Uint8, reflect.Uint16, reflect.Uint32, reflect.Uint64, reflect.Uintptr:
		return reflect.ValueOf(v.Uint()).Convert(v.Type()).Interface()
	case reflect.Float32, reflect.Float64:
		return reflect.ValueOf(v.Float()).Convert(v.Type()).Interface()
	case reflect.String:
		return reflect.ValueOf(v.String()).Convert(v.Type()).Interface()
	}
	return reflect.Zero(v.Type()).Interface()
}
