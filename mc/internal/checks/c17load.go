package checks

import (
	"fmt"
	"strings"

	"github.com/GuanceCloud/platypus/pkg/errchain"

	"verif/mc/internal/drv"
	"verif/mc/internal/run"
)

// C17 (E): load-time faults recorded by node constructors (division by
// literal zero, malformed and overflowing numbers, non-integer slice bounds)
// and by the lexer (open strings, bad escapes, malformed numbers) in every
// role, after every kind of preceding text and before every kind of following
// text: the error is a positioned PlError naming the script, inside the
// statement that holds the fault.

var (
	c17LoadFaultTexts = []string{"1 / 0", "1 % 0", "-1e999", "1e", "-0x", "a[1.5:2]", "a[:\"s\"]", "1 / 0.0",
		// lexical faults: the diagnostic belongs to the statement that holds the bad token, not to the text after it
		"\"open", "'open", "\"bad \\q escape\"", "`open", "\"\\400\"", "1.2.3"}
	c17LoadFaultRoles = []string{"b = %s", "f(%s)", "if %s { }", "for x in %s { }", "for ; %s; { }", "x = [1, %s]", "x = {\"k\": %s}", "b = -(%s)", "f(k=%s)\ny = 2", "if a { b = %s } else { c }"}
	c17LoadFaultPre   = []string{"", "y = 1\n", "# é\n\n", "s = '''a\nb'''\n", "y = 1 ; ", "\r\n\t", "`two\nlines` = 1\n"}
	c17LoadFaultPost  = []string{"", "\ny = 2\n", "\n\nf(3)"}
)

// c17LoadFaultCheck returns "" or the description of what is wrong. [lo, hi) is the statement at fault.
func c17LoadFaultCheck(src string, lo, hi int) (class, msg string, rejected bool) {
	// a second script with byte-identical text in the same load: each is reported under its own name
	_, errs := drv.Load(map[string]string{"s.p": src, "dir/twin.p": src})
	e, bad := errs["s.p"]
	if !bad {
		return "", "", false
	}
	if te, tbad := errs["dir/twin.p"]; !tbad {
		return "twin-accepted", "the same text is rejected as s.p and accepted as dir/twin.p", true
	} else if tpe, ok := te.(*errchain.PlError); ok && tpe != nil && len(tpe.PosChain) > 0 && tpe.PosChain[0].File != "dir/twin.p" {
		return "wrong-file", fmt.Sprintf("the error of dir/twin.p names %q: %v", tpe.PosChain[0].File, te), true
	}
	if lp, isPanic := e.(*drv.LoadPanic); isPanic {
		return "panic", lp.Msg, true
	}
	pe, ok := e.(*errchain.PlError)
	if !ok || pe == nil {
		return "error-without-position", fmt.Sprintf("%T %v", e, e), true
	}
	if m := c17ErrPos(pe, src, "s.p"); m != "" {
		if strings.HasPrefix(m, "offset-out-of-source") && len(pe.PosChain) > 0 && pe.PosChain[0].Pos == len(src) {
			return "", "", true // a diagnostic at end of input
		}
		return strings.SplitN(m, ":", 2)[0], m + "\nerror: " + pe.Error(), true
	}
	if p := pe.PosChain[0].Pos; hi > lo && (p < lo || p > hi) {
		return "outside-the-statement-at-fault", fmt.Sprintf("the statement at fault spans the offsets [%d,%d), the error is reported at offset %d (%d:%d)\nerror: %s", lo, hi, p, pe.PosChain[0].Ln, pe.PosChain[0].Col, pe.Error()), true
	}
	return "", "", true
}

func c17LoadFaults(w *run.Worker) {
	for _, f := range c17LoadFaultTexts {
		for _, r := range c17LoadFaultRoles {
			for _, pre := range c17LoadFaultPre {
				for _, post := range c17LoadFaultPost {
					if !w.Take() {
						continue
					}
					stmt := fmt.Sprintf(r, f)
					if i := strings.Index(stmt, "\ny = 2"); i >= 0 && strings.HasSuffix(stmt, "\ny = 2") {
						stmt, post = stmt[:i], stmt[i:]+post // the role brings its own following statement
					}
					src := pre + stmt + post
					lo, hi := len(pre), len(pre)+len(stmt)
					w.Eval()
					class, msg, rejected := c17LoadFaultCheck(src, lo, hi)
					if !rejected {
						w.Note("load_faults_accepted(decided elsewhere)", 1)
						continue
					}
					w.Outcome("load-fault|" + class + "|" + f)
					if class != "" {
						w.Violate("C17:load-fault:"+class, msg+"\n"+src, c17Case{Part: "load-fault", Source: src, Offset: lo, End: hi})
					}
				}
			}
		}
	}
}

// C17 (E2): load-time faults three use() levels away. s.p uses m.p uses l.p; l.p does not load (syntax
// fault, check fault, a use of a missing script, a use of itself), the use() calls stand at different
// offsets in their scripts (after text of different length, on different lines, behind multi-byte
// characters). The report for every script: each entry lies in the script it names, and the entry for an
// outer script is the position of ITS OWN use() call.
func c17UseChainFaults(w *run.Worker) {
	leaves := []string{"y = 1\nx = (1 +\n", "y = 1\n  nosuch(2)\n", "# c\n\n   use(\"gone.p\")\n", " use(\"l.p\")\n", "z = 1 / 0\n"}
	pres := []string{"", "a = 1\n", "# é é é\n\n\t", "s = '''x\ny'''\nif true {\n      ", "é = \"日本\" ; "}
	for li, leaf := range leaves {
		for _, pm := range pres {
			for _, psn := range pres {
				if !w.Take() {
					continue
				}
				closeB := func(pre string) string {
					if strings.Contains(pre, "{") {
						return "\n}\n"
					}
					return "\n"
				}
				srcs := map[string]string{
					"s.p": psn + "use(\"m.p\")" + closeB(psn) + "p(1)\n",
					"m.p": pm + "use(\"l.p\")" + closeB(pm),
					"l.p": leaf,
				}
				w.Eval()
				cs := c17Case{Part: "use-chain-fault", Source: srcs["s.p"] + c17SepM + srcs["m.p"] + c17SepL + srcs["l.p"]}
				probs := c17UseChainCheck(srcs)
				w.Outcome(fmt.Sprintf("use-chain-fault|%d|%d", li, len(probs)))
				for _, pr := range probs {
					w.Violate("C17:use-chain-fault:"+pr[0], pr[1]+"\n"+cs.Source, cs)
				}
			}
		}
	}
}

const c17SepM, c17SepL = "\n--- m.p ---\n", "\n--- l.p ---\n"

// c17UseChainCheck loads the three scripts and returns (class, description) of everything wrong with the reports.
func c17UseChainCheck(srcs map[string]string) (out [][2]string) {
	_, errs := drv.Load(srcs)
	for _, name := range []string{"s.p", "m.p", "l.p"} {
		e, bad := errs[name]
		if !bad {
			out = append(out, [2]string{"accepted", name + " is accepted although l.p does not load"})
			continue
		}
		pe, ok := e.(*errchain.PlError)
		if !ok || pe == nil {
			out = append(out, [2]string{"error-without-position", fmt.Sprintf("%s: %T %v", name, e, e)})
			continue
		}
		first := pe.PosChain[0].File
		if m := c17ErrPosMulti(pe, srcs, first); m != "" && !(strings.HasPrefix(m, "offset-out-of-source: entry 0") && pe.PosChain[0].Pos == len(srcs[first])) {
			out = append(out, [2]string{strings.SplitN(m, ":", 2)[0], fmt.Sprintf("report for %s: %s\nerror: %s", name, m, pe.Error())})
			continue
		}
		// the entries for s.p and m.p (when they are call sites, i.e. not the first entry) sit on their own use() call
		for i, p := range pe.PosChain {
			if i == 0 || (p.File != "s.p" && p.File != "m.p") {
				continue
			}
			if want := strings.Index(srcs[p.File], "use("); p.Pos != want {
				out = append(out, [2]string{"call-site-entry-not-on-the-use-call", fmt.Sprintf("report for %s: entry %d names %s at offset %d (%d:%d), its use() call is at offset %d\nerror: %s", name, i, p.File, p.Pos, p.Ln, p.Col, want, pe.Error())})
			}
		}
		// the outermost entry of the report for s.p / m.p is that script itself
		if last := pe.PosChain[len(pe.PosChain)-1]; name != "l.p" && last.File != name {
			out = append(out, [2]string{"report-does-not-end-in-the-script-it-is-for", fmt.Sprintf("report for %s ends in %s\nerror: %s", name, last.File, pe.Error())})
		}
	}
	return out
}

// C17 (E3): check-time faults (unknown function, wrong arity) inside calls, list literals and map
// literals at depth. The first entry is the fault; every further entry of the chain is the position of an
// enclosing CALL (an identifier directly followed by an opening parenthesis) or - pinned: the check pass
// records them - of an enclosing list literal's `[`; nothing else earns a line.
func c17CheckFaultChains(w *run.Worker) {
	faults := []string{"nosuch(1)", "len()", "len(1, 2)"}
	roles := []string{"b = %s", "add_key(k, %s)", "x = [1, %s]", "x = {\"k\": %s}", "x = {\"k\": [%s]}", "add_key(k, {\"a\": {\"b\": %s}})", "x = [{\"k\": %s}]",
		"if %s { }", "x = len([%s])", "strfmt(k, \"%%v\", {\"a\": %s})", "x = {\"a\": 1, \"é\": {\"b\": [2, {\"c\": %s}]}}", "for v in {\"k\": %s} { }", "x = {\"k\": 1}[%s]"}
	for _, f := range faults {
		for _, r := range roles {
			for _, pre := range []string{"", "y = 1\n", "# é\n\n  "} {
				if !w.Take() {
					continue
				}
				src := pre + fmt.Sprintf(r, f) + "\n"
				w.Eval()
				_, errs := drv.Load(map[string]string{"s.p": src})
				e, bad := errs["s.p"]
				if !bad {
					w.Note("load_faults_accepted(decided elsewhere)", 1)
					continue
				}
				pe, ok := e.(*errchain.PlError)
				cs := c17Case{Part: "check-fault-chain", Source: src}
				if !ok || pe == nil || len(pe.PosChain) == 0 {
					continue // decided by the load-fault part
				}
				w.Outcome(fmt.Sprintf("check-fault-chain|%d", len(pe.PosChain)))
				if m := c17ErrPos(pe, src, "s.p"); m != "" {
					continue // decided by the load-fault part
				}
				for i, p := range pe.PosChain {
					if i == 0 {
						continue
					}
					rest := src[p.Pos:]
					isList := strings.HasPrefix(rest, "[")
					j := 0
					for j < len(rest) && (rest[j] == '_' || rest[j] >= 'a' && rest[j] <= 'z' || rest[j] >= 'A' && rest[j] <= 'Z' || rest[j] >= '0' && rest[j] <= '9') {
						j++
					}
					isCall := j > 0 && j < len(rest) && rest[j] == '('
					if !isList && !isCall {
						w.Violate("C17:check-fault-chain:entry-is-neither-an-enclosing-call-nor-a-list", fmt.Sprintf("entry %d of the chain is at offset %d (%d:%d), text there: %q\nerror: %s\n%s", i, p.Pos, p.Ln, p.Col, rest[:minInt(len(rest), 12)], pe.Error(), src), cs)
					}
				}
			}
		}
	}
}

func minInt(a, b int) int {
	if a < b {
		return a
	}
	return b
}
