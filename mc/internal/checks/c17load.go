package checks

import (
	"fmt"
	"strings"

	"github.com/GuanceCloud/platypus/pkg/errchain"

	"verif/mc/internal/drv"
	"verif/mc/internal/run"
)

// C17 (E): load-time faults recorded by node constructors (division by
// literal zero, malformed and overflowing numbers, non-integer slice bounds)
// and by the lexer (open strings, bad escapes, malformed numbers) in every
// role, after every kind of preceding text and before every kind of following
// text: the error is a positioned PlError naming the script, inside the
// statement that holds the fault.

var (
	c17LoadFaultTexts = []string{"1 / 0", "1 % 0", "-1e999", "1e", "-0x", "a[1.5:2]", "a[:\"s\"]", "1 / 0.0",
		// lexical faults: the diagnostic belongs to the statement that holds the bad token, not to the text after it
		"\"open", "'open", "\"bad \\q escape\"", "`open", "\"\\400\"", "1.2.3"}
	c17LoadFaultRoles = []string{"b = %s", "f(%s)", "if %s { }", "for x in %s { }", "for ; %s; { }", "x = [1, %s]", "x = {\"k\": %s}", "b = -(%s)", "f(k=%s)\ny = 2", "if a { b = %s } else { c }"}
	c17LoadFaultPre   = []string{"", "y = 1\n", "# é\n\n", "s = '''a\nb'''\n", "y = 1 ; ", "\r\n\t", "`two\nlines` = 1\n"}
	c17LoadFaultPost  = []string{"", "\ny = 2\n", "\n\nf(3)"}
)

// c17LoadFaultCheck returns "" or the description of what is wrong. [lo, hi) is the statement at fault.
func c17LoadFaultCheck(src string, lo, hi int) (class, msg string, rejected bool) {
	// a second script with byte-identical text in the same load: each is reported under its own name
	_, errs := drv.Load(map[string]string{"s.p": src, "dir/twin.p": src})
	e, bad := errs["s.p"]
	if !bad {
		return "", "", false
	}
	if te, tbad := errs["dir/twin.p"]; !tbad {
		return "twin-accepted", "the same text is rejected as s.p and accepted as dir/twin.p", true
	} else if tpe, ok := te.(*errchain.PlError); ok && tpe != nil && len(tpe.PosChain) > 0 && tpe.PosChain[0].File != "dir/twin.p" {
		return "wrong-file", fmt.Sprintf("the error of dir/twin.p names %q: %v", tpe.PosChain[0].File, te), true
	}
	if lp, isPanic := e.(*drv.LoadPanic); isPanic {
		return "panic", lp.Msg, true
	}
	pe, ok := e.(*errchain.PlError)
	if !ok || pe == nil {
		return "error-without-position", fmt.Sprintf("%T %v", e, e), true
	}
	if m := c17ErrPos(pe, src, "s.p"); m != "" {
		if strings.HasPrefix(m, "offset-out-of-source") && len(pe.PosChain) > 0 && pe.PosChain[0].Pos == len(src) {
			return "", "", true // a diagnostic at end of input
		}
		return strings.SplitN(m, ":", 2)[0], m + "\nerror: " + pe.Error(), true
	}
	if p := pe.PosChain[0].Pos; hi > lo && (p < lo || p > hi) {
		return "outside-the-statement-at-fault", fmt.Sprintf("the statement at fault spans the offsets [%d,%d), the error is reported at offset %d (%d:%d)\nerror: %s", lo, hi, p, pe.PosChain[0].Ln, pe.PosChain[0].Col, pe.Error()), true
	}
	return "", "", true
}

func c17LoadFaults(w *run.Worker) {
	for _, f := range c17LoadFaultTexts {
		for _, r := range c17LoadFaultRoles {
			for _, pre := range c17LoadFaultPre {
				for _, post := range c17LoadFaultPost {
					if !w.Take() {
						continue
					}
					stmt := fmt.Sprintf(r, f)
					if i := strings.Index(stmt, "\ny = 2"); i >= 0 && strings.HasSuffix(stmt, "\ny = 2") {
						stmt, post = stmt[:i], stmt[i:]+post // the role brings its own following statement
					}
					src := pre + stmt + post
					lo, hi := len(pre), len(pre)+len(stmt)
					w.Eval()
					class, msg, rejected := c17LoadFaultCheck(src, lo, hi)
					if !rejected {
						w.Note("load_faults_accepted(decided elsewhere)", 1)
						continue
					}
					w.Outcome("load-fault|" + class + "|" + f)
					if class != "" {
						w.Violate("C17:load-fault:"+class, msg+"\n"+src, c17Case{Part: "load-fault", Source: src, Offset: lo, End: hi})
					}
				}
			}
		}
	}
}
