package checks

import (
	"encoding/json"
	"fmt"
	"math"
	"strings"
	"time"

	"verif/mc/internal/drv"
	"verif/mc/internal/ref"
	"verif/mc/internal/rt"
	"verif/mc/internal/run"
)

// C04 — lists, maps, indexing and slicing are exact and alias correctly.

type c04Case struct {
	Part   string `json:"part"`
	Source string `json:"source"`
	Extra  string `json:"extra,omitempty"`
}

// bound choice: omitted (nil) or a value
type bnd struct {
	omit bool
	v    int64
}

func c04Bounds(r int64) []bnd {
	out := []bnd{{omit: true}}
	for v := -r; v <= r; v++ {
		out = append(out, bnd{v: v})
	}
	out = append(out, bnd{v: math.MaxInt64}, bnd{v: -math.MaxInt64}, bnd{v: math.MinInt64})
	return out
}

func intNode(v int64) *rt.Node {
	if v == math.MinInt64 {
		return rt.Id("mn")
	}
	return rt.Int(v)
}

// c04SliceV2: the program is built for the v2 interpreter (no len / add_key in its probe table)
var c04SliceV2 bool

func c04SliceProg(objList bool, n int, objLit bool, s, e, t bnd, colon2 bool, viaVar bool) *Prog {
	var objNode *rt.Node
	if objList {
		var el []*rt.Node
		for i := 0; i < n; i++ {
			el = append(el, rt.Int(int64(10+i)))
		}
		objNode = rt.List(el...)
	} else {
		objNode = rt.Str("abcdef"[:n])
	}
	var stmts []*rt.Node
	stmts = append(stmts, rt.Assign("=", rt.Id("mn"), rt.Bin("-", rt.Int(-math.MaxInt64), rt.Int(1))))
	obj := objNode
	if !objLit {
		stmts = append(stmts, rt.Assign("=", rt.Id("a"), objNode))
		obj = rt.Id("a")
	}
	mk := func(b bnd, name string) *rt.Node {
		if b.omit {
			return nil
		}
		if viaVar {
			stmts = append(stmts, rt.Assign("=", rt.Id(name), intNode(b.v)))
			return rt.Id(name)
		}
		return intNode(b.v)
	}
	sn, en, tn := mk(s, "s"), mk(e, "e"), mk(t, "t")
	sl := rt.Slice(obj, sn, en, tn, colon2)
	stmts = append(stmts, rt.Call("p", sl))
	if !c04SliceV2 {
		// the same slice expression directly under len(), compared with the empty list, and copied into the point
		stmts = append(stmts, rt.Call("p", rt.Call("len", rt.Clone(sl)), rt.Bin("==", rt.Clone(sl), rt.List()), rt.In(rt.List(), rt.List(rt.Clone(sl)))), rt.Call("add_key", rt.Id("k"), rt.Clone(sl)), rt.Call("p", rt.Call("get_key", rt.Id("k"))))
	}
	return &Prog{Scripts: map[string][]*rt.Node{"s.p": stmts}, Main: "s.p", Point: PointSpec{Meas: "m"}}
}

func c04Report(w *run.Worker, d dctx, part string, p *Prog, v Verdict, keyExtra string) {
	w.Outcome(v.Outcome)
	if v.Skipped != "" {
		w.Note("unspecified_cells_skipped", 1)
		w.Note("unspecified_cells_skipped:"+part, 1)
		return
	}
	if v.OK {
		return
	}
	src := p.Sources()[p.Main]
	key := d.id + ":" + part + ":" + v.Key
	if v.Key == "panic" {
		key += ":" + panicClass(v.Real.Panic)
	}
	if keyExtra != "" {
		key += ":" + keyExtra
	}
	w.Violate(key, v.What, c04Case{Part: part, Source: src})
}

// panicClass reduces a panic message to its kind.
func panicClass(msg string) string {
	switch {
	case strings.Contains(msg, "makeslice"):
		return "makeslice"
	case strings.Contains(msg, "index out of range"):
		return "index-out-of-range"
	case strings.Contains(msg, "nil pointer"):
		return "nil-dereference"
	case strings.Contains(msg, "slice bounds"):
		return "slice-bounds"
	case strings.Contains(msg, "interface conversion"):
		return "interface-conversion"
	}
	f := strings.Fields(msg)
	if len(f) > 4 {
		f = f[:4]
	}
	return strings.Join(f, "-")
}

func c04Slices(w *run.Worker, d dctx) {
	c04SliceV2 = d.v2
	r := int64(8)
	maxLen := 5
	if w.Thorough {
		r, maxLen = 10, 6
	}
	bs := c04Bounds(r)
	for _, objList := range []bool{true, false} {
		for n := 0; n <= maxLen; n++ {
			for _, objLit := range []bool{false, true} {
				for _, viaVar := range []bool{false, true} {
					for _, s := range bs {
						for _, e := range bs {
							for _, t := range bs {
								colons := []bool{true}
								if t.omit {
									colons = []bool{false, true}
								}
								for _, c2 := range colons {
									if !w.Take() {
										continue
									}
									if w.Expired() {
										return
									}
									p := c04SliceProg(objList, n, objLit, s, e, t, c2, viaVar)
									w.Eval()
									v := d.diff(p)
									extra := ""
									if !v.OK && v.Key != "panic" {
										extra = map[bool]string{true: "list", false: "string"}[objList]
									}
									c04Report(w, d, "slice", p, v, extra)
									if w.WantSample() && n == 3 && !s.omit && s.v == -2 && !t.omit && t.v == -1 {
										w.Sample(map[string]any{"program": p.Sources()["s.p"], "outcome": v.Outcome})
									}
								}
							}
						}
					}
				}
			}
		}
	}
}

// non-ASCII strings: the result must be the byte slice or the rune slice.
func c04NonASCII(w *run.Worker) {
	strs := []string{"é", "aé", "éa", "éé", "日本", "a日b"}
	bs := []bnd{{omit: true}}
	for v := int64(-4); v <= 4; v++ {
		bs = append(bs, bnd{v: v})
	}
	for _, str := range strs {
		for _, s := range bs {
			for _, e := range bs {
				for _, t := range bs {
					if !w.Take() {
						continue
					}
					var sn, en, tn *rt.Node
					var sp, ep, tp *int64
					if !s.omit {
						sn = rt.Int(s.v)
						x := s.v
						sp = &x
					}
					if !e.omit {
						en = rt.Int(e.v)
						x := e.v
						ep = &x
					}
					if !t.omit {
						tn = rt.Int(t.v)
						x := t.v
						tp = &x
					}
					stmts := []*rt.Node{rt.Assign("=", rt.Id("a"), rt.Str(str)), rt.Call("p", rt.Slice(rt.Id("a"), sn, en, tn, true))}
					p := &Prog{Scripts: map[string][]*rt.Node{"s.p": stmts}, Main: "s.p", Point: PointSpec{Meas: "m"}}
					srcs := p.Sources()
					sc, err := drv.Load1("s.p", srcs["s.p"])
					w.Eval()
					if err != nil {
						w.Violate("C04:nonascii:unexpected-load-error", err.Error()+"\n"+srcs["s.p"], c04Case{Part: "nonascii", Source: srcs["s.p"]})
						continue
					}
					res := drv.Run(sc, p.Point.real().Build(), &drv.Sig{FireAt: realPollCap})
					out := strings.Join(res.Trace, ";") + fmt.Sprint(res.Err != nil) + res.Panic
					w.Outcome(out)
					if res.Panic != "" {
						w.Violate("C04:nonascii:panic:"+panicClass(res.Panic), res.Panic+"\n"+srcs["s.p"], c04Case{Part: "nonascii", Source: srcs["s.p"]})
						continue
					}
					if tp != nil && *tp == 0 {
						if res.Err == nil {
							w.Violate("C04:nonascii:step-zero-accepted", srcs["s.p"], c04Case{Part: "nonascii", Source: srcs["s.p"]})
						}
						continue
					}
					bidx, _ := ref.SliceIndices(len(str), sp, ep, tp)
					var bb strings.Builder
					for _, i := range bidx {
						bb.WriteByte(str[i])
					}
					runes := []rune(str)
					ridx, _ := ref.SliceIndices(len(runes), sp, ep, tp)
					var rb strings.Builder
					for _, i := range ridx {
						rb.WriteRune(runes[i])
					}
					allowed := []string{"p(" + drv.Canon(bb.String()) + ")", "p(" + drv.Canon(rb.String()) + ")"}
					got := strings.Join(res.Trace, ";")
					if res.Err != nil || (got != allowed[0] && got != allowed[1]) {
						w.Violate("C04:nonascii:neither-byte-nor-rune-slice",
							fmt.Sprintf("%s\nreal: %s err=%v\nallowed: byte slice %s or rune slice %s", srcs["s.p"], got, res.Err, allowed[0], allowed[1]),
							c04Case{Part: "nonascii", Source: srcs["s.p"]})
					}
				}
			}
		}
	}
}

func c04Shapes() []func() *rt.Node {
	I, S := rt.Int, rt.Str
	return []func() *rt.Node{
		func() *rt.Node { return rt.List(I(10), I(11), I(12)) },
		func() *rt.Node { return rt.Map(S("a"), I(1), S("b"), I(2)) },
		func() *rt.Node {
			return rt.List(rt.List(I(1), I(2)), rt.Map(S("k"), rt.List(I(7), I(8))))
		},
		func() *rt.Node {
			return rt.Map(S("k"), rt.List(I(1), rt.List(I(2), I(3))), S("m"), rt.Map(S("n"), I(5)))
		},
		func() *rt.Node { return rt.Str("xyz") },
		func() *rt.Node { return rt.Int(7) },
	}
}

func c04Keys() []func() *rt.Node {
	I, S := rt.Int, rt.Str
	return []func() *rt.Node{
		func() *rt.Node { return I(0) }, func() *rt.Node { return I(1) }, func() *rt.Node { return I(2) },
		func() *rt.Node { return I(-1) }, func() *rt.Node { return I(-2) }, func() *rt.Node { return I(-3) },
		func() *rt.Node { return I(3) }, func() *rt.Node { return I(-4) },
		func() *rt.Node { return I(math.MaxInt64) }, func() *rt.Node { return I(-math.MaxInt64) },
		func() *rt.Node { return rt.Id("mn") },
		func() *rt.Node { return I(1 << 32) }, func() *rt.Node { return I(-(1 << 32)) },
		func() *rt.Node { return S("a") }, func() *rt.Node { return S("k") }, func() *rt.Node { return S("m") },
		func() *rt.Node { return S("n") }, func() *rt.Node { return S("zz") },
		func() *rt.Node { return rt.Float(1.5) }, func() *rt.Node { return rt.Float(1) },
		func() *rt.Node { return rt.Nil() }, func() *rt.Node { return rt.Bool(true) },
	}
}

func c04Paths(w *run.Worker, d dctx) {
	shapes := c04Shapes()
	keys := c04Keys()
	maxDepth := 3
	for si, sh := range shapes {
		for depth := 1; depth <= maxDepth; depth++ {
			idx := make([]int, depth)
			for {
				for mode := 0; mode < 3; mode++ {
					if !w.Take() {
						continue
					}
					if w.Expired() {
						return
					}
					var ks []*rt.Node
					for _, i := range idx {
						ks = append(ks, keys[i]())
					}
					stmts := []*rt.Node{
						rt.Assign("=", rt.Id("mn"), rt.Bin("-", rt.Int(-math.MaxInt64), rt.Int(1))),
						rt.Assign("=", rt.Id("a"), sh()),
					}
					switch mode {
					case 0:
						stmts = append(stmts, rt.Call("p", rt.Index("a", ks...)))
					case 1:
						stmts = append(stmts, rt.Assign("=", rt.Index("a", ks...), rt.Int(99)), rt.Call("p", rt.Id("a")))
					case 2:
						stmts = append(stmts, rt.Assign("+=", rt.Index("a", ks...), rt.Int(1)), rt.Call("p", rt.Id("a")))
					}
					p := &Prog{Scripts: map[string][]*rt.Node{"s.p": stmts}, Main: "s.p", Point: PointSpec{Meas: "m"}}
					w.Eval()
					v := d.diff(p)
					c04Report(w, d, []string{"index-read", "index-write", "index-compound"}[mode], p, v, "")
					if w.WantSample() && si == 3 && depth == 3 && mode == 1 && v.OK && v.Real.Err == nil {
						w.Sample(map[string]any{"program": p.Sources()["s.p"], "outcome": v.Outcome})
					}
				}
				j := depth - 1
				for ; j >= 0; j-- {
					idx[j]++
					if idx[j] < len(keys) {
						break
					}
					idx[j] = 0
				}
				if j < 0 {
					break
				}
			}
		}
	}
}

func c04AliasOps() []func() *rt.Node {
	I, S, Id := rt.Int, rt.Str, rt.Id
	return []func() *rt.Node{
		func() *rt.Node { return rt.Assign("=", Id("b"), Id("a")) },
		func() *rt.Node { return rt.Assign("=", Id("b"), rt.Index("a", I(0))) },
		func() *rt.Node { return rt.Assign("=", Id("b"), rt.Index("a", I(2))) },
		func() *rt.Node { return rt.Assign("=", Id("c"), rt.Slice(Id("a"), I(0), I(2), nil, false)) },
		func() *rt.Node { return rt.Assign("=", rt.Index("a", I(1)), I(9)) },
		func() *rt.Node { return rt.Assign("=", rt.Index("a", I(0), I(0)), I(8)) },
		func() *rt.Node { return rt.Assign("=", rt.Index("b", I(0)), I(7)) },
		func() *rt.Node { return rt.Assign("=", rt.Index("b", S("k")), I(6)) },
		func() *rt.Node { return rt.Assign("=", rt.Index("c", I(0)), I(5)) },
		func() *rt.Node { return rt.Assign("=", rt.Index("c", I(0), I(1)), I(4)) },
		func() *rt.Node { return rt.Call("add_key", Id("snap"), Id("a")) },
		func() *rt.Node { return rt.Call("p", Id("a"), Id("b"), Id("c"), Id("d")) },
		func() *rt.Node {
			return rt.Call("p", rt.Call("len", Id("a")), rt.In(I(9), Id("a")), rt.Call("len", Id("b")))
		},
		// an existing container stored into a slot of another one stays the same object (no copy on store)
		func() *rt.Node { return rt.Assign("=", rt.Index("a", I(1)), Id("b")) },
		func() *rt.Node { return rt.Assign("=", rt.Index("a", I(2), S("k")), Id("c")) },
		func() *rt.Node { return rt.Assign("=", Id("d"), rt.List(I(0), rt.Map())) },
		func() *rt.Node { return rt.Assign("=", rt.Index("d", I(1), S("in")), Id("a")) },
		func() *rt.Node { return rt.Assign("=", rt.Index("d", I(0)), I(3)) },
		// two index steps down: with b an alias of a[0] this would store an inner list into itself
		func() *rt.Node { return rt.Assign("=", rt.Index("a", I(0), I(1)), Id("b")) },
	}
}

func c04Alias(w *run.Worker, d dctx) {
	ops := c04AliasOps()
	if d.v2 {
		ops = append(append(append([]func() *rt.Node{}, ops[:10]...), ops[11]), ops[13:]...) // no add_key / len in v2
	}
	maxLen := 4
	I, S, Id := rt.Int, rt.Str, rt.Id
	for n := 1; n <= maxLen; n++ {
		idx := make([]int, n)
		for {
			if w.Take() {
				if w.Expired() {
					return
				}
				stmts := []*rt.Node{rt.Assign("=", Id("a"), rt.List(rt.List(I(1), I(2)), I(3), rt.Map(S("k"), I(4))))}
				for _, i := range idx {
					stmts = append(stmts, ops[i]())
				}
				if d.v2 {
					stmts = append([]*rt.Node{rt.Assign("=", Id("b"), rt.Nil()), rt.Assign("=", Id("c"), rt.Nil()), rt.Assign("=", Id("d"), rt.Nil())}, stmts...)
					stmts = append(stmts, rt.Call("p", Id("a"), Id("b"), Id("c"), Id("d")))
				} else {
					stmts = append(stmts, rt.Call("p", Id("a"), Id("b"), Id("c"), Id("d"), rt.Call("get_key", Id("snap"))))
				}
				p := &Prog{Scripts: map[string][]*rt.Node{"s.p": stmts}, Main: "s.p", Point: PointSpec{Meas: "m"}}
				w.Eval()
				v := d.diff(p)
				c04Report(w, d, "alias", p, v, "")
				if w.WantSample() && n == 4 && idx[0] == 1 && idx[1] == 6 && idx[2] == 10 {
					w.Sample(map[string]any{"program": p.Sources()["s.p"], "outcome": v.Outcome})
				}
			}
			j := n - 1
			for ; j >= 0; j-- {
				idx[j]++
				if idx[j] < len(ops) {
					break
				}
				idx[j] = 0
			}
			if j < 0 {
				break
			}
		}
	}
}

func c04JSON(w *run.Worker, d dctx) {
	I, S, Id := rt.Int, rt.Str, rt.Id
	texts := []string{`[1,2,3]`, `{"a":1,"b":[true,null,"x"]}`, `"str"`, `12`, `1.5`, `null`, `true`, `[[1,[2,[3]]]]`, `{"a":{"b":{"c":1}}}`,
		`[`, `{"a":}`, ``, `[1,2,`, `{"a":1}{"b":2}`, ` [1] `, `1e400`, `"\ud800"`, `[1,2,3`, `nul`}
	for _, t := range texts {
		for mode := 0; mode < 3; mode++ {
			if !w.Take() {
				continue
			}
			var stmts []*rt.Node
			switch mode {
			case 0:
				stmts = []*rt.Node{rt.Assign("=", Id("j"), rt.Call("load_json", S(t))), rt.Call("p", Id("j"), rt.Call("len", Id("j")))}
			case 1:
				stmts = []*rt.Node{rt.Assign("=", Id("j"), rt.Call("load_json", S(t))), rt.Call("add_key", Id("k"), Id("j")),
					rt.Call("p", rt.Call("get_key", Id("k")))}
			case 2:
				stmts = []*rt.Node{rt.Assign("=", Id("j"), rt.Call("load_json", S(t))), rt.Assign("=", rt.Index("j", I(0)), I(5)),
					rt.Call("add_key", Id("k"), Id("j")), rt.Call("p", rt.Call("load_json", rt.Call("get_key", Id("k"))))}
			}
			p := &Prog{Scripts: map[string][]*rt.Node{"s.p": stmts}, Main: "s.p", Point: PointSpec{Meas: "m"}}
			w.Eval()
			v := d.diff(p)
			c04Report(w, d, "json", p, v, "")
		}
	}
	// the same text decoded twice, the first document changed in between (at the top and inside): every
	// decode yields a document of its own
	for _, t := range []string{`[1,2,3]`, `{"a":1,"b":[true,null,"x"]}`, `[[1,[2,[3]]]]`, `{"a":{"b":{"c":1}}}`} {
		for mode := 0; mode < 3; mode++ {
			if !w.Take() {
				continue
			}
			var change *rt.Node
			isList := t[0] == '['
			switch {
			case mode == 0 && isList:
				change = rt.Assign("=", rt.Index("j", I(0)), S("changed"))
			case mode == 0:
				change = rt.Assign("=", rt.Index("j", S("a")), S("changed"))
			case mode == 1 && isList && t[1] == '[':
				change = rt.Assign("=", rt.Index("j", I(0), I(0)), S("changed"))
			case mode == 1 && !isList && t == `{"a":{"b":{"c":1}}}`:
				change = rt.Assign("=", rt.Index("j", S("a"), S("b")), S("changed"))
			case mode == 1 && !isList:
				change = rt.Assign("=", rt.Index("j", S("b"), I(0)), S("changed"))
			case mode == 2 && !isList:
				change = rt.Assign("=", rt.Index("j", S("new")), I(1))
			default:
				change = rt.Assign("=", rt.Index("j", I(-1)), rt.List(S("changed")))
			}
			stmts := []*rt.Node{rt.Assign("=", Id("j"), rt.Call("load_json", S(t))), change, rt.Assign("=", Id("j2"), rt.Call("load_json", S(t))), rt.Call("p", Id("j"), Id("j2")),
				rt.ForIn("i", rt.List(I(1), I(2)), rt.Block(rt.Assign("=", Id("d"), rt.Call("load_json", S(t))), rt.Call("p", Id("d")), func() *rt.Node {
					if isList {
						return rt.Assign("=", rt.Index("d", I(0)), Id("i"))
					}
					return rt.Assign("=", rt.Index("d", S("a")), Id("i"))
				}()))}
			p := &Prog{Scripts: map[string][]*rt.Node{"s.p": stmts}, Main: "s.p", Point: PointSpec{Meas: "m"}}
			w.Eval()
			v := d.diff(p)
			c04Report(w, d, "json-decoded-twice", p, v, "")
		}
	}
	// collection literal -> add_key -> load_json round trip of the shapes
	for _, sh := range c04Shapes() {
		if !w.Take() {
			continue
		}
		stmts := []*rt.Node{rt.Assign("=", Id("a"), sh()), rt.Call("add_key", Id("k"), Id("a")),
			rt.Call("p", rt.Call("get_key", Id("k")), rt.Call("len", Id("a")))}
		p := &Prog{Scripts: map[string][]*rt.Node{"s.p": stmts}, Main: "s.p", Point: PointSpec{Meas: "m"}}
		w.Eval()
		v := d.diff(p)
		c04Report(w, d, "json", p, v, "")
	}
}

// a collection literal evaluated several times (loop body, second statement)
// yields a fresh collection each time: a write through one evaluation's result
// is not visible in the next
func c04Reeval(w *run.Worker, d dctx) {
	I, S, Id := rt.Int, rt.Str, rt.Id
	lits := []nodeFn{
		func() *rt.Node { return rt.List(rt.List(I(0), I(0)), rt.List(I(1))) },
		func() *rt.Node { return rt.List(I(0), I(1)) },
		func() *rt.Node { return rt.List(rt.List(rt.List(I(0)))) },
		func() *rt.Node { return rt.Map(S("k"), rt.List(I(0), I(1)), S("j"), rt.Map(S("n"), I(0))) },
		func() *rt.Node { return rt.List(rt.Map(S("k"), I(0)), S("s"), rt.Nil(), rt.Float(1.5), rt.Bool(true)) },
		func() *rt.Node { return rt.List(rt.List(I(0), Id("i")), rt.List(I(1))) },
	}
	writes := []nodeFn{
		func() *rt.Node { return rt.Assign("+=", rt.Index("a", I(0), I(0)), I(1)) },
		func() *rt.Node { return rt.Assign("=", rt.Index("a", I(0), I(0)), I(9)) },
		func() *rt.Node { return rt.Assign("=", rt.Index("a", I(0)), I(9)) },
		func() *rt.Node { return rt.Assign("=", rt.Index("a", I(0), I(0), I(0)), I(9)) },
		func() *rt.Node { return rt.Assign("=", rt.Index("a", S("k"), I(0)), I(9)) },
		func() *rt.Node { return rt.Assign("=", rt.Index("a", S("j"), S("n")), I(9)) },
		func() *rt.Node { return rt.Assign("=", rt.Index("a", I(0), S("k")), I(9)) },
		func() *rt.Node { return rt.Assign("=", rt.Index("a", I(-1), I(0)), I(9)) },
	}
	for _, lit := range lits {
		for _, wr := range writes {
			for form := 0; form < 3; form++ {
				if !w.Take() {
					continue
				}
				var stmts []*rt.Node
				body := func() []*rt.Node {
					return []*rt.Node{rt.Assign("=", Id("a"), lit()), rt.Call("p", Id("a")), wr(), rt.Call("p", Id("a"))}
				}
				switch form {
				case 0: // loop
					stmts = []*rt.Node{rt.Assign("=", Id("i"), I(0)), rt.ForIn("i", rt.List(I(1), I(2), I(3)), rt.Block(body()...))}
				case 1: // three-clause loop with the literal also in the condition-free body of an if
					stmts = []*rt.Node{rt.For(rt.Assign("=", Id("i"), I(0)), rt.Bin("<", Id("i"), I(2)), rt.Assign("=", Id("i"), rt.Bin("+", Id("i"), I(1))),
						rt.Block(rt.If(rt.Bool(true), rt.Block(body()...))))}
				case 2: // straight-line: two separate evaluations of textually equal literals, and an alias in between
					stmts = append([]*rt.Node{rt.Assign("=", Id("i"), I(0))}, body()...)
					stmts = append(stmts, rt.Assign("=", Id("b"), Id("a")))
					stmts = append(stmts, body()...)
					stmts = append(stmts, rt.Call("p", Id("b")))
				}
				p := &Prog{Scripts: map[string][]*rt.Node{"s.p": stmts}, Main: "s.p", Point: PointSpec{Meas: "m"}}
				w.Eval()
				v := d.diff(p)
				c04Report(w, d, "literal-reevaluation", p, v, "")
				// the same loaded script run a second time on a fresh point must behave the same (the tree is shared)
				if !d.v2 && v.OK && v.Skipped == "" {
					srcs := p.Sources()
					if sc, err := drv.Load1("s.p", srcs["s.p"]); err == nil {
						r1 := drv.Run(sc, p.Point.real().Build(), &drv.Sig{FireAt: realPollCap})
						r2 := drv.Run(sc, p.Point.real().Build(), &drv.Sig{FireAt: realPollCap})
						w.EvalN(2)
						if strings.Join(r1.Trace, ";") != strings.Join(r2.Trace, ";") || (r1.Err != nil) != (r2.Err != nil) {
							w.Violate("C04:literal-reevaluation:second-run-of-loaded-script-differs", fmt.Sprintf("%s\nfirst run : %v\nsecond run: %v", srcs["s.p"], r1.Trace, r2.Trace), c04Case{Part: "rerun", Source: srcs["s.p"]})
						}
					}
				}
			}
		}
	}
}

// len() and `in` over every value shape
func c04LenIn(w *run.Worker, d dctx) {
	I, S, Id := rt.Int, rt.Str, rt.Id
	vals := []nodeFn{
		func() *rt.Node { return rt.List() }, func() *rt.Node { return rt.List(I(1), S("a"), rt.Nil(), rt.List(I(1)), rt.Map(S("k"), I(1)), rt.Float(1.5), rt.Bool(true)) },
		func() *rt.Node { return rt.Map() }, func() *rt.Node { return rt.Map(S("a"), I(1), S("é"), rt.List()) }, func() *rt.Node { return rt.Map(S("a"), rt.Nil(), S(""), I(0)) },
		func() *rt.Node { return S("") }, func() *rt.Node { return S("abc") }, func() *rt.Node { return S("héé") }, func() *rt.Node { return S("日本語x") },
		func() *rt.Node { return I(5) }, func() *rt.Node { return rt.Nil() }, func() *rt.Node { return rt.Bool(true) }, func() *rt.Node { return rt.Float(2.5) },
		func() *rt.Node { return rt.Slice(rt.List(I(1), I(2), I(3)), I(1), nil, nil, false) },
	}
	needles := []nodeFn{
		func() *rt.Node { return I(1) }, func() *rt.Node { return S("a") }, func() *rt.Node { return S("é") }, func() *rt.Node { return S("") }, func() *rt.Node { return rt.Nil() },
		func() *rt.Node { return rt.List(I(1)) }, func() *rt.Node { return rt.Map(S("k"), I(1)) }, func() *rt.Node { return rt.Float(1.5) }, func() *rt.Node { return rt.Bool(true) }, func() *rt.Node { return S("本") },
		func() *rt.Node { return I(2) }, func() *rt.Node { return rt.List() },
	}
	// long constant literals as the right operand (9, 17, 40 scalar elements; one holding a float, nil and a bool)
	for _, n := range []int{9, 17, 40} {
		n := n
		vals = append(vals, func() *rt.Node {
			var e []*rt.Node
			for i := 0; i < n; i++ {
				if i%2 == 0 {
					e = append(e, I(int64(i)))
				} else {
					e = append(e, S(fmt.Sprintf("s%d", i)))
				}
			}
			return rt.List(e...)
		})
	}
	vals = append(vals, func() *rt.Node {
		return rt.List(I(1), S("a"), rt.Nil(), rt.Float(1.5), rt.Bool(true), I(2), I(3), I(4), I(5), I(6), S("b"), S("é"))
	})
	for _, v := range vals {
		if w.Take() {
			stmts := []*rt.Node{rt.Assign("=", Id("v"), v()), rt.Call("p", rt.Call("len", Id("v")), rt.Call("len", v()))}
			if d.v2 {
				stmts = []*rt.Node{rt.Assign("=", Id("v"), v()), rt.Call("p", Id("v"))}
			}
			p := &Prog{Scripts: map[string][]*rt.Node{"s.p": stmts}, Main: "s.p", Point: PointSpec{Meas: "m"}}
			w.Eval()
			c04Report(w, d, "len", p, d.diff(p), "")
		}
		for _, n := range needles {
			if !w.Take() {
				continue
			}
			stmts := []*rt.Node{rt.Assign("=", Id("v"), v()), rt.Assign("=", Id("x"), n()), rt.Call("p", rt.In(Id("x"), Id("v"))), rt.Call("p", rt.In(n(), v()))}
			p := &Prog{Scripts: map[string][]*rt.Node{"s.p": stmts}, Main: "s.p", Point: PointSpec{Meas: "m"}}
			w.Eval()
			c04Report(w, d, "in", p, d.diff(p), "")
		}
	}
}

// equality matrix: every ordered pair of 21 equality representatives (near
// misses of each other: sub-/super-maps, prefixes, int vs float, nil-valued
// keys) as needle and as the only element of the haystack, bare, nested in a
// list and nested in a map; == and != over the same pairs.
func c04EqMatrix(w *run.Worker, d dctx) {
	I, S, Id := rt.Int, rt.Str, rt.Id
	reps := []nodeFn{
		func() *rt.Node { return rt.Nil() }, func() *rt.Node { return rt.Bool(true) }, func() *rt.Node { return rt.Bool(false) },
		func() *rt.Node { return I(0) }, func() *rt.Node { return I(1) }, func() *rt.Node { return rt.Float(1) }, func() *rt.Node { return rt.Float(0) },
		func() *rt.Node { return S("") }, func() *rt.Node { return S("1") }, func() *rt.Node { return S("a") },
		func() *rt.Node { return rt.List() }, func() *rt.Node { return rt.List(I(1)) }, func() *rt.Node { return rt.List(I(1), I(2)) }, func() *rt.Node { return rt.List(rt.Float(1)) },
		func() *rt.Node { return rt.List(rt.List(I(1))) },
		func() *rt.Node { return rt.Map() }, func() *rt.Node { return rt.Map(S("k"), I(1)) }, func() *rt.Node { return rt.Map(S("k"), I(1), S("j"), I(2)) },
		func() *rt.Node { return rt.Map(S("k"), rt.Float(1)) }, func() *rt.Node { return rt.Map(S("k"), rt.Nil()) }, func() *rt.Node { return rt.Map(S("j"), I(1)) },
	}
	for _, a := range reps {
		for _, b := range reps {
			if !w.Take() {
				continue
			}
			stmts := []*rt.Node{rt.Assign("=", Id("a"), a()), rt.Assign("=", Id("b"), b()),
				rt.Call("p", rt.In(Id("a"), rt.List(Id("b")))),
				rt.Call("p", rt.In(a(), rt.List(I(7), b()))),
				rt.Call("p", rt.In(rt.List(Id("a")), rt.List(rt.List(Id("b"))))),
				rt.Call("p", rt.In(rt.Map(S("m"), Id("a")), rt.List(rt.Map(S("m"), Id("b"))))),
				rt.Call("p", rt.In(rt.Map(S("m"), Id("a")), rt.List(rt.Map(S("m"), Id("b"), S("z"), I(0))))),
			}
			if !d.v2 {
				// (v2 rejects == between some type pairs at load time: kept to v1)
				stmts = append(stmts, rt.Call("p", rt.Bin("==", Id("a"), Id("b"))), rt.Call("p", rt.Bin("!=", Id("a"), Id("b"))))
			}
			p := &Prog{Scripts: map[string][]*rt.Node{"s.p": stmts}, Main: "s.p", Point: PointSpec{Meas: "m"}}
			w.Eval()
			c04Report(w, d, "eq-matrix", p, d.diff(p), "")
		}
	}
}

// c04SliceAgain: one slice / index expression evaluated again in the next round of a loop with other
// bounds (signs, magnitudes beyond the length, omitted-equivalents) and other objects (a list, then a
// string): every evaluation is decided by the values of that round.
func c04SliceAgain(w *run.Worker, d dctx) {
	I, S, Id := rt.Int, rt.Str, rt.Id
	objs := []nodeFn{func() *rt.Node { return rt.List(I(0), I(1), I(2), I(3), I(4)) }, func() *rt.Node { return S("abcde") }}
	seqs := [][]int64{{1, -2, 7}, {-7, 0, 2}, {3, 3, -1}, {-1, 1, -5}, {5, -6, 4}}
	forms := []func(v *rt.Node) *rt.Node{
		func(v *rt.Node) *rt.Node { return rt.Slice(Id("a"), v, nil, nil, false) },
		func(v *rt.Node) *rt.Node { return rt.Slice(Id("a"), nil, v, nil, false) },
		func(v *rt.Node) *rt.Node { return rt.Slice(Id("a"), nil, nil, v, true) },
		func(v *rt.Node) *rt.Node { return rt.Slice(Id("a"), v, v, nil, false) },
		func(v *rt.Node) *rt.Node { return rt.Slice(Id("a"), I(1), I(4), v, true) },
		func(v *rt.Node) *rt.Node { return rt.Slice(Id("a"), v, I(1), I(-1), true) },
		func(v *rt.Node) *rt.Node { return rt.Index("a", v) },
	}
	for oi, o := range objs {
		for _, seq := range seqs {
			for fi, f := range forms {
				if fi == 6 && oi == 1 {
					continue // strings are not indexable
				}
				for mode := 0; mode < 2; mode++ {
					if !w.Take() {
						continue
					}
					var stmts []*rt.Node
					if mode == 0 {
						// the bounds change from round to round
						stmts = []*rt.Node{rt.Assign("=", Id("a"), o()), rt.ForIn("v", rt.List(I(seq[0]), I(seq[1]), I(seq[2])), rt.Block(rt.Call("p", f(Id("v")))))}
					} else {
						// the object changes from round to round (list, string, shorter list)
						stmts = []*rt.Node{rt.ForIn("a", rt.List(objs[oi](), objs[1-oi](), rt.List(I(9))), rt.Block(rt.Call("p", f(I(seq[0])))))}
						if fi == 6 {
							continue
						}
					}
					p := &Prog{Scripts: map[string][]*rt.Node{"s.p": stmts}, Main: "s.p", Point: PointSpec{Meas: "m"}}
					w.Eval()
					c04Report(w, d, "slice-again", p, d.diff(p), "")
				}
			}
		}
	}
}

func c04Run(w *run.Worker) {
	d := dctx{id: "C04", diff: Differential}
	c04SliceAgain(w, d)
	c04LenIn(w, d)
	c04EqMatrix(w, d)
	c04Reeval(w, d)
	c04Paths(w, d)
	c04Alias(w, d)
	c04JSON(w, d)
	c04NonASCII(w)
	c04Slices(w, d)
}

func c04Replay(raw json.RawMessage) (bool, string) {
	var c c04Case
	if err := json.Unmarshal(raw, &c); err != nil {
		return false, err.Error()
	}
	if c.Part == "rerun" {
		sc, err := drv.Load1("s.p", c.Source)
		if err != nil {
			return false, err.Error()
		}
		r1 := drv.Run(sc, PointSpec{Meas: "m"}.real().Build(), &drv.Sig{FireAt: realPollCap})
		r2 := drv.Run(sc, PointSpec{Meas: "m"}.real().Build(), &drv.Sig{FireAt: realPollCap})
		return strings.Join(r1.Trace, ";") != strings.Join(r2.Trace, ";"), fmt.Sprintf("first run : %v\nsecond run: %v", r1.Trace, r2.Trace)
	}
	if c.Part == "nonascii" {
		sc, err := drv.Load1("s.p", c.Source)
		if err != nil {
			return true, err.Error()
		}
		res := drv.Run(sc, PointSpec{Meas: "m"}.real().Build(), &drv.Sig{FireAt: realPollCap})
		return res.Panic != "", fmt.Sprintf("trace=%v err=%v panic=%s (compare by hand with byte/rune slice)", res.Trace, res.Err, res.Panic)
	}
	return replaySource(c.Source, PointSpec{Meas: "m"})
}

func init() {
	run.Register(&run.Check{
		ID:    "C04",
		Level: "model_checking",
		Rule: "(A) the complete slice table: every list and ASCII string of length 0..5 (thorough 0..6) x (start,end,step) each omitted or in -8..8 (thorough -10..10) or +-(2^63-1) or -2^63, " +
			"bounds as literals and as variables, object as identifier and as literal, with and without the second colon; non-ASCII strings with a byte-or-rune disjunctive oracle; " +
			"(B) every index read / write / compound-write path of depth <=3 over 6 nested shapes x 22 keys (in range, negative, -len, len, 2^32, +-2^63 extremes, strings, missing key, float, nil, bool); " +
			"(C) every sequence of <=4 operations from 19 aliasing/mutation/snapshot operations (aliases, slices, element writes through each handle, storing an existing container into a slot of another one, snapshots); (D) load_json round trips; (F) len() and `in` over 13 value shapes x 12 needles (byte length of non-ASCII strings, nested elements); (E) 6 nested collection literals x 8 deep writes evaluated repeatedly (for-in body, three-clause body inside an if, twice in straight-line code with an alias in between) and the loaded script run twice; all against the reference (Python slice semantics, shared references, add_key snapshots)",
		Assumptions: []string{"encoding/json is the trusted base for the JSON text of snapshots", "unspecified cells: nil-valued slice bounds, indexing through a missing map key"},
		Run:            c04Run,
		Replay:         c04Replay,
		QuickBudget:    4 * time.Minute,
		ThoroughBudget: 25 * time.Minute,
	})
}
