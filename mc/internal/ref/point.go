package ref

import (
	"encoding/json"
	"sort"
	"strconv"
	"strings"
)

// PKey is one key of the reference point: a tag (string value) or a field.
type PKey struct {
	Tag bool
	V   Value // tag: string; field: nil | bool | int64 | float64 | string
}

// Point is the reference model of the input/output point.
type Point struct {
	Meas string
	Time int64 // unix nanoseconds
	K    map[string]*PKey
}

func NewPoint(meas string, tags map[string]string, fields map[string]Value, t int64) *Point {
	p := &Point{Meas: meas, Time: t, K: map[string]*PKey{}}
	for k, v := range fields {
		p.K[k] = &PKey{V: v}
	}
	for k, v := range tags { // tags override same-named fields
		p.K[k] = &PKey{Tag: true, V: v}
	}
	return p
}

func (p *Point) Clone() *Point {
	c := &Point{Meas: p.Meas, Time: p.Time, K: map[string]*PKey{}}
	for k, v := range p.K {
		kk := *v
		c.K[k] = &kk
	}
	return c
}

func (p *Point) Get(k string) (Value, bool) {
	e, ok := p.K[k]
	if !ok {
		return nil, false
	}
	return e.V, true
}

// Set writes a field (or updates an existing tag in place, string-converted).
// Lists and maps are stored as their JSON text.
func (p *Point) Set(k string, v Value, w *World) {
	k = keyName(k)
	e, ok := p.K[k]
	if ok && e.Tag {
		s, ok := StrForm(v)
		if !ok {
			w.unspec("writing a construct without value to a tag")
			return
		}
		e.V = s
		return
	}
	switch x := v.(type) {
	case *List, *Map:
		raw, err := json.Marshal(ToGo(x))
		if err != nil {
			w.unspec("collection not representable as JSON")
			p.K[k] = &PKey{V: nil}
			return
		}
		p.K[k] = &PKey{V: string(raw)}
	case VoidT:
		p.K[k] = &PKey{V: nil}
	default:
		p.K[k] = &PKey{V: v}
	}
}

func (p *Point) SetTag(k string, v Value, w *World) {
	k = keyName(k)
	s, ok := StrForm(v)
	if !ok {
		w.unspec("tag from a construct without value")
		s = ""
	}
	p.K[k] = &PKey{Tag: true, V: s}
}

func (p *Point) Delete(k string) { delete(p.K, keyName(k)) }

func (p *Point) Rename(to, from string, w *World) {
	to, from = keyName(to), keyName(from)
	if to == from {
		return
	}
	e, ok := p.K[from]
	if !ok {
		return
	}
	// the destination is replaced as a whole (value, kind and type move together)
	delete(p.K, from)
	p.K[to] = e
}

// Canon renders the point exactly as drv.CanonPoint renders a real point.
func (p *Point) Canon() string {
	var tags, fields []string
	for k, e := range p.K {
		if e.Tag {
			tags = append(tags, strconv.Quote(k)+"="+strconv.Quote(e.V.(string)))
		} else {
			fields = append(fields, strconv.Quote(k)+"="+Canon(e.V))
		}
	}
	sort.Strings(tags)
	sort.Strings(fields)
	return "M=" + strconv.Quote(p.Meas) + ";T={" + strings.Join(tags, ",") + "};F={" + strings.Join(fields, ",") + "};t=" + strconv.FormatInt(p.Time, 10)
}
