package ref

import (
	"fmt"
	"math"
	"strings"

	"verif/mc/internal/rt"
)

// RErr is a run-time script error of the reference model.
type RErr struct {
	Msg   string
	At    *rt.Node // node the error is about (its extent should contain the reported position)
	Stmt  *rt.Node // innermost simple statement being executed
	Chain []string // script names, innermost first
	Sites []*rt.Node
}

func (e *RErr) Error() string { return e.Msg }

// Builtin is a reference builtin: it receives the unevaluated argument nodes.
type Builtin func(in *Interp, call *rt.Node) (Value, *RErr)

// Interp is one run of one script (one scope stack).
type Interp struct {
	Name    string
	Pt      *Point
	W       *World
	scopes  []map[string]Value
	exited  bool
	curStmt *rt.Node
}

// World is what a run shares with the scripts it reaches through use().
type World struct {
	V2       bool
	Scripts  map[string][]*rt.Node
	Builtins map[string]Builtin
	Trace    []string
	Stdout   strings.Builder
	Steps    int
	MaxSteps int
	OutOfGas bool
	// Unspec is set when the run touched a cell the documents leave open
	// (DESIGN.md §5); the harness then skips the comparison.
	Unspec string
	// MapOrder supplies the iteration order of `for k in map` (taken from
	// the real run's trace, see DESIGN.md §4); nil = insertion order.
	MapOrder func(keys []string) []string
	// Year used by default_time for year-less layouts.
	Year int
}

type ctl int

const (
	ctlNone ctl = iota
	ctlBreak
	ctlContinue
	ctlExit
)

func NewWorld() *World {
	return &World{Scripts: map[string][]*rt.Node{}, Builtins: map[string]Builtin{}, MaxSteps: 200000}
}

func (w *World) unspec(s string) {
	if w.Unspec == "" {
		w.Unspec = s
	}
}

// RunScript runs a named script of the world on a point.
func (w *World) RunScript(name string, pt *Point) *RErr {
	prog := w.Scripts[name]
	in := &Interp{Name: name, Pt: pt, W: w}
	in.push()
	_, err := in.stmts(prog)
	return err
}

func (in *Interp) push() { in.scopes = append(in.scopes, map[string]Value{}) }
func (in *Interp) pop()  { in.scopes = in.scopes[:len(in.scopes)-1] }

func keyName(s string) string {
	if s == "_" {
		return "message"
	}
	return s
}

// LookupVar finds a variable in the scope chain.
func (in *Interp) LookupVar(name string) (Value, bool) {
	name = keyName(name)
	for i := len(in.scopes) - 1; i >= 0; i-- {
		if v, ok := in.scopes[i][name]; ok {
			return v, true
		}
	}
	return nil, false
}

// Lookup: variable first, then the point key (v1 only).
func (in *Interp) Lookup(name string) (Value, bool) {
	if v, ok := in.LookupVar(name); ok {
		return v, true
	}
	if in.W.V2 || in.Pt == nil {
		return nil, false
	}
	return in.Pt.Get(keyName(name))
}

// SetVar updates the nearest enclosing binding, else defines in the current block.
func (in *Interp) SetVar(name string, v Value) {
	name = keyName(name)
	for i := len(in.scopes) - 1; i >= 0; i-- {
		if _, ok := in.scopes[i][name]; ok {
			in.scopes[i][name] = v
			return
		}
	}
	in.scopes[len(in.scopes)-1][name] = v
}

func (in *Interp) err(at *rt.Node, format string, a ...any) *RErr {
	return &RErr{Msg: fmt.Sprintf(format, a...), At: at, Stmt: in.curStmt, Chain: []string{in.Name}}
}

func (in *Interp) tick() bool {
	in.W.Steps++
	if in.W.Steps > in.W.MaxSteps {
		in.W.OutOfGas = true
		return false
	}
	return true
}

// stmts runs a statement list; the exit flag is honoured at statement
// boundaries.
func (in *Interp) stmts(list []*rt.Node) (ctl, *RErr) {
	for _, s := range list {
		if !in.tick() {
			return ctlExit, nil
		}
		c, err := in.stmt(s)
		if err != nil {
			return ctlNone, err
		}
		if in.W.OutOfGas {
			return ctlExit, nil
		}
		if c != ctlNone {
			return c, nil
		}
		if in.exited {
			return ctlExit, nil
		}
	}
	return ctlNone, nil
}

func (in *Interp) stmt(s *rt.Node) (ctl, *RErr) {
	switch s.K {
	case rt.KIf:
		return in.ifStmt(s)
	case rt.KFor:
		return in.forStmt(s)
	case rt.KForIn:
		return in.forIn(s)
	case rt.KBreak:
		return ctlBreak, nil
	case rt.KContinue:
		return ctlContinue, nil
	}
	prev := in.curStmt
	in.curStmt = s
	_, err := in.Eval(s)
	in.curStmt = prev
	return ctlNone, err
}

// condValue evaluates a condition; in v2 a construct without value is an error.
func (in *Interp) condValue(c *rt.Node) (Value, *RErr) {
	prev := in.curStmt
	in.curStmt = c
	defer func() { in.curStmt = prev }()
	v, err := in.Eval(c)
	if err != nil {
		return nil, err
	}
	if in.W.V2 && IsVoid(v) {
		return nil, in.err(c, "no value")
	}
	if _, multi := v.(MultiT); multi {
		return nil, in.err(c, "multiple values in a single-value position")
	}
	return v, nil
}

func (in *Interp) ifStmt(s *rt.Node) (ctl, *RErr) {
	in.push()
	defer in.pop()
	n := len(s.Kids) / 2
	for i := 0; i < n; i++ {
		v, err := in.condValue(s.Kids[2*i])
		if err != nil {
			return ctlNone, err
		}
		if !Truthy(v) {
			continue
		}
		in.push()
		c, err := in.stmts(s.Kids[2*i+1].Kids)
		in.pop()
		return c, err
	}
	if s.HasElse {
		in.push()
		c, err := in.stmts(s.Kids[len(s.Kids)-1].Kids)
		in.pop()
		return c, err
	}
	return ctlNone, nil
}

func (in *Interp) clause(c *rt.Node) *RErr {
	prev := in.curStmt
	in.curStmt = c
	_, err := in.Eval(c)
	in.curStmt = prev
	return err
}

func (in *Interp) forStmt(s *rt.Node) (ctl, *RErr) {
	in.push()
	defer in.pop()
	if s.Kids[0] != nil {
		if err := in.clause(s.Kids[0]); err != nil {
			return ctlNone, err
		}
		if in.exited {
			// exit() in the init clause: no later statement has any effect
			return ctlExit, nil
		}
	}
	for {
		if !in.tick() {
			return ctlExit, nil
		}
		if s.Kids[1] != nil {
			v, err := in.condValue(s.Kids[1])
			if err != nil {
				return ctlNone, err
			}
			if in.exited {
				return ctlExit, nil
			}
			if !Truthy(v) {
				break
			}
		}
		in.push()
		c, err := in.stmts(s.Kids[3].Kids)
		in.pop()
		if err != nil {
			return ctlNone, err
		}
		if c == ctlBreak {
			break
		}
		if c == ctlExit {
			return ctlExit, nil
		}
		if s.Kids[2] != nil {
			if err := in.clause(s.Kids[2]); err != nil {
				return ctlNone, err
			}
			if in.exited {
				return ctlExit, nil
			}
		}
	}
	return ctlNone, nil
}

func (in *Interp) forIn(s *rt.Node) (ctl, *RErr) {
	in.push()
	defer in.pop()
	it, err := in.condValue(s.Kids[1])
	if err != nil {
		return ctlNone, err
	}
	name := s.Kids[0].S
	var items []Value
	switch x := it.(type) {
	case string:
		for _, r := range x {
			items = append(items, string(r))
		}
	case *List:
		items = append(items, x.E...)
	case *Map:
		keys := append([]string(nil), x.Keys...)
		if in.W.MapOrder != nil {
			keys = in.W.MapOrder(keys)
		}
		for _, k := range keys {
			items = append(items, k)
		}
	default:
		return ctlNone, in.err(s.Kids[1], "%s is not iterable", TypeName(it))
	}
	for _, item := range items {
		if !in.tick() {
			return ctlExit, nil
		}
		in.push()
		in.SetVar(name, item)
		c, err := in.stmts(s.Kids[2].Kids)
		in.pop()
		if err != nil {
			return ctlNone, err
		}
		if c == ctlBreak {
			break
		}
		if c == ctlExit {
			return ctlExit, nil
		}
	}
	return ctlNone, nil
}

// ---- expressions ------------------------------------------------------------

// operand evaluates a sub-expression in a value position; in v2 a construct
// that yields no value is an error there.
func (in *Interp) operand(n *rt.Node) (Value, *RErr) {
	v, err := in.Eval(n)
	if err != nil {
		return nil, err
	}
	if IsVoid(v) && in.W.V2 {
		return nil, in.err(n, "no value")
	}
	if _, multi := v.(MultiT); multi {
		return nil, in.err(n, "multiple values in a single-value position")
	}
	return v, nil
}

func (in *Interp) Eval(n *rt.Node) (Value, *RErr) {
	switch n.K {
	case rt.KIdent:
		v, ok := in.Lookup(n.S)
		if !ok {
			if in.W.V2 {
				return nil, in.err(n, "name %s is not defined", n.S)
			}
			return nil, nil
		}
		return v, nil
	case rt.KInt:
		return n.I, nil
	case rt.KFloat:
		return n.F, nil
	case rt.KStr:
		return n.S, nil
	case rt.KBool:
		return n.B, nil
	case rt.KNil:
		return nil, nil
	case rt.KParen:
		return in.Eval(n.Kids[0])
	case rt.KList:
		l := &List{E: []Value{}}
		for _, k := range n.Kids {
			v, err := in.operand(k)
			if err != nil {
				return nil, err
			}
			if IsVoid(v) {
				v = nil
			}
			l.E = append(l.E, v)
		}
		return l, nil
	case rt.KMap:
		m := NewMap()
		for i := 0; i+1 < len(n.Kids); i += 2 {
			k, err := in.operand(n.Kids[i])
			if err != nil {
				return nil, err
			}
			ks, ok := k.(string)
			if !ok {
				return nil, in.err(n.Kids[i], "map key must be a string, got %s", TypeName(k))
			}
			v, err := in.operand(n.Kids[i+1])
			if err != nil {
				return nil, err
			}
			if IsVoid(v) {
				return nil, in.err(n.Kids[i+1], "map value has no value")
			}
			m.Set(ks, v)
		}
		return m, nil
	case rt.KUnary:
		return in.unary(n)
	case rt.KBin:
		return in.binary(n)
	case rt.KIn:
		return in.inExpr(n)
	case rt.KIndex:
		return in.indexGet(n)
	case rt.KSlice:
		return in.slice(n)
	case rt.KAttr:
		return Void, nil
	case rt.KCall:
		return in.call(n)
	case rt.KAssign:
		return in.assign(n)
	case rt.KNamed:
		// a named argument evaluated as an expression behaves as an assignment
		v, err := in.operand(n.Kids[0])
		if err != nil {
			return nil, err
		}
		in.SetVar(n.S, v)
		return v, nil
	case rt.KIf, rt.KFor, rt.KForIn, rt.KBreak, rt.KContinue:
		_, err := in.stmt(n)
		return Void, err
	}
	return nil, in.err(n, "unsupported node %v", n.K)
}

func (in *Interp) call(n *rt.Node) (Value, *RErr) {
	b, ok := in.W.Builtins[n.S]
	if !ok {
		// unknown functions are rejected at load time; at run time nothing happens
		return Void, nil
	}
	return b(in, n)
}

func (in *Interp) unary(n *rt.Node) (Value, *RErr) {
	v, err := in.operand(n.Kids[0])
	if err != nil {
		return nil, err
	}
	switch n.Op {
	case "+", "-":
		neg := n.Op == "-"
		switch x := v.(type) {
		case bool:
			r := int64(0)
			if x {
				r = 1
			}
			if neg {
				r = -r
			}
			return r, nil
		case int64:
			if neg {
				return -x, nil
			}
			return x, nil
		case float64:
			if neg {
				return -x, nil
			}
			return x, nil
		}
		return nil, in.err(n, "bad operand type for unary %s: %s", n.Op, TypeName(v))
	case "!":
		return !Truthy(v), nil
	}
	return nil, in.err(n, "unknown unary operator %s", n.Op)
}

func isNumKind(v Value) bool {
	switch v.(type) {
	case int64, float64, bool:
		return true
	}
	return false
}

func toI(v Value) int64 {
	switch x := v.(type) {
	case int64:
		return x
	case bool:
		if x {
			return 1
		}
	}
	return 0
}

func toF(v Value) float64 {
	switch x := v.(type) {
	case int64:
		return float64(x)
	case float64:
		return x
	case bool:
		if x {
			return 1
		}
	}
	return 0
}

// Arith is the reference arithmetic on two evaluated operands.
func Arith(op string, l, r Value) (Value, string) {
	ls, lIsS := l.(string)
	rs, rIsS := r.(string)
	okT := func(v Value) bool { return isNumKind(v) || TypeName(v) == "str" }
	if !okT(l) || !okT(r) {
		return nil, fmt.Sprintf("unsupported operand types for %s: %s and %s", op, TypeName(l), TypeName(r))
	}
	if lIsS || rIsS {
		if op == "+" && lIsS && rIsS {
			return ls + rs, ""
		}
		return nil, fmt.Sprintf("unsupported operand types for %s: %s and %s", op, TypeName(l), TypeName(r))
	}
	_, lf := l.(float64)
	_, rf := r.(float64)
	if lf || rf {
		a, b := toF(l), toF(r)
		switch op {
		case "+":
			return a + b, ""
		case "-":
			return a - b, ""
		case "*":
			return a * b, ""
		case "/":
			if b == 0 {
				return nil, "float division by zero"
			}
			return a / b, ""
		}
		return nil, "float does not support modulo"
	}
	a, b := toI(l), toI(r)
	switch op {
	case "+":
		return a + b, ""
	case "-":
		return a - b, ""
	case "*":
		return a * b, ""
	case "/":
		if b == 0 {
			return nil, "integer division by zero"
		}
		if a == math.MinInt64 && b == -1 {
			return a, ""
		}
		return a / b, ""
	case "%":
		if b == 0 {
			return nil, "integer modulo by zero"
		}
		if b == -1 {
			return int64(0), ""
		}
		return a % b, ""
	}
	return nil, "unknown operator " + op
}

// Compare is the reference for == != < <= > >=. unspec != "" marks a cell the
// documents leave open.
func Compare(op string, l, r Value) (res Value, errMsg string, unspec string) {
	if IsVoid(l) {
		l = nil
	}
	if IsVoid(r) {
		r = nil
	}
	switch op {
	case "==", "!=":
		var eq bool
		switch {
		case isNumKind(l):
			if !isNumKind(r) {
				eq = false
				break
			}
			_, lf := l.(float64)
			_, rf := r.(float64)
			if lf || rf {
				eq = toF(l) == toF(r)
			} else {
				eq = toI(l) == toI(r)
			}
		case TypeName(l) == "str":
			rs, ok := r.(string)
			eq = ok && rs == l.(string)
		case l == nil:
			eq = r == nil
		default: // list, map
			if TypeName(l) != TypeName(r) {
				eq = false
				break
			}
			if HasNaN(l) || HasNaN(r) {
				unspec = "equality of collections containing NaN"
			}
			if MixedNumericEqual(l, r) {
				unspec = "element-wise numeric equality across int/float"
			}
			eq = DeepEqual(l, r)
		}
		if op == "!=" {
			return !eq, "", unspec
		}
		return eq, "", unspec
	}
	if !isNumKind(l) || !isNumKind(r) {
		return nil, fmt.Sprintf("operands of %s are not comparable: %s and %s", op, TypeName(l), TypeName(r)), ""
	}
	_, lf := l.(float64)
	_, rf := r.(float64)
	var c int
	if lf || rf {
		a, b := toF(l), toF(r)
		if math.IsNaN(a) || math.IsNaN(b) {
			return false, "", ""
		}
		switch {
		case a < b:
			c = -1
		case a > b:
			c = 1
		}
	} else {
		a, b := toI(l), toI(r)
		switch {
		case a < b:
			c = -1
		case a > b:
			c = 1
		}
	}
	switch op {
	case "<":
		return c < 0, "", ""
	case "<=":
		return c <= 0, "", ""
	case ">":
		return c > 0, "", ""
	case ">=":
		return c >= 0, "", ""
	}
	return nil, "unknown operator " + op, ""
}

func (in *Interp) binary(n *rt.Node) (Value, *RErr) {
	switch n.Op {
	case "&&", "||":
		l, err := in.operand(n.Kids[0])
		if err != nil {
			return nil, err
		}
		if lb, ok := l.(bool); ok {
			if n.Op == "||" && lb {
				return true, nil
			}
			if n.Op == "&&" && !lb {
				return false, nil
			}
		}
		r, err := in.operand(n.Kids[1])
		if err != nil {
			return nil, err
		}
		lb, ok1 := l.(bool)
		rb, ok2 := r.(bool)
		if !ok1 || !ok2 {
			return nil, in.err(n, "unsupported operand types for %s: %s and %s", n.Op, TypeName(l), TypeName(r))
		}
		if n.Op == "&&" {
			return lb && rb, nil
		}
		return lb || rb, nil
	}
	l, err := in.operand(n.Kids[0])
	if err != nil {
		return nil, err
	}
	r, err := in.operand(n.Kids[1])
	if err != nil {
		return nil, err
	}
	switch n.Op {
	case "+", "-", "*", "/", "%":
		v, msg := Arith(n.Op, l, r)
		if msg != "" {
			return nil, in.err(n, "%s", msg)
		}
		return v, nil
	}
	v, msg, unspec := Compare(n.Op, l, r)
	if unspec != "" {
		in.W.unspec(unspec)
	}
	if msg != "" {
		return nil, in.err(n, "%s", msg)
	}
	return v, nil
}

func (in *Interp) inExpr(n *rt.Node) (Value, *RErr) {
	l, err := in.operand(n.Kids[0])
	if err != nil {
		return nil, err
	}
	r, err := in.operand(n.Kids[1])
	if err != nil {
		return nil, err
	}
	switch x := r.(type) {
	case string:
		ls, ok := l.(string)
		if !ok {
			return nil, in.err(n, "left operand of in must be a string, got %s", TypeName(l))
		}
		return strings.Contains(x, ls), nil
	case *Map:
		ls, ok := l.(string)
		if !ok {
			return nil, in.err(n, "left operand of in must be a string, got %s", TypeName(l))
		}
		_, has := x.M[ls]
		return has, nil
	case *List:
		for _, e := range x.E {
			if MixedNumericEqual(l, e) {
				in.W.unspec("membership across int/float")
			}
			if HasNaN(l) && HasNaN(e) {
				in.W.unspec("membership of NaN")
			}
			if DeepEqual(l, e) {
				return true, nil
			}
		}
		return false, nil
	}
	return nil, in.err(n, "right operand of in must be str, map or list, got %s", TypeName(r))
}

// normIndex turns an integer key into a list position; ok=false if out of range.
func normIndex(k int64, n int) (int, bool) {
	if k < 0 {
		k += int64(n)
	}
	if k < 0 || k >= int64(n) {
		return 0, false
	}
	return int(k), true
}

func (in *Interp) indexGet(n *rt.Node) (Value, *RErr) {
	if n.NoObj {
		return nil, in.err(n, "index expression without object")
	}
	cur, ok := in.Lookup(n.S)
	if !ok {
		return nil, in.err(n, "%s not found", n.S)
	}
	switch cur.(type) {
	case *List, *Map:
	default:
		return nil, in.err(n, "%s is not indexable", TypeName(cur))
	}
	for _, kn := range n.Kids {
		k, err := in.operand(kn)
		if err != nil {
			return nil, err
		}
		switch c := cur.(type) {
		case *Map:
			ks, ok := k.(string)
			if !ok {
				return nil, in.err(kn, "map key must be a string")
			}
			v, has := c.M[ks]
			if !has {
				// pinned: a read through a key that is not there is nil, like the read of that key itself;
				// the index expressions behind it are not evaluated
				return nil, nil
			}
			cur = v
		case *List:
			ki, ok := k.(int64)
			if !ok {
				return nil, in.err(kn, "list index must be an int")
			}
			p, ok := normIndex(ki, len(c.E))
			if !ok {
				return nil, in.err(kn, "list index out of range")
			}
			cur = c.E[p]
		default:
			return nil, in.err(kn, "cannot index %s", TypeName(cur))
		}
	}
	return cur, nil
}

func (in *Interp) indexSet(n *rt.Node, val Value) *RErr {
	if n.NoObj {
		return in.err(n, "index expression without object")
	}
	cur, ok := in.Lookup(n.S)
	if !ok {
		return in.err(n, "%s not found", n.S)
	}
	for i, kn := range n.Kids {
		k, err := in.operand(kn)
		if err != nil {
			return err
		}
		last := i+1 == len(n.Kids)
		switch c := cur.(type) {
		case *Map:
			ks, ok := k.(string)
			if !ok {
				return in.err(kn, "map key must be a string")
			}
			if last {
				if Reaches(val, c) {
					return in.err(kn, "a list or map cannot be stored inside itself")
				}
				c.Set(ks, val)
				return nil
			}
			v, has := c.M[ks]
			if !has {
				return in.err(kn, "key not found")
			}
			cur = v
		case *List:
			ki, ok := k.(int64)
			if !ok {
				return in.err(kn, "list index must be an int")
			}
			p, ok := normIndex(ki, len(c.E))
			if !ok {
				return in.err(kn, "list index out of range")
			}
			if last {
				if Reaches(val, c) {
					return in.err(kn, "a list or map cannot be stored inside itself")
				}
				c.E[p] = val
				return nil
			}
			cur = c.E[p]
		default:
			return in.err(kn, "cannot index %s", TypeName(cur))
		}
	}
	return nil
}

// SliceIndices is Python's slice.indices: the element positions selected by
// (start, end, step) on a sequence of length n. nil bound = omitted.
func SliceIndices(n int, start, end, step *int64) ([]int, bool) {
	st := int64(1)
	if step != nil {
		st = *step
	}
	if st == 0 {
		return nil, false
	}
	ln := int64(n)
	var lo, hi int64
	clamp := func(v *int64, defPos, defNeg int64) int64 {
		if v == nil {
			if st > 0 {
				return defPos
			}
			return defNeg
		}
		x := *v
		if x < 0 {
			// x + ln without overflow
			if x < -ln {
				x = -ln - 1
			} else {
				x += ln
			}
			if x < 0 {
				if st > 0 {
					return 0
				}
				return -1
			}
			return x
		}
		if x >= ln {
			if st > 0 {
				return ln
			}
			return ln - 1
		}
		return x
	}
	lo = clamp(start, 0, ln-1)
	hi = clamp(end, ln, -1)
	var out []int
	if st > 0 {
		for i := lo; i < hi; {
			out = append(out, int(i))
			if st > ln { // avoid overflow
				break
			}
			i += st
		}
	} else {
		for i := lo; i > hi; {
			out = append(out, int(i))
			if -st > ln+1 || st == math.MinInt64 {
				break
			}
			i += st
		}
	}
	return out, true
}

func (in *Interp) slice(n *rt.Node) (Value, *RErr) {
	obj, err := in.operand(n.Kids[0])
	if err != nil {
		return nil, err
	}
	var bounds [3]*int64
	var raw [3]Value
	for i := 1; i <= 3; i++ {
		if n.Kids[i] == nil {
			continue
		}
		v, err := in.operand(n.Kids[i])
		if err != nil {
			return nil, err
		}
		raw[i-1] = v
	}
	var length int
	switch x := obj.(type) {
	case string:
		length = len(x)
	case *List:
		length = len(x.E)
	default:
		return nil, in.err(n.Kids[0], "cannot slice %s", TypeName(obj))
	}
	// the implementation validates step, then start, then end
	for _, i := range []int{2, 0, 1} {
		if n.Kids[i+1] == nil {
			continue
		}
		v := raw[i]
		if v == nil || IsVoid(v) {
			in.W.unspec("slice bound evaluating to nil")
			continue
		}
		iv, ok := v.(int64)
		if !ok {
			return nil, in.err(n.Kids[i+1], "slice bound must be an integer")
		}
		if i == 2 && iv == 0 {
			return nil, in.err(n.Kids[i+1], "slice step must be non-zero")
		}
		iv2 := iv
		bounds[i] = &iv2
	}
	idx, _ := SliceIndices(length, bounds[0], bounds[1], bounds[2])
	switch x := obj.(type) {
	case string:
		ascii := true
		for i := 0; i < len(x); i++ {
			if x[i] >= 0x80 {
				ascii = false
			}
		}
		if !ascii {
			in.W.unspec("slice of a non-ASCII string")
		}
		var b strings.Builder
		for _, i := range idx {
			b.WriteByte(x[i])
		}
		return b.String(), nil
	case *List:
		out := &List{E: make([]Value, 0, len(idx))}
		for _, i := range idx {
			out.E = append(out.E, x.E[i])
		}
		return out, nil
	}
	return nil, nil
}

func (in *Interp) assign(n *rt.Node) (Value, *RErr) {
	if in.W.V2 {
		return in.assignV2(n)
	}
	if n.NL != 1 || len(n.Kids) != 2 {
		return nil, in.err(n, "multiple assignment is not supported")
	}
	lhs, rhs := n.Kids[0], n.Kids[1]
	v, err := in.Eval(rhs)
	if err != nil {
		return nil, err
	}
	switch lhs.K {
	case rt.KIdent:
		if n.Op == "=" {
			if IsVoid(v) {
				in.W.unspec("assigning a construct without value")
			}
			in.SetVar(lhs.S, v)
			return v, nil
		}
		cur, ok := in.Lookup(lhs.S)
		if !ok {
			in.W.unspec("compound assignment to a name that is neither variable nor key")
			return nil, nil
		}
		res, msg := Arith(strings.TrimSuffix(n.Op, "="), cur, v)
		if msg != "" {
			return nil, in.err(n, "%s", msg)
		}
		in.SetVar(lhs.S, res)
		return res, nil
	case rt.KIndex:
		if n.Op == "=" {
			if IsVoid(v) {
				in.W.unspec("assigning a construct without value")
				v = nil
			}
			if e := in.indexSet(lhs, v); e != nil {
				return nil, e
			}
			return v, nil
		}
		if lhs.NoObj {
			return nil, in.err(lhs, "index expression without object")
		}
		if _, ok := in.Lookup(lhs.S); !ok {
			return nil, in.err(lhs, "%s not found", lhs.S)
		}
		cur, e := in.indexGetForUpdate(lhs)
		if e != nil {
			return nil, e
		}
		res, msg := Arith(strings.TrimSuffix(n.Op, "="), cur, v)
		if msg != "" {
			return nil, in.err(n, "%s", msg)
		}
		if e := in.indexSet(lhs, res); e != nil {
			return nil, e
		}
		return res, nil
	}
	in.W.unspec("assignment to a non-assignable expression")
	return Void, nil
}

// indexGetForUpdate reads the current element for a compound index
// assignment. Unlike a plain read, the object may be any value.
func (in *Interp) indexGetForUpdate(n *rt.Node) (Value, *RErr) {
	cur, _ := in.Lookup(n.S)
	for i, kn := range n.Kids {
		k, err := in.operand(kn)
		if err != nil {
			return nil, err
		}
		switch c := cur.(type) {
		case *Map:
			ks, ok := k.(string)
			if !ok {
				return nil, in.err(kn, "map key must be a string")
			}
			v, has := c.M[ks]
			if !has {
				if i+1 < len(n.Kids) {
					in.W.unspec("indexing through a missing map key")
				}
				return nil, nil
			}
			cur = v
		case *List:
			ki, ok := k.(int64)
			if !ok {
				return nil, in.err(kn, "list index must be an int")
			}
			p, ok := normIndex(ki, len(c.E))
			if !ok {
				return nil, in.err(kn, "list index out of range")
			}
			cur = c.E[p]
		default:
			return nil, in.err(kn, "cannot index %s", TypeName(cur))
		}
	}
	return cur, nil
}

// assignV2: `a, b = x, y` evaluates the whole right side before assigning;
// a call may contribute several values.
func (in *Interp) assignV2(n *rt.Node) (Value, *RErr) {
	var vals []Value
	for _, r := range n.Rhs() {
		v, err := in.Eval(r)
		if err != nil {
			return nil, err
		}
		if mv, ok := v.(MultiT); ok {
			if n.NL == 1 {
				return nil, in.err(r, "multiple return values")
			}
			vals = append(vals, mv.V...)
			continue
		}
		if IsVoid(v) {
			return nil, in.err(r, "no value")
		}
		vals = append(vals, v)
	}
	if len(vals) != n.NL {
		return nil, in.err(n, "the number of left and right operands is not equal")
	}
	for i, l := range n.Lhs() {
		v := vals[i]
		if n.Op != "=" {
			if len(vals) != 1 {
				return nil, in.err(n, "compound assignment takes one value")
			}
			cur, err := in.operand(l)
			if err != nil {
				return nil, err
			}
			res, msg := Arith(strings.TrimSuffix(n.Op, "="), cur, v)
			if msg != "" {
				return nil, in.err(n, "%s", msg)
			}
			v = res
		}
		switch l.K {
		case rt.KIdent:
			in.SetVar(l.S, v)
		case rt.KIndex:
			if e := in.indexSet(l, v); e != nil {
				return nil, e
			}
		default:
			return nil, in.err(l, "cannot assign to %v", l.K)
		}
	}
	return Void, nil
}

// MultiT is the result of a v2 call returning several values.
type MultiT struct{ V []Value }
