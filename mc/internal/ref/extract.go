package ref

import (
	"fmt"
	"strings"
	"time"

	"github.com/DataDog/datadog-agent/pkg/obfuscate"
	"github.com/GuanceCloud/grok"
	"github.com/antchfx/xmlquery"
	"github.com/araddon/dateparse"
	"github.com/spf13/cast"

	"verif/mc/internal/rt"
)

// The extraction builtins of C12. The third-party engines (grok, xmlquery,
// dateparse, time, obfuscate) are the trusted base and are called directly;
// what the reference decides is the plumbing around them: which patterns are
// in scope, which key receives which value with which type, what happens on
// failure.

var globalPatterns = grok.CopyDenormalizedDefalutPatterns()

// GrokLoad performs the load-time part of add_pattern / grok over a script:
// patterns are visible in the block that declares them and in nested blocks.
// It returns whether the script is acceptable and the compiled expressions.
// redefined reports that a name was declared twice in one block or shadows a
// built-in pattern (unspecified cells); shadowing an outer block's name is specified.
func GrokLoad(prog []*rt.Node) (ok bool, compiled map[*rt.Node]*grok.GrokRegexp, redefined bool, why string) {
	compiled = map[*rt.Node]*grok.GrokRegexp{}
	ok = true
	var scopes []map[string]*grok.GrokPattern
	storage := func() grok.PatternStorage {
		var st grok.PatternStorage
		for i := len(scopes) - 1; i >= 0; i-- {
			st = append(st, scopes[i])
		}
		st = append(st, globalPatterns)
		return st
	}
	push := func() { scopes = append(scopes, map[string]*grok.GrokPattern{}) }
	pop := func() { scopes = scopes[:len(scopes)-1] }
	var walk func(n *rt.Node)
	block := func(b *rt.Node) {
		push()
		for _, s := range b.Kids {
			walk(s)
		}
		pop()
	}
	walk = func(n *rt.Node) {
		if n == nil || !ok {
			return
		}
		switch n.K {
		case rt.KIf:
			push()
			np := len(n.Kids) / 2
			for i := 0; i < np; i++ {
				walk(n.Kids[2*i])
				block(n.Kids[2*i+1])
			}
			if n.HasElse {
				block(n.Kids[len(n.Kids)-1])
			}
			pop()
			return
		case rt.KFor:
			push()
			walk(n.Kids[0])
			walk(n.Kids[1])
			block(n.Kids[3])
			walk(n.Kids[2])
			pop()
			return
		case rt.KForIn:
			push()
			walk(n.Kids[1])
			block(n.Kids[2])
			pop()
			return
		case rt.KCall:
			for _, a := range n.Kids {
				walk(a)
			}
			switch n.S {
			case "add_pattern":
				if len(n.Kids) != 2 || n.Kids[0].K != rt.KStr || n.Kids[1].K != rt.KStr {
					ok, why = false, "add_pattern expects two string literals"
					return
				}
				st := storage()
				// a second definition in the SAME block is unspecified (which one wins); a definition
				// in a nested block shadows the outer one inside that block only
				if _, exists := scopes[len(scopes)-1][n.Kids[0].S]; exists {
					redefined = true
				}
				if _, exists := globalPatterns[n.Kids[0].S]; exists {
					redefined = true
				}
				p, err := grok.DenormalizePattern(n.Kids[1].S, st)
				if err != nil {
					ok, why = false, err.Error()
					return
				}
				scopes[len(scopes)-1][n.Kids[0].S] = p
			case "grok":
				if len(n.Kids) < 2 || n.Kids[1].K != rt.KStr {
					ok, why = false, "grok expects a string literal pattern"
					return
				}
				re, err := grok.CompilePattern(n.Kids[1].S, storage())
				if err != nil {
					ok, why = false, err.Error()
					return
				}
				compiled[n] = re
			}
			return
		}
		for _, k := range n.Kids {
			walk(k)
		}
	}
	push()
	for _, s := range prog {
		walk(s)
	}
	return ok, compiled, redefined, why
}

// zone labels with a fixed offset (zones without daylight saving time, or
// northern zones tested with winter dates only); label -> seconds east.
var fixedZoneLabels = map[string]int{
	"+0": 0, "+1": 3600, "+2": 7200, "+3": 10800, "+3:30": 12600, "+4": 14400, "+4:30": 16200, "+5": 18000, "+5:30": 19800, "+5:45": 20700,
	"+6": 21600, "+6:30": 23400, "+7": 25200, "+8": 28800, "+8:45": 31500, "+9": 32400, "+9:30": 34200,
	"-1": -3600, "-2": -7200, "-3": -10800, "-3:30": -12600, "-5": -18000, "-6": -21600, "-7": -25200, "-8": -28800, "-9": -32400, "-10": -36000, "-11": -39600,
}

// documented labels whose zone observes daylight saving time in January
// (southern hemisphere) or changed rules recently: not decided here. "UTC" is
// the IANA zone of that name and is decided (time.LoadLocation).
// the same labels with their offsets: decided for southern-winter dates (June..August of 2021 or
// later), when every zone the table maps them to is on its standard offset.
var southernZoneOffsets = map[string]int{"-4": -14400, "+10": 36000, "+10:30": 37800, "+11": 39600, "+12": 43200, "+12:45": 45900, "+13": 46800, "+14": 50400, "-9:30": -34200}

var ambiguousZoneLabels = map[string]bool{"-4": true, "+10": true, "+10:30": true, "+11": true, "+12": true, "+12:45": true, "+13": true, "+14": true, "-9:30": true, "CST": true}

// house layouts tried before the general date parser (pinned by the
// repository's tests)
var houseLayouts = []string{
	"02/Jan/2006:15:04:05 -0700",
	"02 Jan 2006 15:04:05.000",
	"060102 15:04:05",
	"2006/01/02 - 15:04:05",
	"Mon Jan 2 15:04:05.000000 2006",
	"2006-01-02 15:04:05.000 UTC",
}

// refParseTime: nanoseconds since the epoch, or failure.
func (w *World) refParseTime(value, tz string) (int64, bool) {
	loc := time.Local
	if tz != "" {
		southern := false
		if ambiguousZoneLabels[tz] {
			if _, ok := southernZoneOffsets[tz]; ok {
				southern = true // decided below if the date falls into the southern winter
			} else {
				w.unspec("time zone label " + tz)
			}
		}
		if tz[0] == '+' || tz[0] == '-' {
			off, ok := fixedZoneLabels[tz]
			if southern {
				off, ok = southernZoneOffsets[tz], true
			}
			if !ok {
				return 0, false
			}
			loc = time.FixedZone(tz, off)
		} else {
			l, err := time.LoadLocation(tz)
			if err != nil {
				return 0, false
			}
			loc = l
		}
	}
	southernCheck := func(t time.Time) {
		if tz == "-3" && t.Year() < 2020 {
			w.unspec("label -3 (America/Sao_Paulo) before Brazil abolished daylight saving time")
		}
		if tz != "" && ambiguousZoneLabels[tz] {
			if _, ok := southernZoneOffsets[tz]; ok && !(t.Year() >= 2021 && t.Month() >= time.June && t.Month() <= time.August && t.Year() < 2030) {
				w.unspec("time zone label " + tz + " outside the southern winter")
			}
		}
	}
	for _, lay := range houseLayouts {
		if t, err := time.ParseInLocation(lay, value, loc); err == nil && t.UnixNano() > 0 {
			southernCheck(t)
			return t.UnixNano(), true
		}
	}
	// "14 May 19:11:40.164": the year is supplied by the clock
	if t, err := time.ParseInLocation("02 Jan 15:04:05.000 2006", fmt.Sprintf("%s %d", value, time.Now().Year()), loc); err == nil {
		w.unspec("year-less timestamp (depends on the current year)")
		return t.UnixNano(), true
	}
	t, err := dateparse.ParseIn(value, loc)
	if err != nil {
		return 0, false
	}
	southernCheck(t)
	if y := t.Year(); y < 1900 || y > 2261 {
		// outside the int64-nanosecond range the result of UnixNano is undefined, and before
		// standard time a zone label means local mean time in the real tz database
		w.unspec("timestamp before 1900 or after 2261")
	}
	return t.UnixNano(), true
}

var layoutNames = map[string]string{
	"ANSIC": time.ANSIC, "UnixDate": time.UnixDate, "RubyDate": time.RubyDate, "RFC822": time.RFC822, "RFC822Z": time.RFC822Z,
	"RFC850": time.RFC850, "RFC1123": time.RFC1123, "RFC1123Z": time.RFC1123Z, "RFC3339": time.RFC3339, "RFC3339Nano": time.RFC3339Nano,
	"Kitchen": time.Kitchen, "Stamp": time.Stamp, "StampMilli": time.StampMilli, "StampMicro": time.StampMicro, "StampNano": time.StampNano,
}

// FailureNote is the prefix of the note default_time leaves in pl_msg.
const FailureNote = "time convert failed"

// ExtractBuiltins installs grok, add_pattern, xml, datetime, default_time and
// sql_cover. compiled comes from GrokLoad of the same tree.
func ExtractBuiltins(w *World, compiled map[*rt.Node]*grok.GrokRegexp) {
	b := w.Builtins
	b["add_pattern"] = func(in *Interp, c *rt.Node) (Value, *RErr) { return Void, nil }
	b["grok"] = func(in *Interp, c *rt.Node) (Value, *RErr) {
		re := compiled[c]
		if re == nil {
			return nil, in.err(c, "grok expression was not compiled at load time")
		}
		key, _ := KeyArg(c.Kids[0])
		s, ok := in.subjectStr(key)
		if !ok {
			return false, nil
		}
		trim := true
		if len(c.Kids) == 3 {
			trim = c.Kids[2].B
		}
		m, _, err := re.RunWithTypeInfo(s, trim)
		if err != nil {
			return false, nil
		}
		for k, v := range m {
			switch v.(type) {
			case nil, int64, float64, string, bool:
				in.Pt.Set(k, v, in.W)
			}
		}
		return true, nil
	}
	b["xml"] = func(in *Interp, c *rt.Node) (Value, *RErr) {
		key, _ := KeyArg(c.Kids[0])
		dest, _ := KeyArg(c.Kids[2])
		s, ok := in.subjectStr(key)
		if !ok {
			return Void, nil
		}
		doc, err := xmlquery.Parse(strings.NewReader(s))
		if err != nil {
			return Void, nil
		}
		var node *xmlquery.Node
		func() {
			defer func() {
				if r := recover(); r != nil {
					err = fmt.Errorf("xpath engine panicked: %v", r)
				}
			}()
			node, err = xmlquery.Query(doc, c.Kids[1].S)
		}()
		if err != nil || node == nil {
			return Void, nil
		}
		in.Pt.Set(dest, node.InnerText(), in.W)
		return Void, nil
	}
	b["sql_cover"] = func(in *Interp, c *rt.Node) (Value, *RErr) {
		key, _ := KeyArg(c.Kids[0])
		s, ok := in.subjectStr(key)
		if !ok {
			return Void, nil
		}
		oq, err := obfuscate.NewObfuscator(obfuscate.Config{}).ObfuscateSQLString(s)
		if err != nil {
			return Void, nil
		}
		in.Pt.Set(key, oq.Query, in.W)
		return Void, nil
	}
	b["datetime"] = func(in *Interp, c *rt.Node) (Value, *RErr) {
		key, _ := KeyArg(c.Kids[0])
		precision, layout := c.Kids[1].S, c.Kids[2].S
		v, ok := in.Lookup(key)
		if !ok {
			return Void, nil
		}
		switch x := v.(type) {
		case int64, float64:
		case string:
			if _, err := cast.ToInt64E(x); err != nil {
				in.W.unspec("datetime of a non-numeric subject")
			}
		default:
			in.W.unspec("datetime of a non-numeric subject")
		}
		n := cast.ToInt64(ToGo(v))
		var t time.Time
		switch precision {
		case "s":
			t = time.Unix(n, 0)
		case "ms":
			t = time.Unix(0, n*int64(time.Millisecond))
		default:
			in.W.unspec("datetime precision other than s|ms")
		}
		lay, ok := layoutNames[layout]
		if !ok {
			return nil, in.err(c, "unknown datetime format %s", layout)
		}
		in.Pt.Set(key, t.Format(lay), in.W)
		return Void, nil
	}
	b["default_time"] = func(in *Interp, c *rt.Node) (Value, *RErr) {
		key, _ := KeyArg(c.Kids[0])
		s, ok := in.subjectStr(key)
		if !ok {
			return Void, nil
		}
		tz := ""
		if len(c.Kids) > 1 {
			tz = c.Kids[1].S
		}
		ns, ok := in.W.refParseTime(s, tz)
		if !ok {
			in.Pt.Set("pl_msg", FailureNote, in.W)
			return Void, nil
		}
		in.Pt.Delete(key)
		in.Pt.Time = ns
		return Void, nil
	}
}
