// Package ref is the reference model (engine E2 of DESIGN.md): a deliberately
// boring interpreter of the platypus language over the reference tree. It
// knows nothing of pkg/ast, registers, pools or the point's key index.
package ref

import (
	"encoding/json"
	"math"
	"sort"
	"strconv"
	"strings"
)

// Value is nil | bool | int64 | float64 | string | *List | *Map | Void.
type Value interface{}

// VoidT is the "no value" of calls that return nothing and of attribute
// expressions.
type VoidT struct{}

var Void = VoidT{}

type List struct{ E []Value }

type Map struct {
	M    map[string]Value
	Keys []string // insertion order (deterministic iteration for the model)
}

func NewMap() *Map { return &Map{M: map[string]Value{}} }

func (m *Map) Set(k string, v Value) {
	if _, ok := m.M[k]; !ok {
		m.Keys = append(m.Keys, k)
	}
	m.M[k] = v
}

func IsVoid(v Value) bool { _, ok := v.(VoidT); return ok }

// TypeName: nil bool int float str list map void
func TypeName(v Value) string {
	switch v.(type) {
	case nil:
		return "nil"
	case bool:
		return "bool"
	case int64:
		return "int"
	case float64:
		return "float"
	case string:
		return "str"
	case *List:
		return "list"
	case *Map:
		return "map"
	case VoidT:
		return "void"
	}
	return "?"
}

// Canon renders a reference value in exactly the format drv.Canon uses for
// real values. Void renders as nil (the distinction is not observable through
// the language).
func Canon(v Value) string {
	var b strings.Builder
	canon(&b, v)
	return b.String()
}

func CanonFloat(f float64) string {
	switch {
	case math.IsNaN(f):
		return "f:NaN"
	case f == 0 && math.Signbit(f):
		return "f:-0"
	}
	return "f:" + strconv.FormatFloat(f, 'g', -1, 64)
}

func canon(b *strings.Builder, v Value) {
	switch x := v.(type) {
	case nil, VoidT:
		b.WriteString("nil")
	case bool:
		if x {
			b.WriteString("b:true")
		} else {
			b.WriteString("b:false")
		}
	case int64:
		b.WriteString("i:")
		b.WriteString(strconv.FormatInt(x, 10))
	case float64:
		b.WriteString(CanonFloat(x))
	case string:
		b.WriteString("s:")
		b.WriteString(strconv.Quote(x))
	case *List:
		b.WriteByte('[')
		for i, e := range x.E {
			if i > 0 {
				b.WriteByte(',')
			}
			canon(b, e)
		}
		b.WriteByte(']')
	case *Map:
		keys := make([]string, 0, len(x.M))
		for k := range x.M {
			keys = append(keys, k)
		}
		sort.Strings(keys)
		b.WriteByte('{')
		for i, k := range keys {
			if i > 0 {
				b.WriteByte(',')
			}
			b.WriteString(strconv.Quote(k))
			b.WriteByte(':')
			canon(b, x.M[k])
		}
		b.WriteByte('}')
	default:
		b.WriteString("?")
	}
}

// ToGo converts a reference value into plain Go data for encoding/json.
func ToGo(v Value) any {
	switch x := v.(type) {
	case *List:
		out := make([]any, len(x.E))
		for i, e := range x.E {
			out[i] = ToGo(e)
		}
		return out
	case *Map:
		out := make(map[string]any, len(x.M))
		for k, e := range x.M {
			out[k] = ToGo(e)
		}
		return out
	case VoidT:
		return nil
	}
	return v
}

// FromGo converts decoded JSON into reference values (numbers are float64,
// as encoding/json delivers them).
func FromGo(v any) Value {
	switch x := v.(type) {
	case []any:
		l := &List{E: make([]Value, len(x))}
		for i, e := range x {
			l.E[i] = FromGo(e)
		}
		return l
	case map[string]any:
		m := NewMap()
		keys := make([]string, 0, len(x))
		for k := range x {
			keys = append(keys, k)
		}
		sort.Strings(keys)
		for _, k := range keys {
			m.Set(k, FromGo(x[k]))
		}
		return m
	}
	return v
}

// StrForm is the "string form" builtins apply their engines to: numbers and
// booleans as their decimal/literal text, collections as JSON text, nil as
// the empty string. ok=false for void.
func StrForm(v Value) (string, bool) {
	switch x := v.(type) {
	case nil:
		return "", true
	case bool:
		return strconv.FormatBool(x), true
	case int64:
		return strconv.FormatInt(x, 10), true
	case float64:
		return strconv.FormatFloat(x, 'f', -1, 64), true
	case string:
		return x, true
	case *List, *Map:
		raw, err := json.Marshal(ToGo(v))
		if err != nil {
			return "", false
		}
		return string(raw), true
	}
	return "", false
}

// Truthy is the documented truthiness table.
func Truthy(v Value) bool {
	switch x := v.(type) {
	case bool:
		return x
	case int64:
		return x != 0
	case float64:
		return x != 0
	case string:
		return x != ""
	case *List:
		return len(x.E) > 0
	case *Map:
		return len(x.M) > 0
	}
	return false
}

// DeepEqual is structural equality with exact types (int64(1) != float64(1)).
func DeepEqual(a, b Value) bool {
	if IsVoid(a) {
		a = nil
	}
	if IsVoid(b) {
		b = nil
	}
	switch x := a.(type) {
	case nil:
		return b == nil
	case bool:
		y, ok := b.(bool)
		return ok && x == y
	case int64:
		y, ok := b.(int64)
		return ok && x == y
	case float64:
		y, ok := b.(float64)
		return ok && x == y // NaN != NaN, as reflect.DeepEqual
	case string:
		y, ok := b.(string)
		return ok && x == y
	case *List:
		y, ok := b.(*List)
		if !ok || len(x.E) != len(y.E) {
			return false
		}
		if x == y {
			// reflect.DeepEqual short-circuits on identical backing arrays
			return true
		}
		for i := range x.E {
			if !DeepEqual(x.E[i], y.E[i]) {
				return false
			}
		}
		return true
	case *Map:
		y, ok := b.(*Map)
		if !ok || len(x.M) != len(y.M) {
			return false
		}
		if x == y {
			return true
		}
		for k, v := range x.M {
			w, ok := y.M[k]
			if !ok || !DeepEqual(v, w) {
				return false
			}
		}
		return true
	}
	return false
}

// HasNaN reports whether a value contains a NaN float (identity-sensitive
// equality makes such comparisons unspecified).
func HasNaN(v Value) bool {
	switch x := v.(type) {
	case float64:
		return math.IsNaN(x)
	case *List:
		for _, e := range x.E {
			if HasNaN(e) {
				return true
			}
		}
	case *Map:
		for _, e := range x.M {
			if HasNaN(e) {
				return true
			}
		}
	}
	return false
}

// MixedNumericEqual reports whether a and b are "equal as numbers but of
// different numeric types" anywhere element-wise (an unspecified cell, §5).
func MixedNumericEqual(a, b Value) bool {
	na, oka := num(a)
	nb, okb := num(b)
	if oka && okb {
		return TypeName(a) != TypeName(b) && na == nb
	}
	la, ok1 := a.(*List)
	lb, ok2 := b.(*List)
	if ok1 && ok2 && len(la.E) == len(lb.E) {
		for i := range la.E {
			if MixedNumericEqual(la.E[i], lb.E[i]) {
				return true
			}
		}
	}
	ma, ok1 := a.(*Map)
	mb, ok2 := b.(*Map)
	if ok1 && ok2 {
		for k, v := range ma.M {
			if w, ok := mb.M[k]; ok && MixedNumericEqual(v, w) {
				return true
			}
		}
	}
	return false
}

func num(v Value) (float64, bool) {
	switch x := v.(type) {
	case int64:
		return float64(x), true
	case float64:
		return x, true
	case bool:
		if x {
			return 1, true
		}
		return 0, true
	}
	return 0, false
}

// Reaches reports whether the container target is v itself or reachable from v
// (storing v into target would then create a cyclic value).
func Reaches(v Value, target Value) bool {
	seen := map[Value]bool{}
	var walk func(x Value) bool
	walk = func(x Value) bool {
		switch c := x.(type) {
		case *List:
			if Value(c) == target {
				return true
			}
			if seen[c] {
				return false
			}
			seen[c] = true
			for _, e := range c.E {
				if walk(e) {
					return true
				}
			}
		case *Map:
			if Value(c) == target {
				return true
			}
			if seen[c] {
				return false
			}
			seen[c] = true
			for _, e := range c.M {
				if walk(e) {
					return true
				}
			}
		}
		return false
	}
	return walk(v)
}
