package ref

import (
	"encoding/json"
	"fmt"
	"net/url"
	"regexp"
	"strings"

	"github.com/spf13/cast"

	"verif/mc/internal/rt"
)

// KeyArg extracts the key name from a key-like argument (identifier,
// back-quoted identifier, attribute expression, string literal).
func KeyArg(n *rt.Node) (string, bool) {
	switch n.K {
	case rt.KIdent:
		return n.S, true
	case rt.KStr:
		return n.S, true
	case rt.KAttr:
		return AttrText(n), true
	}
	return "", false
}

// AttrText is the textual form of an attribute expression used as a key.
func AttrText(n *rt.Node) string {
	switch n.K {
	case rt.KIdent:
		return n.S
	case rt.KAttr:
		return AttrText(n.Kids[0]) + "." + AttrText(n.Kids[1])
	case rt.KIndex:
		s := n.S
		for _, k := range n.Kids {
			s += "[" + litText(k) + "]"
		}
		return s
	}
	return rt.PrintExpr(n)
}

func litText(n *rt.Node) string {
	switch n.K {
	case rt.KInt:
		return fmt.Sprintf("%d", n.I)
	case rt.KStr:
		return "'" + n.S + "'"
	case rt.KIdent:
		return n.S
	}
	return rt.PrintExpr(n)
}

// subjectStr: the subject's string form, variable first then point.
func (in *Interp) subjectStr(key string) (string, bool) {
	v, ok := in.Lookup(key)
	if !ok {
		return "", false
	}
	s, ok := StrForm(v)
	return s, ok
}

// ProbeBuiltin is `p(args...)`: records the evaluated arguments in the trace
// and returns the last one.
func ProbeBuiltin(in *Interp, c *rt.Node) (Value, *RErr) {
	var parts []string
	var last Value = Void
	for _, a := range c.Kids {
		v, err := in.Eval(a)
		if err != nil {
			return nil, err
		}
		parts = append(parts, Canon(v))
		last = v
	}
	in.W.Trace = append(in.W.Trace, "p("+strings.Join(parts, ",")+")")
	return last, nil
}

// StdBuiltins installs the reference builtins of C11/C13 into a world.
func StdBuiltins(w *World) {
	b := w.Builtins
	b["p"] = ProbeBuiltin
	b["exit"] = func(in *Interp, c *rt.Node) (Value, *RErr) {
		in.exited = true
		return Void, nil
	}
	b["use"] = func(in *Interp, c *rt.Node) (Value, *RErr) {
		if len(c.Kids) != 1 || c.Kids[0].K != rt.KStr {
			return nil, in.err(c, "use expects one string literal")
		}
		name := c.Kids[0].S
		prog, ok := in.W.Scripts[name]
		if !ok {
			return Void, nil
		}
		sub := &Interp{Name: name, Pt: in.Pt, W: in.W}
		sub.push()
		_, err := sub.stmts(prog)
		if err != nil {
			err.Chain = append(err.Chain, in.Name)
			err.Sites = append(err.Sites, c)
			return nil, err
		}
		return Void, nil
	}
	b["add_key"] = func(in *Interp, c *rt.Node) (Value, *RErr) {
		key, _ := KeyArg(c.Kids[0])
		if len(c.Kids) == 1 {
			v, ok := in.Lookup(key)
			if !ok {
				return Void, nil
			}
			in.Pt.Set(key, v, in.W)
			return Void, nil
		}
		v, err := in.Eval(c.Kids[1])
		if err != nil {
			err.Chain = append(err.Chain, in.Name)
			err.Sites = append(err.Sites, c)
			return nil, err
		}
		in.Pt.Set(key, v, in.W)
		return Void, nil
	}
	b["get_key"] = func(in *Interp, c *rt.Node) (Value, *RErr) {
		key, _ := KeyArg(c.Kids[0])
		v, _ := in.Pt.Get(keyName(key))
		return v, nil
	}
	b["set_tag"] = func(in *Interp, c *rt.Node) (Value, *RErr) {
		key, _ := KeyArg(c.Kids[0])
		if len(c.Kids) == 2 {
			v, err := in.Eval(c.Kids[1])
			if err != nil {
				return nil, err
			}
			in.Pt.SetTag(key, v, in.W)
			return Void, nil
		}
		v, ok := in.Lookup(key)
		if !ok {
			in.Pt.SetTag(key, "", in.W)
			return Void, nil
		}
		in.Pt.SetTag(key, v, in.W)
		return Void, nil
	}
	b["drop_key"] = func(in *Interp, c *rt.Node) (Value, *RErr) {
		key, _ := KeyArg(c.Kids[0])
		in.Pt.Delete(key)
		return Void, nil
	}
	b["rename"] = func(in *Interp, c *rt.Node) (Value, *RErr) {
		to, _ := KeyArg(c.Kids[0])
		from, _ := KeyArg(c.Kids[1])
		in.Pt.Rename(to, from, in.W)
		return Void, nil
	}
	b["cast"] = func(in *Interp, c *rt.Node) (Value, *RErr) {
		key, _ := KeyArg(c.Kids[0])
		typ := c.Kids[1].S
		v, ok := in.Lookup(key)
		if !ok {
			return Void, nil
		}
		switch v.(type) {
		case *List, *Map, VoidT:
			in.W.unspec("cast of a collection")
		}
		g := ToGo(v)
		var res Value
		switch strings.ToLower(typ) {
		case "bool":
			if s, ok := v.(string); ok {
				// only the spellings strconv.ParseBool knows are specified
				switch s {
				case "1", "t", "T", "TRUE", "true", "True", "0", "f", "F", "FALSE", "false", "False":
				default:
					in.W.unspec("cast to bool of a non-boolean string")
				}
			}
			res = cast.ToBool(g)
		case "int":
			res = cast.ToInt64(cast.ToFloat64(g))
			if s, ok := v.(string); ok {
				if _, err := cast.ToFloat64E(s); err != nil {
					in.W.unspec("cast to int of a non-numeric string")
				}
			}
			if f, ok := v.(float64); ok && (f != f || f > 9e18 || f < -9e18) {
				in.W.unspec("cast to int of an out-of-range float")
			}
			if i, ok := v.(int64); ok && (i > 1<<53 || i < -(1<<53)) {
				in.W.unspec("cast to int of an integer beyond 2^53")
			}
		case "float":
			res = cast.ToFloat64(g)
			if s, ok := v.(string); ok {
				if _, err := cast.ToFloat64E(s); err != nil {
					in.W.unspec("cast to float of a non-numeric string")
				}
			}
		case "str":
			res = cast.ToString(g)
		default:
			in.W.unspec("cast to " + typ)
			res = nil
		}
		in.Pt.Set(key, res, in.W)
		return Void, nil
	}
	b["set_measurement"] = func(in *Interp, c *rt.Node) (Value, *RErr) {
		v, err := in.Eval(c.Kids[0])
		if err != nil {
			return Void, nil
		}
		if s, ok := v.(string); ok {
			in.Pt.Meas = s
		}
		if len(c.Kids) == 2 && c.Kids[1].K == rt.KBool && c.Kids[1].B {
			switch c.Kids[0].K {
			case rt.KIdent, rt.KAttr:
				key, _ := KeyArg(c.Kids[0])
				in.Pt.Delete(key)
			}
		}
		return Void, nil
	}
	b["len"] = func(in *Interp, c *rt.Node) (Value, *RErr) {
		v, err := in.Eval(c.Kids[0])
		if err != nil {
			return nil, err
		}
		switch x := v.(type) {
		case string:
			return int64(len(x)), nil
		case *List:
			return int64(len(x.E)), nil
		case *Map:
			return int64(len(x.M)), nil
		}
		return int64(0), nil
	}
	b["load_json"] = func(in *Interp, c *rt.Node) (Value, *RErr) {
		v, err := in.Eval(c.Kids[0])
		if err != nil {
			return nil, err
		}
		s, ok := v.(string)
		if !ok {
			return nil, in.err(c.Kids[0], "load_json expects a string")
		}
		var m any
		if e := json.Unmarshal([]byte(s), &m); e != nil {
			return nil, in.err(c.Kids[0], "invalid JSON: %v", e)
		}
		return FromGo(m), nil
	}
	b["strfmt"] = func(in *Interp, c *rt.Node) (Value, *RErr) {
		key, _ := KeyArg(c.Kids[0])
		f := c.Kids[1].S
		var args []any
		for _, a := range c.Kids[2:] {
			v, err := in.Eval(a)
			if err != nil {
				in.W.unspec("strfmt argument raising an error")
				v = nil
			}
			args = append(args, ToGo(v))
		}
		in.Pt.Set(key, fmt.Sprintf(f, args...), in.W)
		return Void, nil
	}
	b["printf"] = func(in *Interp, c *rt.Node) (Value, *RErr) {
		fv, err := in.Eval(c.Kids[0])
		if err != nil {
			return Void, nil
		}
		f, ok := fv.(string)
		if !ok || f == "" {
			return Void, nil
		}
		var args []any
		for _, a := range c.Kids[1:] {
			v, err := in.Eval(a)
			if err != nil {
				return nil, err
			}
			args = append(args, ToGo(v))
		}
		fmt.Fprintf(&in.W.Stdout, f, args...)
		return Void, nil
	}
	strOp := func(f func(in *Interp, c *rt.Node, s string) (string, *RErr), pre func(in *Interp, c *rt.Node) *RErr) Builtin {
		return func(in *Interp, c *rt.Node) (Value, *RErr) {
			key, _ := KeyArg(c.Kids[0])
			if pre != nil {
				if e := pre(in, c); e != nil {
					return nil, e
				}
			}
			s, ok := in.subjectStr(key)
			if !ok {
				return Void, nil
			}
			r, e := f(in, c, s)
			if e != nil {
				return nil, e
			}
			in.Pt.Set(key, r, in.W)
			return Void, nil
		}
	}
	b["trim"] = strOp(func(in *Interp, c *rt.Node, s string) (string, *RErr) {
		cut := ""
		if len(c.Kids) == 2 {
			cut = c.Kids[1].S
		}
		if cut == "" {
			return strings.TrimSpace(s), nil
		}
		return strings.Trim(s, cut), nil
	}, nil)
	b["uppercase"] = strOp(func(in *Interp, c *rt.Node, s string) (string, *RErr) {
		return strings.ToUpper(s), nil
	}, nil)
	b["replace"] = strOp(func(in *Interp, c *rt.Node, s string) (string, *RErr) {
		re := regexp.MustCompile(c.Kids[1].S)
		return re.ReplaceAllString(s, c.Kids[2].S), nil
	}, func(in *Interp, c *rt.Node) *RErr {
		if _, err := regexp.Compile(c.Kids[1].S); err != nil {
			return in.err(c.Kids[1], "bad regular expression: %v", err)
		}
		return nil
	})
	b["url_decode"] = strOp(func(in *Interp, c *rt.Node, s string) (string, *RErr) {
		r, err := url.QueryUnescape(s)
		if err != nil {
			return "", in.err(c, "url decode: %v", err)
		}
		return r, nil
	}, nil)
}

// V2Builtins installs the reference versions of the v2 probe functions
// (see drv.V2Fns): p, void, one, two, id.
func V2Builtins(w *World) {
	b := w.Builtins
	argVal := func(in *Interp, a *rt.Node) (Value, *RErr) {
		if a.K == rt.KNamed {
			return in.operand(a.Kids[0])
		}
		return in.operand(a)
	}
	b["p"] = func(in *Interp, c *rt.Node) (Value, *RErr) {
		var parts []string
		var last Value = Void
		for _, a := range c.Kids {
			v, err := argVal(in, a)
			if err != nil {
				return nil, err
			}
			parts = append(parts, Canon(v))
			last = v
		}
		in.W.Trace = append(in.W.Trace, "p("+strings.Join(parts, ",")+")")
		return last, nil
	}
	b["void"] = func(in *Interp, c *rt.Node) (Value, *RErr) {
		for _, a := range c.Kids {
			if _, err := argVal(in, a); err != nil {
				return nil, err
			}
		}
		in.W.Trace = append(in.W.Trace, "void")
		return Void, nil
	}
	b["one"] = func(in *Interp, c *rt.Node) (Value, *RErr) { return int64(1), nil }
	b["two"] = func(in *Interp, c *rt.Node) (Value, *RErr) { return MultiT{V: []Value{int64(1), int64(2)}}, nil }
	b["id"] = func(in *Interp, c *rt.Node) (Value, *RErr) { return argVal(in, c.Kids[0]) }
}
