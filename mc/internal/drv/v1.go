package drv

import (
	"io"
	"os"
	"sync"
	"fmt"
	"runtime/debug"
	"sort"
	"strconv"
	"strings"
	"time"

	"github.com/GuanceCloud/platypus/pkg/ast"
	"github.com/GuanceCloud/platypus/pkg/engine"
	plrt "github.com/GuanceCloud/platypus/pkg/engine/runtime"
	"github.com/GuanceCloud/platypus/pkg/errchain"
	"github.com/GuanceCloud/platypus/pkg/inimpl/guancecloud/funcs"
	"github.com/GuanceCloud/platypus/pkg/inimpl/guancecloud/input"
)

// Trace is the ordered record of probe calls of one run.
type Trace struct {
	Recs []string
}

// cur is the trace of the run in progress (workers run one script at a time).
var cur *Trace

// CanonDT renders a (value, dtype) pair as the interpreter hands it around;
// an inconsistency between the dynamic type tag and the Go type is visible.
func CanonDT(v any, dt ast.DType) string {
	ok := false
	switch dt {
	case ast.Void, ast.Nil:
		ok = v == nil
	case ast.Bool:
		_, ok = v.(bool)
	case ast.Int:
		_, ok = v.(int64)
	case ast.Float:
		_, ok = v.(float64)
	case ast.String:
		_, ok = v.(string)
	case ast.List:
		_, ok = v.([]any)
	case ast.Map:
		_, ok = v.(map[string]any)
	}
	if !ok {
		return fmt.Sprintf("MISMATCH<dtype=%s,go=%T>:%s", dt, v, Canon(v))
	}
	return Canon(v)
}

// traces maps an input point to the trace of the run using it (concurrent
// runs on distinct points each get their own trace).
var traces sync.Map

func traceOf(ctx *plrt.Task) *Trace {
	if in := ctx.InData(); in != nil {
		if t, ok := traces.Load(in); ok {
			return t.(*Trace)
		}
	}
	return cur
}

func probeCall(ctx *plrt.Task, e *ast.CallExpr) *errchain.PlError {
	var parts []string
	var last any
	var lastT ast.DType = ast.Void
	for _, a := range e.Param {
		v, dt, err := plrt.RunStmt(ctx, a)
		if err != nil {
			return err
		}
		parts = append(parts, CanonDT(v, dt))
		last, lastT = v, dt
	}
	if tr := traceOf(ctx); tr != nil {
		tr.Recs = append(tr.Recs, "p("+strings.Join(parts, ",")+")")
	}
	if len(e.Param) > 0 {
		ctx.Regs.ReturnAppend(last, lastT)
	}
	return nil
}

// RunConcurrent is Run for use from several goroutines at once: the trace is
// attached to the point instead of the package-level current trace.
func RunConcurrent(s *plrt.Script, pt *input.Point, sig *Sig) (res Result) {
	tr := &Trace{}
	traces.Store(any(pt), tr)
	defer func() {
		traces.Delete(any(pt))
		if r := recover(); r != nil {
			res.Panic = fmt.Sprint(r)
			res.Stack = string(debug.Stack())
		}
		res.Trace = tr.Recs
		res.Point = CanonPoint(pt)
	}()
	var sg plrt.Signal
	if sig != nil {
		sg = sig
	}
	res.Err = s.Run(pt, sg)
	return res
}

func probeCheck(ctx *plrt.Task, e *ast.CallExpr) *errchain.PlError { return nil }

// Tables returns fresh copies of the builtin tables with the probe `p` added.
func Tables() (map[string]plrt.FuncCall, map[string]plrt.FuncCheck) {
	call := map[string]plrt.FuncCall{}
	check := map[string]plrt.FuncCheck{}
	for k, v := range funcs.FuncsMap {
		call[k] = v
	}
	for k, v := range funcs.FuncsCheckMap {
		check[k] = v
	}
	call["p"] = probeCall
	check["p"] = probeCheck
	return call, check
}

var stdCall, stdCheck = Tables()

// LoadPanic is the error reported for a script set whose load panicked.
type LoadPanic struct {
	Msg, Stack string
}

func (e *LoadPanic) Error() string { return "LOAD PANIC: " + e.Msg }

// Load loads a script set with the standard tables (+ probe). A panic inside
// the loader is recovered and reported as a *LoadPanic for every script.
func Load(scripts map[string]string) (ok map[string]*plrt.Script, errs map[string]error) {
	return LoadWith(scripts, stdCall, stdCheck)
}

func LoadWith(scripts map[string]string, call map[string]plrt.FuncCall, check map[string]plrt.FuncCheck) (ok map[string]*plrt.Script, errs map[string]error) {
	defer func() {
		if r := recover(); r != nil {
			lp := &LoadPanic{Msg: fmt.Sprint(r), Stack: string(debug.Stack())}
			ok = map[string]*plrt.Script{}
			errs = map[string]error{}
			for name := range scripts {
				errs[name] = lp
			}
		}
	}()
	return engine.ParseScript(scripts, call, check)
}

// Load1 loads a single script named name.
func Load1(name, src string) (*plrt.Script, error) {
	ok, errs := Load(map[string]string{name: src})
	if e, bad := errs[name]; bad {
		return nil, e
	}
	return ok[name], nil
}

// Sig is a cancellation signal that fires at poll number FireAt (1-based);
// FireAt == 0 never fires. OnPoll, if set, is called at every poll.
type Sig struct {
	N      int
	FireAt int
	OnPoll func(n int)
}

func (s *Sig) ExitSignal() bool {
	s.N++
	if s.OnPoll != nil {
		s.OnPoll(s.N)
	}
	return s.FireAt > 0 && s.N >= s.FireAt
}

// PointSpec describes an input point.
type PointSpec struct {
	Meas   string
	Tags   map[string]string
	Fields map[string]any
	Time   int64
}

func (ps PointSpec) Build() *input.Point {
	pt := &input.Point{}
	// the object has carried another record before (a host that re-initialises its points): every key of
	// this record was a string field then. What InitPt makes of (measurement, tags, fields, time) is all
	// that counts.
	if len(ps.Tags)+len(ps.Fields) > 0 {
		prev := map[string]any{"previous_only": int64(1)}
		for k := range ps.Tags {
			prev[k] = "previous record"
		}
		for k := range ps.Fields {
			prev[k] = "previous record"
		}
		input.InitPt(pt, "previous", map[string]string{"previous_tag": "x"}, prev, time.Unix(0, 1))
		pt.Drop = true
	}
	tags := map[string]string{}
	for k, v := range ps.Tags {
		tags[k] = v
	}
	fields := map[string]any{}
	for k, v := range ps.Fields {
		fields[k] = v
	}
	input.InitPt(pt, ps.Meas, tags, fields, time.Unix(0, ps.Time))
	return pt
}

// CanonPoint renders the output of a point: measurement, tags, fields, time.
func CanonPoint(pt *input.Point) string {
	var tags, fields []string
	for k, v := range pt.Tags {
		tags = append(tags, strconv.Quote(k)+"="+strconv.Quote(v))
	}
	for k, v := range pt.Fields {
		fields = append(fields, strconv.Quote(k)+"="+Canon(v))
	}
	sort.Strings(tags)
	sort.Strings(fields)
	return "M=" + strconv.Quote(pt.Measurement) + ";T={" + strings.Join(tags, ",") + "};F={" + strings.Join(fields, ",") + "};t=" + strconv.FormatInt(pt.Time.UnixNano(), 10)
}

// Result of one real run.
type Result struct {
	Trace    []string
	Point    string
	Err      *errchain.PlError
	Panic    string // non-empty if the run panicked
	Stack    string
	Polls    int
	Stdout   string
	Canceled bool
}

// Run executes a loaded script on a point under a signal, recovering panics.
func Run(s *plrt.Script, pt *input.Point, sig *Sig) (res Result) {
	tr := &Trace{}
	prev := cur
	cur = tr
	defer func() {
		cur = prev
		if r := recover(); r != nil {
			res.Panic = fmt.Sprint(r)
			res.Stack = string(debug.Stack())
		}
		res.Trace = tr.Recs
		if pt != nil {
			res.Point = CanonPoint(pt)
		}
		if sig != nil {
			res.Polls = sig.N
		}
	}()
	var sg plrt.Signal
	if sig != nil {
		sg = sig
	}
	res.Err = s.Run(pt, sg)
	return res
}

// CurTraceLen is the number of probe records of the run in progress.
func CurTraceLen() int {
	if cur == nil {
		return 0
	}
	return len(cur.Recs)
}

// RunCapture is Run with standard output captured (printf writes there).
func RunCapture(s *plrt.Script, pt *input.Point, sig *Sig) Result {
	r, w, err := os.Pipe()
	if err != nil {
		return Run(s, pt, sig)
	}
	old := os.Stdout
	os.Stdout = w
	outc := make(chan string, 1)
	go func() {
		b, _ := io.ReadAll(r)
		outc <- string(b)
	}()
	res := Run(s, pt, sig)
	os.Stdout = old
	_ = w.Close()
	res.Stdout = <-outc
	_ = r.Close()
	return res
}
