// Package drv drives the real platypus code: loading, running with a probe
// builtin, canonical rendering of values and points.
package drv

import (
	"github.com/GuanceCloud/platypus/pkg/inimpl/guancecloud/funcs"
	"github.com/GuanceCloud/platypus/pkg/parser"
	"go.uber.org/zap"
)

// Quiet silences the repository's debug loggers (they write to stdout).
func Quiet() {
	nop := zap.NewNop().Sugar()
	funcs.InitLog(nop)
	parser.InitLog(nop)
}

func init() { Quiet() }
