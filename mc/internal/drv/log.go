// Package drv drives the real platypus code: loading, running with a probe
// builtin, canonical rendering of values and points.
package drv

import (
	"os"

	"github.com/GuanceCloud/platypus/pkg/inimpl/guancecloud/funcs"
	"github.com/GuanceCloud/platypus/pkg/parser"
	"go.uber.org/zap"
)

// Quiet silences the repository's debug loggers (they write to stdout).
func Quiet() {
	nop := zap.NewNop().Sugar()
	funcs.InitLog(nop)
	parser.InitLog(nop)
}

func init() { Quiet() }

// SilenceStdout points os.Stdout at /dev/null (printf() and stray debug
// output of the code under test would otherwise flood the worker's output).
func SilenceStdout() {
	if f, err := os.OpenFile(os.DevNull, os.O_WRONLY, 0); err == nil {
		os.Stdout = f
	}
}

// RealStdout is the process's original standard output (SilenceStdoutKeep
// redirects os.Stdout but keeps this one for results).
var RealStdout = os.Stdout

// SilenceStdoutKeep silences os.Stdout like SilenceStdout; RealStdout stays usable.
func SilenceStdoutKeep() {
	RealStdout = os.Stdout
	SilenceStdout()
}
