// Package drv drives the real platypus code: loading, running with a probe
// builtin, canonical rendering of values and points.
package drv

import (
	"io"
	"os"

	"github.com/GuanceCloud/platypus/pkg/inimpl/guancecloud/funcs"
	"github.com/GuanceCloud/platypus/pkg/parser"
	"go.uber.org/zap"
	"go.uber.org/zap/zapcore"
)

// Quiet silences the repository's debug loggers (they write to stdout).
func Quiet() {
	nop := zap.NewNop().Sugar()
	funcs.InitLog(nop)
	parser.InitLog(nop)
}

func init() { Quiet() }

// Verbose installs loggers that are enabled at debug level and format every message (into the void): what a
// host running with debug logging exercises. Quiet() restores the silent ones.
func Verbose() {
	enc := zapcore.NewConsoleEncoder(zap.NewDevelopmentEncoderConfig())
	l := zap.New(zapcore.NewCore(enc, zapcore.AddSync(io.Discard), zap.DebugLevel)).Sugar()
	funcs.InitLog(l)
	parser.InitLog(l)
}

// SilenceStdout points os.Stdout at /dev/null (printf() and stray debug
// output of the code under test would otherwise flood the worker's output).
func SilenceStdout() {
	if f, err := os.OpenFile(os.DevNull, os.O_WRONLY, 0); err == nil {
		os.Stdout = f
	}
}

// RealStdout is the process's original standard output (SilenceStdoutKeep
// redirects os.Stdout but keeps this one for results).
var RealStdout = os.Stdout

// SilenceStdoutKeep silences os.Stdout like SilenceStdout; RealStdout stays usable.
func SilenceStdoutKeep() {
	RealStdout = os.Stdout
	SilenceStdout()
}
