package drv

import (
	"fmt"
	"math"
	"sort"
	"strconv"
	"strings"
)

// Canon renders a run-time value of the real interpreter canonically and
// with its Go type visible, so that int vs int64 or int vs float differ.
func Canon(v any) string {
	var b strings.Builder
	canon(&b, v, 0)
	return b.String()
}

func CanonFloat(f float64) string {
	switch {
	case math.IsNaN(f):
		return "f:NaN"
	case f == 0 && math.Signbit(f):
		return "f:-0"
	}
	return "f:" + strconv.FormatFloat(f, 'g', -1, 64)
}

func canon(b *strings.Builder, v any, depth int) {
	if depth > 40 {
		b.WriteString("<deep>")
		return
	}
	switch x := v.(type) {
	case nil:
		b.WriteString("nil")
	case bool:
		if x {
			b.WriteString("b:true")
		} else {
			b.WriteString("b:false")
		}
	case int64:
		b.WriteString("i:")
		b.WriteString(strconv.FormatInt(x, 10))
	case float64:
		b.WriteString(CanonFloat(x))
	case string:
		b.WriteString("s:")
		b.WriteString(strconv.Quote(x))
	case []any:
		b.WriteByte('[')
		for i, e := range x {
			if i > 0 {
				b.WriteByte(',')
			}
			canon(b, e, depth+1)
		}
		b.WriteByte(']')
	case map[string]any:
		keys := make([]string, 0, len(x))
		for k := range x {
			keys = append(keys, k)
		}
		sort.Strings(keys)
		b.WriteByte('{')
		for i, k := range keys {
			if i > 0 {
				b.WriteByte(',')
			}
			b.WriteString(strconv.Quote(k))
			b.WriteByte(':')
			canon(b, x[k], depth+1)
		}
		b.WriteByte('}')
	default:
		fmt.Fprintf(b, "GO<%T>:%v", v, v)
	}
}
