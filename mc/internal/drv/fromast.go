package drv

import (
	"fmt"

	"github.com/GuanceCloud/platypus/pkg/ast"
	"github.com/GuanceCloud/platypus/pkg/token"

	"verif/mc/internal/rt"
)

// FromAst converts a parsed pkg/ast tree into the reference tree type,
// carrying over every position field the parser stored (as byte offsets).
// A malformed tree (nil children where the grammar cannot produce them) is
// reported as an error rather than a panic.
func FromAst(stmts ast.Stmts) (out []*rt.Node, err error) {
	defer func() {
		if r := recover(); r != nil {
			err = fmt.Errorf("malformed syntax tree: %v", r)
		}
	}()
	for _, s := range stmts {
		out = append(out, fromNode(s, false))
	}
	return out, nil
}

func pos(p token.LnColPos) int { return int(p.Pos) }

// LnCols collects (offset, line, column) triples of every position stored in
// the tree, for the C17 consistency check.
type LnColRec struct {
	Field       string
	Pos, Ln, Col int
}

var lnColSink *[]LnColRec

func rec(field string, p token.LnColPos) int {
	if lnColSink != nil {
		*lnColSink = append(*lnColSink, LnColRec{field, int(p.Pos), p.Ln, p.Col})
	}
	return int(p.Pos)
}

// FromAstWithLnCol is FromAst plus the list of all stored LnColPos values.
func FromAstWithLnCol(stmts ast.Stmts) ([]*rt.Node, []LnColRec, error) {
	var recs []LnColRec
	lnColSink = &recs
	defer func() { lnColSink = nil }()
	out, err := FromAst(stmts)
	return out, recs, err
}

func fromBlock(b *ast.BlockStmt) *rt.Node {
	if b == nil {
		panic("nil block")
	}
	n := &rt.Node{K: rt.KBlock, Start: -1, OpPos: -1}
	n.L = rec("Block.LBracePos", b.LBracePos)
	n.R = rec("Block.RBracePos", b.RBracePos)
	for _, s := range b.Stmts {
		n.Kids = append(n.Kids, fromNode(s, false))
	}
	return n
}

func fromNode(a *ast.Node, callArg bool) *rt.Node {
	if a == nil {
		panic("nil node")
	}
	n := &rt.Node{Start: -1, OpPos: -1, L: -1, R: -1}
	n.SPos = safeStartPos(a)
	switch a.NodeType {
	case ast.TypeIdentifier:
		n.K = rt.KIdent
		n.S = a.Identifier().Name
		n.Start = rec("Identifier.Start", a.Identifier().Start)
	case ast.TypeStringLiteral:
		n.K = rt.KStr
		n.S = a.StringLiteral().Val
		n.Start = rec("StringLiteral.Start", a.StringLiteral().Start)
	case ast.TypeIntegerLiteral:
		n.K = rt.KInt
		n.I = a.IntegerLiteral().Val
		n.Start = rec("IntegerLiteral.Start", a.IntegerLiteral().Start)
	case ast.TypeFloatLiteral:
		n.K = rt.KFloat
		n.F = a.FloatLiteral().Val
		n.Start = rec("FloatLiteral.Start", a.FloatLiteral().Start)
	case ast.TypeBoolLiteral:
		n.K = rt.KBool
		n.B = a.BoolLiteral().Val
		n.Start = rec("BoolLiteral.Start", a.BoolLiteral().Start)
	case ast.TypeNilLiteral:
		n.K = rt.KNil
		n.Start = rec("NilLiteral.Start", a.NilLiteral().Start)
	case ast.TypeListLiteral:
		n.K = rt.KList
		l := a.ListLiteral()
		n.L, n.R = rec("ListLiteral.LBracket", l.LBracket), rec("ListLiteral.RBracket", l.RBracket)
		n.Start = n.L
		for _, e := range l.List {
			n.Kids = append(n.Kids, fromNode(e, false))
		}
	case ast.TypeMapLiteral:
		n.K = rt.KMap
		m := a.MapLiteral()
		n.L, n.R = rec("MapLiteral.LBrace", m.LBrace), rec("MapLiteral.RBrace", m.RBrace)
		n.Start = n.L
		for _, kv := range m.KeyValeList {
			n.Kids = append(n.Kids, fromNode(kv[0], false), fromNode(kv[1], false))
		}
	case ast.TypeParenExpr:
		n.K = rt.KParen
		p := a.ParenExpr()
		n.L, n.R = rec("ParenExpr.LParen", p.LParen), rec("ParenExpr.RParen", p.RParen)
		n.Start = n.L
		n.Kids = []*rt.Node{fromNode(p.Param, false)}
	case ast.TypeUnaryExpr:
		n.K = rt.KUnary
		u := a.UnaryExpr()
		n.Op = string(u.Op)
		n.OpPos = rec("UnaryExpr.OpPos", u.OpPos)
		n.Start = n.OpPos
		n.Kids = []*rt.Node{fromNode(u.RHS, false)}
	case ast.TypeArithmeticExpr:
		n.K = rt.KBin
		e := a.ArithmeticExpr()
		n.Op = string(e.Op)
		n.OpPos = rec("ArithmeticExpr.OpPos", e.OpPos)
		n.Kids = []*rt.Node{fromNode(e.LHS, false), fromNode(e.RHS, false)}
		n.Start = n.Kids[0].Start
	case ast.TypeConditionalExpr:
		n.K = rt.KBin
		e := a.ConditionalExpr()
		n.Op = string(e.Op)
		n.OpPos = rec("ConditionalExpr.OpPos", e.OpPos)
		n.Kids = []*rt.Node{fromNode(e.LHS, false), fromNode(e.RHS, false)}
		n.Start = n.Kids[0].Start
	case ast.TypeInExpr:
		n.K = rt.KIn
		e := a.InExpr()
		n.Op = "in"
		n.OpPos = rec("InExpr.OpPos", e.OpPos)
		n.Kids = []*rt.Node{fromNode(e.LHS, false), fromNode(e.RHS, false)}
		n.Start = n.Kids[0].Start
	case ast.TypeIndexExpr:
		n.K = rt.KIndex
		ix := a.IndexExpr()
		if ix.Obj == nil {
			n.NoObj = true
		} else {
			n.S = ix.Obj.Name
			n.Start = rec("IndexExpr.Obj.Start", ix.Obj.Start)
		}
		for _, k := range ix.Index {
			n.Kids = append(n.Kids, fromNode(k, false))
		}
		for _, p := range ix.LBracket {
			n.Ls = append(n.Ls, rec("IndexExpr.LBracket", p))
		}
		for _, p := range ix.RBracket {
			n.Rs = append(n.Rs, rec("IndexExpr.RBracket", p))
		}
	case ast.TypeSliceExpr:
		n.K = rt.KSlice
		s := a.SliceExpr()
		n.Colon2 = s.Colon2
		n.L, n.R = rec("SliceExpr.LBracket", s.LBracket), rec("SliceExpr.RBracket", s.RBracket)
		n.Kids = []*rt.Node{fromNode(s.Obj, false), nil, nil, nil}
		if s.Start != nil {
			n.Kids[1] = fromNode(s.Start, false)
		}
		if s.End != nil {
			n.Kids[2] = fromNode(s.End, false)
		}
		if s.Step != nil {
			n.Kids[3] = fromNode(s.Step, false)
		}
		n.Start = n.Kids[0].Start
	case ast.TypeAttrExpr:
		n.K = rt.KAttr
		at := a.AttrExpr()
		n.Kids = []*rt.Node{fromNode(at.Obj, false), fromNode(at.Attr, false)}
		n.Start = rec("AttrExpr.Start", at.Start)
	case ast.TypeCallExpr:
		n.K = rt.KCall
		c := a.CallExpr()
		n.S = c.Name
		n.Start = rec("CallExpr.NamePos", c.NamePos)
		n.L, n.R = rec("CallExpr.LParen", c.LParen), rec("CallExpr.RParen", c.RParen)
		for _, p := range c.Param {
			n.Kids = append(n.Kids, fromNode(p, true))
		}
	case ast.TypeAssignmentExpr:
		as := a.AssignmentExpr()
		if callArg && as.Op == ast.EQ && len(as.LHS) == 1 && len(as.RHS) == 1 && as.LHS[0].NodeType == ast.TypeIdentifier {
			n.K = rt.KNamed
			n.S = as.LHS[0].Identifier().Name
			n.Start = rec("Named.Identifier.Start", as.LHS[0].Identifier().Start)
			n.OpPos = rec("Named.OpPos", as.OpPos)
			n.Kids = []*rt.Node{fromNode(as.RHS[0], false)}
			break
		}
		n.K = rt.KAssign
		n.Op = string(as.Op)
		n.NL = len(as.LHS)
		n.OpPos = rec("AssignmentExpr.OpPos", as.OpPos)
		for _, l := range as.LHS {
			n.Kids = append(n.Kids, fromNode(l, false))
		}
		for _, r := range as.RHS {
			n.Kids = append(n.Kids, fromNode(r, false))
		}
		n.Start = n.Kids[0].Start
	case ast.TypeIfelseStmt:
		n.K = rt.KIf
		s := a.IfelseStmt()
		for _, e := range s.IfList {
			if e == nil {
				panic("nil if element")
			}
			n.Ls = append(n.Ls, rec("IfStmtElem.Start", e.Start))
			n.Kids = append(n.Kids, fromNode(e.Condition, false), fromBlock(e.Block))
		}
		if len(n.Ls) > 0 {
			n.Start = n.Ls[0]
		}
		if s.Else != nil {
			n.HasElse = true
			n.OpPos = rec("IfelseStmt.ElsePos", s.ElsePos)
			n.Kids = append(n.Kids, fromBlock(s.Else))
		}
	case ast.TypeForStmt:
		n.K = rt.KFor
		f := a.ForStmt()
		n.Start = rec("ForStmt.ForPos", f.ForPos)
		n.Kids = []*rt.Node{nil, nil, nil, nil}
		if f.Init != nil {
			n.Kids[0] = fromNode(f.Init, false)
		}
		if f.Cond != nil {
			n.Kids[1] = fromNode(f.Cond, false)
		}
		if f.Loop != nil {
			n.Kids[2] = fromNode(f.Loop, false)
		}
		n.Kids[3] = fromBlock(f.Body)
	case ast.TypeForInStmt:
		n.K = rt.KForIn
		f := a.ForInStmt()
		n.Start = rec("ForInStmt.ForPos", f.ForPos)
		n.OpPos = rec("ForInStmt.InPos", f.InPos)
		n.Kids = []*rt.Node{fromNode(f.Varb, false), fromNode(f.Iter, false), fromBlock(f.Body)}
	case ast.TypeBreakStmt:
		n.K = rt.KBreak
		n.Start = rec("BreakStmt.Start", a.BreakStmt().Start)
	case ast.TypeContinueStmt:
		n.K = rt.KContinue
		n.Start = rec("ContinueStmt.Start", a.ContinueStmt().Start)
	default:
		panic(fmt.Sprintf("unexpected node type %v", a.NodeType))
	}
	return n
}

// safeStartPos is the node's StartPos() offset; -2 if computing it panics.
func safeStartPos(a *ast.Node) (p int) {
	defer func() {
		if r := recover(); r != nil {
			p = -2
		}
	}()
	return int(a.StartPos().Pos)
}
