package drv

import (
	"fmt"
	"runtime/debug"
	"strings"

	"github.com/GuanceCloud/platypus/pkg/ast"
	"github.com/GuanceCloud/platypus/pkg/engine"
	v2 "github.com/GuanceCloud/platypus/pkg/engine/runtimev2"
	"github.com/GuanceCloud/platypus/pkg/errchain"
)

// v2 probe functions, supplied through the function table:
//
//	p(args...)  variadic; records its arguments, returns the last one
//	void(args...) evaluates its arguments, returns nothing
//	one()       returns 1
//	two()       returns (1, 2)
//	id(x)       returns x
//	raw(...)    hand-written check that accepts anything; returns nothing
//	dflt(l=["d"], m={"k": 1}) returns [l, m] (the very objects it received)
var (
	v2VarParams = []*v2.Param{{Name: "args", Variable: true}}
	v2IDParams  = []*v2.Param{{Name: "x"}}
	v2AnyRet    = []*v2.Param{{Desc: "value"}}
	// move(from, to, keep=false) returns [from, to, keep]: required and default-valued parameters in one list
	v2MoveParams = []*v2.Param{{Name: "from"}, {Name: "to"}, {Name: "keep", Val: func() any { return false }}}
	// dflt(l=["d"], m={"k": 1}) returns [l, m]: default values that reach the script as they are
	v2DfltParams = []*v2.Param{
		{Name: "l", Val: func() any { return []any{"d"} }},
		{Name: "m", Val: func() any { return map[string]any{"k": int64(1)} }},
	}
)

func v2check(params []*v2.Param) v2.FnCall {
	return func(ctx *v2.Task, e *ast.CallExpr) *errchain.PlError {
		return v2.CheckPassParam(ctx, e, params)
	}
}

func goToDT(v any) (any, ast.DType) {
	return ast.DectDataType(v)
}

// V2Fns returns the probe function table.
func V2Fns() map[string]*v2.Fn {
	return map[string]*v2.Fn{
		"p": {
			Desc:      v2.FnDesc{Name: "p", Params: v2VarParams, Returns: v2AnyRet},
			CallCheck: v2check(v2VarParams),
			Call: func(ctx *v2.Task, e *ast.CallExpr) *errchain.PlError {
				v, err := v2.GetParam(ctx, e, v2VarParams, 0)
				if err != nil {
					return err
				}
				args, _ := v.([]any)
				var parts []string
				for _, a := range args {
					parts = append(parts, Canon(a))
				}
				if cur != nil {
					cur.Recs = append(cur.Recs, "p("+strings.Join(parts, ",")+")")
				}
				if len(args) > 0 {
					lv, dt := goToDT(args[len(args)-1])
					ctx.Regs.ReturnAppend(v2.V{V: lv, T: dt})
				} else {
					ctx.Regs.ReturnAppend()
				}
				return nil
			},
		},
		"void": {
			Desc:      v2.FnDesc{Name: "void", Params: v2VarParams},
			CallCheck: v2check(v2VarParams),
			Call: func(ctx *v2.Task, e *ast.CallExpr) *errchain.PlError {
				if _, err := v2.GetParam(ctx, e, v2VarParams, 0); err != nil {
					return err
				}
				if cur != nil {
					cur.Recs = append(cur.Recs, "void")
				}
				return nil
			},
		},
		// raw(...): a function whose hand-written check looks at nothing (it does not go through
		// CheckPassParam, so the call is never normalised) and whose body ignores its arguments
		"raw": {
			Desc:      v2.FnDesc{Name: "raw", Params: v2VarParams},
			CallCheck: func(ctx *v2.Task, e *ast.CallExpr) *errchain.PlError { return nil },
			Call:      func(ctx *v2.Task, e *ast.CallExpr) *errchain.PlError { return nil },
		},
		// camelId(x): a registered name with an upper-case letter (names are case-sensitive)
		"camelId": {
			Desc:      v2.FnDesc{Name: "camelId", Params: v2IDParams, Returns: v2AnyRet},
			CallCheck: v2check(v2IDParams),
			Call: func(ctx *v2.Task, e *ast.CallExpr) *errchain.PlError {
				v, err := v2.GetParam(ctx, e, v2IDParams, 0)
				if err != nil {
					return err
				}
				lv, dt := goToDT(v)
				ctx.Regs.ReturnAppend(v2.V{V: lv, T: dt})
				return nil
			},
		},
		"dflt": {
			Desc:      v2.FnDesc{Name: "dflt", Params: v2DfltParams, Returns: v2AnyRet},
			CallCheck: v2check(v2DfltParams),
			Call: func(ctx *v2.Task, e *ast.CallExpr) *errchain.PlError {
				l, err := v2.GetParam(ctx, e, v2DfltParams, 0)
				if err != nil {
					return err
				}
				m, err := v2.GetParam(ctx, e, v2DfltParams, 1)
				if err != nil {
					return err
				}
				ctx.Regs.ReturnAppend(v2.V{V: []any{l, m}, T: ast.List})
				return nil
			},
		},
		"one": {
			Desc:      v2.FnDesc{Name: "one", Returns: v2AnyRet},
			CallCheck: v2check(nil),
			Call: func(ctx *v2.Task, e *ast.CallExpr) *errchain.PlError {
				ctx.Regs.ReturnAppend(v2.V{V: int64(1), T: ast.Int})
				return nil
			},
		},
		"two": {
			Desc:      v2.FnDesc{Name: "two", Returns: []*v2.Param{{Desc: "first"}, {Desc: "second"}}},
			CallCheck: v2check(nil),
			Call: func(ctx *v2.Task, e *ast.CallExpr) *errchain.PlError {
				ctx.Regs.ReturnAppend(v2.V{V: int64(1), T: ast.Int}, v2.V{V: int64(2), T: ast.Int})
				return nil
			},
		},
		"move": {
			Desc:      v2.FnDesc{Name: "move", Params: v2MoveParams, Returns: v2AnyRet},
			CallCheck: v2check(v2MoveParams),
			Call: func(ctx *v2.Task, e *ast.CallExpr) *errchain.PlError {
				var out []any
				for i := range v2MoveParams {
					v, err := v2.GetParam(ctx, e, v2MoveParams, i)
					if err != nil {
						return err
					}
					out = append(out, v)
				}
				ctx.Regs.ReturnAppend(v2.V{V: out, T: ast.List})
				return nil
			},
		},
		"id": {
			Desc:      v2.FnDesc{Name: "id", Params: v2IDParams, Returns: v2AnyRet},
			CallCheck: v2check(v2IDParams),
			Call: func(ctx *v2.Task, e *ast.CallExpr) *errchain.PlError {
				v, err := v2.GetParam(ctx, e, v2IDParams, 0)
				if err != nil {
					return err
				}
				lv, dt := goToDT(v)
				ctx.Regs.ReturnAppend(v2.V{V: lv, T: dt})
				return nil
			},
		},
	}
}

var v2fns = V2Fns()

// LoadV2 loads a script for the v2 interpreter with the probe table.
func LoadV2(name, src string) (s *v2.Script, err error) {
	defer func() {
		if r := recover(); r != nil {
			s, err = nil, &LoadPanic{Msg: fmt.Sprint(r), Stack: string(debug.Stack())}
		}
	}()
	return engine.ParseV2(name, src, v2fns)
}

// RunV2 runs a v2 script under a signal, recovering panics.
func RunV2(s *v2.Script, sig *Sig) (res Result) {
	tr := &Trace{}
	prev := cur
	cur = tr
	defer func() {
		cur = prev
		if r := recover(); r != nil {
			res.Panic = fmt.Sprint(r)
			res.Stack = string(debug.Stack())
		}
		res.Trace = tr.Recs
		if sig != nil {
			res.Polls = sig.N
		}
	}()
	var sg v2.Signal
	if sig != nil {
		sg = sig
	}
	res.Err = s.Run(sg)
	return res
}
