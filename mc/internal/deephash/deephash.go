// Package deephash computes a structural hash of everything reachable from a
// set of roots, unexported fields included (reflection + unsafe). It is the
// shared-state snapshot of the C16 ownership invariant: a segment of
// execution that changes the hash of the shared roots has written shared
// memory.
package deephash

import (
	"hash/fnv"
	"math"
	"reflect"
	"sort"
	"strings"
	"unsafe"
)

// Hasher walks values. Pointers to struct types of packages outside RepoPrefix
// (regexp, zap, grok, time.Location, ...) and every type whose package path
// has a prefix in Opaque are hashed by identity only.
type Hasher struct {
	RepoPrefix string
	Opaque     []string
	// Shallow: below the root's own memory, pointers, slices and maps are hashed by
	// identity (address, length) only — "was this object itself written?"
	Shallow    bool
	seen       map[uintptr]bool
	h          uint64
	Nodes      int
}

func New(repoPrefix string, opaque ...string) *Hasher {
	return &Hasher{RepoPrefix: repoPrefix, Opaque: opaque}
}

// Hash returns the hash of the roots (a map name -> pointer to variable).
func (hs *Hasher) Hash(roots map[string]any) uint64 {
	hs.seen = map[uintptr]bool{}
	hs.h = 1469598103934665603
	hs.Nodes = 0
	names := make([]string, 0, len(roots))
	for n := range roots {
		names = append(names, n)
	}
	sort.Strings(names)
	for _, n := range names {
		hs.str(n)
		hs.value(reflect.ValueOf(roots[n]), 0)
	}
	return hs.h
}

func (hs *Hasher) mix(x uint64) {
	hs.h ^= x
	hs.h *= 1099511628211
}

func (hs *Hasher) str(s string) {
	f := fnv.New64a()
	_, _ = f.Write([]byte(s))
	hs.mix(f.Sum64())
}

func (hs *Hasher) opaqueType(t reflect.Type) bool {
	pp := t.PkgPath()
	if pp == "" {
		return false
	}
	for _, o := range hs.Opaque {
		if strings.HasPrefix(pp, o) {
			return true
		}
	}
	return false
}

func (hs *Hasher) foreignStruct(t reflect.Type) bool {
	return t.Kind() == reflect.Struct && t.PkgPath() != "" && !strings.HasPrefix(t.PkgPath(), hs.RepoPrefix)
}

func (hs *Hasher) value(v reflect.Value, depth int) {
	hs.Nodes++
	if !v.IsValid() {
		hs.mix(0xdead)
		return
	}
	if depth > 200 {
		hs.mix(0xdeef)
		return
	}
	t := v.Type()
	hs.mix(uint64(t.Kind()))
	if hs.opaqueType(t) {
		// identity of the variable only
		if v.CanAddr() {
			hs.mix(uint64(v.UnsafeAddr()))
		}
		return
	}
	switch v.Kind() {
	case reflect.Bool:
		if v.Bool() {
			hs.mix(1)
		} else {
			hs.mix(2)
		}
	case reflect.Int, reflect.Int8, reflect.Int16, reflect.Int32, reflect.Int64:
		hs.mix(uint64(v.Int()))
	case reflect.Uint, reflect.Uint8, reflect.Uint16, reflect.Uint32, reflect.Uint64, reflect.Uintptr:
		hs.mix(v.Uint())
	case reflect.Float32, reflect.Float64:
		hs.mix(math.Float64bits(v.Float()))
	case reflect.Complex64, reflect.Complex128:
		c := v.Complex()
		hs.mix(math.Float64bits(real(c)))
		hs.mix(math.Float64bits(imag(c)))
	case reflect.String:
		hs.str(v.String())
	case reflect.Func, reflect.Chan, reflect.UnsafePointer:
		hs.mix(uint64(v.Pointer()))
	case reflect.Ptr:
		if v.IsNil() {
			hs.mix(0)
			return
		}
		p := v.Pointer()
		et := t.Elem()
		if hs.Shallow && depth > 1 {
			hs.mix(uint64(p))
			return
		}
		if hs.foreignStruct(et) || hs.opaqueType(et) {
			hs.mix(uint64(p)) // identity only
			return
		}
		if hs.seen[p] {
			hs.mix(uint64(len(hs.seen))) // back edge: structure, not address
			return
		}
		hs.seen[p] = true
		hs.value(v.Elem(), depth+1)
	case reflect.Interface:
		if v.IsNil() {
			hs.mix(0)
			return
		}
		hs.str(v.Elem().Type().String())
		hs.value(v.Elem(), depth+1)
	case reflect.Slice:
		if v.IsNil() {
			hs.mix(0)
			return
		}
		hs.mix(uint64(v.Len()))
		if hs.Shallow && depth > 1 {
			hs.mix(uint64(v.Pointer()))
			return
		}
		if v.Len() > 0 && t.Elem().Kind() == reflect.Uint8 {
			hs.str(string(v.Bytes()))
			return
		}
		for i := 0; i < v.Len(); i++ {
			hs.value(v.Index(i), depth+1)
		}
	case reflect.Array:
		for i := 0; i < v.Len(); i++ {
			hs.value(v.Index(i), depth+1)
		}
	case reflect.Map:
		if v.IsNil() {
			hs.mix(0)
			return
		}
		hs.mix(uint64(v.Len()))
		if hs.Shallow && depth > 1 {
			hs.mix(uint64(v.Pointer()))
			return
		}
		// order-independent combination of (key,value) hashes
		var acc uint64
		iter := v.MapRange()
		for iter.Next() {
			sub := &Hasher{RepoPrefix: hs.RepoPrefix, Opaque: hs.Opaque, seen: hs.seen, h: 1469598103934665603}
			sub.value(iter.Key(), depth+1)
			sub.value(iter.Value(), depth+1)
			hs.Nodes += sub.Nodes
			acc += sub.h
		}
		hs.mix(acc)
	case reflect.Struct:
		for i := 0; i < v.NumField(); i++ {
			f := v.Field(i)
			if !f.CanInterface() && f.CanAddr() {
				f = reflect.NewAt(f.Type(), unsafe.Pointer(f.UnsafeAddr())).Elem()
			}
			hs.value(f, depth+1)
		}
	default:
		hs.mix(0xbad)
	}
}
