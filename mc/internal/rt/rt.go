// Package rt is the reference syntax tree (engine E1 of DESIGN.md): an own
// tree type, independent of pkg/ast, with a printer that records the byte
// offset of every token and the admissible layout-insertion sites.
package rt

import (
	"fmt"
	"math"
	"strconv"
	"strings"
)

type Kind int

const (
	KIdent Kind = iota
	KInt
	KFloat
	KStr
	KBool
	KNil
	KList
	KMap   // Kids = k0,v0,k1,v1,...
	KParen // Kids[0]
	KUnary // Op, Kids[0]
	KBin   // Op (arith / comparison / logic), Kids[0], Kids[1]
	KIn    // Kids[0] in Kids[1]
	KIndex // S = object name, NoObj for `.[i]`; Kids = indices
	KSlice // Kids[0]=obj, Kids[1..3]=start,end,step (nil = omitted), Colon2
	KAttr  // Kids[0].Kids[1]
	KCall  // S = name, Kids = args (KNamed for named arguments)
	KNamed // S = name, Kids[0] = value
	KAssign
	KIf    // Kids = cond0, block0, cond1, block1, ... [, elseBlock if HasElse]
	KFor   // Kids[0..2] = init, cond, loop (nil = omitted), Kids[3] = body block
	KForIn // Kids[0] = variable ident, Kids[1] = iterable, Kids[2] = body block
	KBreak
	KContinue
	KBlock // Kids = statements
)

var kindNames = []string{"Ident", "Int", "Float", "Str", "Bool", "Nil", "List", "Map", "Paren", "Unary", "Bin", "In",
	"Index", "Slice", "Attr", "Call", "Named", "Assign", "If", "For", "ForIn", "Break", "Continue", "Block"}

func (k Kind) String() string { return kindNames[k] }

// Node is one node of the reference tree.
type Node struct {
	K    Kind
	I    int64
	F    float64
	S    string // identifier / call name / string value / index object name
	B    bool
	Op   string
	Kids []*Node

	NL      int  // KAssign: number of left-hand sides (Kids[:NL] = lhs, Kids[NL:] = rhs)
	Colon2  bool // KSlice: second colon present
	HasElse bool // KIf
	NoObj   bool // KIndex: object-less `.[i]`
	Quoted  bool // KIdent / KIndex object / KCall name / KNamed: spelled with back quotes
	Spell   string // literals: exact source spelling to print instead of the default

	// Byte offsets recorded by the printer (-1 = not applicable).
	Start  int   // first token of the node (for Ident/literals/Call name/keywords)
	OpPos  int   // operator / `in` / `=` / else keyword
	L, R   int   // opening and closing bracket/paren/brace
	Ls, Rs []int // KIndex: brackets of each index; KIf: Ls = positions of if/elif keywords
	End    int   // offset just past the last token
	SPos   int   // (parsed trees only) offset reported by the node's StartPos()
}

// ---- constructors ---------------------------------------------------------

func Id(name string) *Node           { return &Node{K: KIdent, S: name} }
func QId(name string) *Node          { return &Node{K: KIdent, S: name, Quoted: true} }
func Int(v int64) *Node              { return &Node{K: KInt, I: v} }
func Float(v float64) *Node          { return &Node{K: KFloat, F: v} }
func Str(v string) *Node             { return &Node{K: KStr, S: v} }
func Bool(v bool) *Node              { return &Node{K: KBool, B: v} }
func Nil() *Node                     { return &Node{K: KNil} }
func List(e ...*Node) *Node          { return &Node{K: KList, Kids: e} }
func Map(kv ...*Node) *Node          { return &Node{K: KMap, Kids: kv} }
func Paren(e *Node) *Node            { return &Node{K: KParen, Kids: []*Node{e}} }
func Un(op string, e *Node) *Node    { return &Node{K: KUnary, Op: op, Kids: []*Node{e}} }
func Bin(op string, a, b *Node) *Node {
	if op == "in" {
		return &Node{K: KIn, Op: "in", Kids: []*Node{a, b}}
	}
	return &Node{K: KBin, Op: op, Kids: []*Node{a, b}}
}
func In(a, b *Node) *Node                { return &Node{K: KIn, Op: "in", Kids: []*Node{a, b}} }
func Index(obj string, ix ...*Node) *Node { return &Node{K: KIndex, S: obj, Kids: ix} }
func NoObjIndex(ix ...*Node) *Node       { return &Node{K: KIndex, NoObj: true, Kids: ix} }
func Slice(obj, start, end, step *Node, colon2 bool) *Node {
	return &Node{K: KSlice, Kids: []*Node{obj, start, end, step}, Colon2: colon2 || step != nil}
}
func Attr(o, a *Node) *Node             { return &Node{K: KAttr, Kids: []*Node{o, a}} }
func Call(name string, a ...*Node) *Node { return &Node{K: KCall, S: name, Kids: a} }
func Named(name string, v *Node) *Node  { return &Node{K: KNamed, S: name, Kids: []*Node{v}} }
func Assign(op string, l, r *Node) *Node {
	return &Node{K: KAssign, Op: op, NL: 1, Kids: []*Node{l, r}}
}
func AssignN(l []*Node, r []*Node) *Node {
	return &Node{K: KAssign, Op: "=", NL: len(l), Kids: append(append([]*Node{}, l...), r...)}
}
func Block(s ...*Node) *Node { return &Node{K: KBlock, Kids: s} }
func If(parts ...*Node) *Node {
	// parts: cond, block, cond, block, ..., [else block]
	return &Node{K: KIf, Kids: parts, HasElse: len(parts)%2 == 1}
}
func For(init, cond, loop, body *Node) *Node {
	return &Node{K: KFor, Kids: []*Node{init, cond, loop, body}}
}
func ForIn(v string, iter, body *Node) *Node {
	return &Node{K: KForIn, Kids: []*Node{Id(v), iter, body}}
}
func Break() *Node    { return &Node{K: KBreak} }
func Continue() *Node { return &Node{K: KContinue} }

func (n *Node) Lhs() []*Node { return n.Kids[:n.NL] }
func (n *Node) Rhs() []*Node { return n.Kids[n.NL:] }

// Clone deep-copies a tree (positions included).
func Clone(n *Node) *Node {
	if n == nil {
		return nil
	}
	c := *n
	if n.Kids != nil {
		c.Kids = make([]*Node, len(n.Kids))
		for i, k := range n.Kids {
			c.Kids[i] = Clone(k)
		}
	}
	c.Ls = append([]int(nil), n.Ls...)
	c.Rs = append([]int(nil), n.Rs...)
	return &c
}

// ---- structural equality and rendering -------------------------------------

// Equal compares structure and payload, ignoring positions and spelling.
func Equal(a, b *Node) bool {
	if a == nil || b == nil {
		return a == b
	}
	if a.K != b.K || a.Op != b.Op || len(a.Kids) != len(b.Kids) {
		return false
	}
	switch a.K {
	case KInt:
		if a.I != b.I {
			return false
		}
	case KFloat:
		if math.Float64bits(a.F) != math.Float64bits(b.F) && !(math.IsNaN(a.F) && math.IsNaN(b.F)) {
			return false
		}
	case KStr, KIdent, KCall, KNamed:
		if a.S != b.S {
			return false
		}
	case KIndex:
		if a.S != b.S || a.NoObj != b.NoObj {
			return false
		}
	case KBool:
		if a.B != b.B {
			return false
		}
	case KSlice:
		if a.Colon2 != b.Colon2 {
			return false
		}
	case KIf:
		if a.HasElse != b.HasElse {
			return false
		}
	case KAssign:
		if a.NL != b.NL {
			return false
		}
	}
	for i := range a.Kids {
		if !Equal(a.Kids[i], b.Kids[i]) {
			return false
		}
	}
	return true
}

func EqualProg(a, b []*Node) bool {
	if len(a) != len(b) {
		return false
	}
	for i := range a {
		if !Equal(a[i], b[i]) {
			return false
		}
	}
	return true
}

// Sexp renders the tree as an S-expression (for diagnostics).
func Sexp(n *Node) string {
	if n == nil {
		return "_"
	}
	var b strings.Builder
	sexp(&b, n)
	return b.String()
}

func SexpProg(p []*Node) string {
	var parts []string
	for _, n := range p {
		parts = append(parts, Sexp(n))
	}
	return strings.Join(parts, " ; ")
}

func sexp(b *strings.Builder, n *Node) {
	if n == nil {
		b.WriteString("_")
		return
	}
	switch n.K {
	case KIdent:
		b.WriteString("id:" + n.S)
		return
	case KInt:
		fmt.Fprintf(b, "%d", n.I)
		return
	case KFloat:
		b.WriteString(fmtFloat(n.F))
		return
	case KStr:
		b.WriteString(strconv.Quote(n.S))
		return
	case KBool:
		fmt.Fprintf(b, "%v", n.B)
		return
	case KNil:
		b.WriteString("nil")
		return
	case KBreak:
		b.WriteString("break")
		return
	case KContinue:
		b.WriteString("continue")
		return
	}
	b.WriteByte('(')
	b.WriteString(n.K.String())
	if n.Op != "" {
		b.WriteString(" " + n.Op)
	}
	switch n.K {
	case KCall, KNamed:
		b.WriteString(" " + n.S)
	case KIndex:
		if n.NoObj {
			b.WriteString(" .")
		} else {
			b.WriteString(" " + n.S)
		}
	case KSlice:
		if n.Colon2 {
			b.WriteString(" ::")
		}
	case KAssign:
		fmt.Fprintf(b, " nl=%d", n.NL)
	case KIf:
		if n.HasElse {
			b.WriteString(" else")
		}
	}
	for _, k := range n.Kids {
		b.WriteByte(' ')
		sexp(b, k)
	}
	b.WriteByte(')')
}

func fmtFloat(f float64) string {
	switch {
	case math.IsInf(f, 1):
		return "inf"
	case math.IsInf(f, -1):
		return "-inf"
	case math.IsNaN(f):
		return "nan"
	}
	s := strconv.FormatFloat(f, 'g', -1, 64)
	if !strings.ContainsAny(s, ".e") {
		s += ".0"
	}
	return s
}

// ---- reference precedence ---------------------------------------------------

// Prec is the documented precedence (docs/src/references/01-syntax-spec.md),
// extended with `in` and the unary operators as DESIGN.md §6 C06 states.
func Prec(n *Node) int {
	switch n.K {
	case KBin:
		switch n.Op {
		case "||":
			return 1
		case "&&":
			return 2
		case "==", "!=", "<", "<=", ">", ">=":
			return 4
		case "+", "-":
			return 5
		case "*", "/", "%":
			return 6
		}
	case KIn:
		return 3
	case KUnary:
		return 7
	}
	return 9
}

// Normalize inserts the parentheses the reference table requires (left
// associativity: an equal-precedence right operand needs them) and returns
// the tree. Existing paren nodes are kept.
func Normalize(n *Node) *Node {
	if n == nil {
		return nil
	}
	for i, k := range n.Kids {
		n.Kids[i] = Normalize(k)
	}
	switch n.K {
	case KBin, KIn:
		p := Prec(n)
		if Prec(n.Kids[0]) < p {
			n.Kids[0] = Paren(n.Kids[0])
		}
		if Prec(n.Kids[1]) <= p {
			n.Kids[1] = Paren(n.Kids[1])
		}
	case KUnary:
		if Prec(n.Kids[0]) < 7 {
			n.Kids[0] = Paren(n.Kids[0])
		}
	case KForIn:
		// `for v in <iter> {` is parsed as the in-expression `v in <iter>`: an
		// iterable binding no tighter than `in` needs parentheses
		if Prec(n.Kids[1]) <= 3 {
			n.Kids[1] = Paren(n.Kids[1])
		}
	}
	return n
}

// ---- printer ------------------------------------------------------------------

// Site kinds: places where the grammar admits line breaks / comments.
const (
	SiteAfterOp    = iota // after a binary operator, `in`, assignment operator
	SiteAfterComma        // after a comma in calls, lists, maps
	SiteAfterOpen         // after an opening ( [ {
	SiteAfterColon        // after ':' in maps and slices
	SiteBetween           // between statements (the separator itself)
	SiteSpace             // any token boundary: spaces / tabs only
)

// Printer renders trees to source text, recording token offsets in the nodes.
type Printer struct {
	b     strings.Builder
	Sites []int // kind of each layout site, in order of appearance
	// Gap, if set, is called for each site (index, kind) and returns text to
	// insert there ("" = nothing).
	Gap func(i, kind int) string
	// Sep is the statement separator (default "\n").
	Sep string
}

func (p *Printer) site(kind int) {
	i := len(p.Sites)
	p.Sites = append(p.Sites, kind)
	if p.Gap != nil {
		p.b.WriteString(p.Gap(i, kind))
	}
}

func (p *Printer) pos() int { return p.b.Len() }

func (p *Printer) w(s string) { p.b.WriteString(s) }

func (p *Printer) sp() {
	// a token boundary where blanks are harmless
	p.site(SiteSpace)
}

// PrintProg prints a statement list; returns the text.
func PrintProg(prog []*Node, gap func(i, kind int) string) (string, []int) {
	p := &Printer{Gap: gap, Sep: "\n"}
	p.stmts(prog)
	return p.b.String(), p.Sites
}

// PrintExpr prints one expression.
func PrintExpr(n *Node) string {
	p := &Printer{}
	p.expr(n)
	return p.b.String()
}

func (p *Printer) stmts(prog []*Node) {
	for i, s := range prog {
		if i > 0 {
			i0 := len(p.Sites)
			p.Sites = append(p.Sites, SiteBetween)
			sep := p.Sep
			if p.Gap != nil {
				if g := p.Gap(i0, SiteBetween); g != "" {
					sep = g
				}
			}
			p.w(sep)
		}
		p.expr(s)
	}
}

func identText(name string, quoted bool) string {
	if quoted {
		return "`" + name + "`"
	}
	return name
}

func (p *Printer) block(n *Node) {
	n.L = p.pos()
	p.w("{")
	p.site(SiteAfterOpen)
	if len(n.Kids) > 0 {
		p.w("\n")
		p.stmts(n.Kids)
		p.w("\n")
	}
	n.R = p.pos()
	p.w("}")
	n.End = p.pos()
}

func (p *Printer) expr(n *Node) {
	n.Start, n.OpPos, n.L, n.R = -1, -1, -1, -1
	switch n.K {
	case KIdent:
		n.Start = p.pos()
		p.w(identText(n.S, n.Quoted))
	case KInt:
		n.Start = p.pos()
		if n.Spell != "" {
			p.w(n.Spell)
		} else {
			p.w(strconv.FormatInt(n.I, 10))
		}
	case KFloat:
		n.Start = p.pos()
		if n.Spell != "" {
			p.w(n.Spell)
		} else {
			p.w(fmtFloat(n.F))
		}
	case KStr:
		n.Start = p.pos()
		if n.Spell != "" {
			p.w(n.Spell)
		} else {
			p.w(QuoteStr(n.S))
		}
	case KBool:
		n.Start = p.pos()
		if n.Spell != "" {
			p.w(n.Spell)
		} else if n.B {
			p.w("true")
		} else {
			p.w("false")
		}
	case KNil:
		n.Start = p.pos()
		if n.Spell != "" {
			p.w(n.Spell)
		} else {
			p.w("nil")
		}
	case KList:
		n.L = p.pos()
		n.Start = n.L
		p.w("[")
		p.site(SiteAfterOpen)
		for i, k := range n.Kids {
			if i > 0 {
				p.w(",")
				p.site(SiteAfterComma)
				p.w(" ")
			}
			p.expr(k)
		}
		n.R = p.pos()
		p.w("]")
	case KMap:
		n.L = p.pos()
		n.Start = n.L
		p.w("{")
		p.site(SiteAfterOpen)
		for i := 0; i+1 < len(n.Kids); i += 2 {
			if i > 0 {
				p.w(",")
				p.site(SiteAfterComma)
				p.w(" ")
			}
			p.expr(n.Kids[i])
			p.w(":")
			p.site(SiteAfterColon)
			p.w(" ")
			p.expr(n.Kids[i+1])
		}
		n.R = p.pos()
		p.w("}")
	case KParen:
		n.L = p.pos()
		n.Start = n.L
		p.w("(")
		p.site(SiteAfterOpen)
		p.expr(n.Kids[0])
		n.R = p.pos()
		p.w(")")
	case KUnary:
		n.OpPos = p.pos()
		n.Start = n.OpPos
		p.w(n.Op)
		// a sign directly before another sign or a number needs no blank; but
		// `- -x` must not become `--x`?  `--x` lexes as SUB SUB, fine.
		p.expr(n.Kids[0])
	case KBin, KIn:
		p.expr(n.Kids[0])
		n.Start = n.Kids[0].Start
		p.w(" ")
		p.sp()
		n.OpPos = p.pos()
		p.w(n.Op)
		p.site(SiteAfterOp)
		p.w(" ")
		p.expr(n.Kids[1])
	case KIndex:
		n.Ls, n.Rs = nil, nil
		n.Start = p.pos()
		if n.NoObj {
			p.w(".")
		} else {
			p.w(identText(n.S, n.Quoted))
		}
		for _, k := range n.Kids {
			n.Ls = append(n.Ls, p.pos())
			p.w("[")
			p.site(SiteAfterOpen)
			p.expr(k)
			n.Rs = append(n.Rs, p.pos())
			p.w("]")
		}
	case KSlice:
		p.expr(n.Kids[0])
		n.Start = n.Kids[0].Start
		n.L = p.pos()
		p.w("[")
		p.site(SiteAfterOpen)
		if n.Kids[1] != nil {
			p.expr(n.Kids[1])
		}
		p.w(":")
		p.site(SiteAfterColon)
		if n.Kids[2] != nil {
			p.expr(n.Kids[2])
		}
		if n.Colon2 {
			p.w(":")
			p.site(SiteAfterColon)
			if n.Kids[3] != nil {
				p.expr(n.Kids[3])
			}
		}
		n.R = p.pos()
		p.w("]")
	case KAttr:
		p.expr(n.Kids[0])
		n.Start = n.Kids[0].Start
		n.OpPos = p.pos()
		p.w(".")
		p.expr(n.Kids[1])
	case KCall:
		n.Start = p.pos()
		p.w(identText(n.S, n.Quoted))
		n.L = p.pos()
		p.w("(")
		p.site(SiteAfterOpen)
		for i, k := range n.Kids {
			if i > 0 {
				p.w(",")
				p.site(SiteAfterComma)
				p.w(" ")
			}
			p.expr(k)
		}
		n.R = p.pos()
		p.w(")")
	case KNamed:
		n.Start = p.pos()
		p.w(identText(n.S, n.Quoted))
		p.sp()
		n.OpPos = p.pos()
		p.w("=")
		p.site(SiteAfterOp)
		p.expr(n.Kids[0])
	case KAssign:
		for i, k := range n.Lhs() {
			if i > 0 {
				p.w(",")
				p.site(SiteAfterComma)
				p.w(" ")
			}
			p.expr(k)
		}
		n.Start = n.Kids[0].Start
		p.w(" ")
		p.sp()
		n.OpPos = p.pos()
		p.w(n.Op)
		p.site(SiteAfterOp)
		p.w(" ")
		for i, k := range n.Rhs() {
			if i > 0 {
				p.w(",")
				p.site(SiteAfterComma)
				p.w(" ")
			}
			p.expr(k)
		}
	case KIf:
		n.Ls = nil
		n.Start = p.pos()
		npairs := len(n.Kids) / 2
		for i := 0; i < npairs; i++ {
			n.Ls = append(n.Ls, p.pos())
			if i == 0 {
				p.w("if ")
			} else {
				p.w("elif ")
			}
			p.sp()
			p.expr(n.Kids[2*i])
			p.w(" ")
			p.sp()
			p.block(n.Kids[2*i+1])
			if i+1 < npairs || n.HasElse {
				p.w(" ")
			}
		}
		if n.HasElse {
			n.OpPos = p.pos()
			p.w("else ")
			p.sp()
			p.block(n.Kids[len(n.Kids)-1])
		}
	case KFor:
		n.Start = p.pos()
		p.w("for ")
		p.sp()
		if n.Kids[0] != nil {
			p.expr(n.Kids[0])
		}
		p.w(";")
		p.sp()
		p.w(" ")
		if n.Kids[1] != nil {
			p.expr(n.Kids[1])
		}
		p.w(";")
		p.sp()
		p.w(" ")
		if n.Kids[2] != nil {
			p.expr(n.Kids[2])
			p.w(" ")
		}
		p.block(n.Kids[3])
	case KForIn:
		n.Start = p.pos()
		p.w("for ")
		p.sp()
		p.expr(n.Kids[0])
		p.w(" ")
		n.OpPos = p.pos()
		p.w("in")
		p.site(SiteAfterOp)
		p.w(" ")
		p.expr(n.Kids[1])
		p.w(" ")
		p.sp()
		p.block(n.Kids[2])
	case KBreak:
		n.Start = p.pos()
		p.w("break")
	case KContinue:
		n.Start = p.pos()
		p.w("continue")
	case KBlock:
		p.block(n)
	default:
		panic(fmt.Sprintf("rt: cannot print kind %v", n.K))
	}
	n.End = p.pos()
}

// QuoteStr spells a string as a double-quoted literal using only escapes the
// language reference shares with Go.
func QuoteStr(s string) string {
	var b strings.Builder
	b.WriteByte('"')
	for i := 0; i < len(s); {
		c := s[i]
		switch {
		case c == '"':
			b.WriteString(`\"`)
			i++
		case c == '\\':
			b.WriteString(`\\`)
			i++
		case c == '\n':
			b.WriteString(`\n`)
			i++
		case c == '\t':
			b.WriteString(`\t`)
			i++
		case c == '\r':
			b.WriteString(`\r`)
			i++
		case c < 0x20 || c == 0x7f:
			fmt.Fprintf(&b, `\x%02x`, c)
			i++
		case c < 0x80:
			b.WriteByte(c)
			i++
		default:
			r, size := decodeRune(s[i:])
			if r == 0xFFFD && size == 1 {
				fmt.Fprintf(&b, `\x%02x`, c)
			} else {
				b.WriteString(s[i : i+size])
			}
			i += size
		}
	}
	b.WriteByte('"')
	return b.String()
}

func decodeRune(s string) (rune, int) {
	for i, r := range s {
		_ = i
		n := len(string(r))
		if r == 0xFFFD && (len(s) < 3 || s[:3] != "\xef\xbf\xbd") {
			return r, 1
		}
		return r, n
	}
	return 0xFFFD, 1
}
