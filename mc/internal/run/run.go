// Package run is the worker / shard / evidence / known-finding plumbing shared
// by every check (engine E6 of DESIGN.md).
//
// A check is a function that enumerates a finite space of cases. The parent
// process forks N worker subprocesses of the same binary; worker k takes the
// cases whose global index i satisfies i mod N == k, runs each against the
// real code and reports counts, distinct-outcome hashes, samples and
// violations through a result file. A worker that dies (fatal error, stack
// exhaustion) or stops making progress is itself a candidate violation,
// located through the progress slot it keeps updated.
package run

import (
	"bytes"
	"crypto/sha1"
	"encoding/binary"
	"encoding/hex"
	"encoding/json"
	"fmt"
	"hash/fnv"
	"os"
	"os/exec"
	"path/filepath"
	"sort"
	"strconv"
	"strings"
	"sync"
	"time"
)

// VerifDir is the root of the verification tree (evidence, replays, cache).
var VerifDir = func() string {
	if d := os.Getenv("VERIF_DIR"); d != "" {
		return d
	}
	return "/verif"
}()

const (
	maxHashes    = 400000 // per worker cap of remembered distinct-outcome hashes
	maxSamples   = 6
	maxVioPerKey = 3
)

// Check describes one property check.
type Check struct {
	ID          string
	Level       string // evidence level: model_checking | fault_enumeration | exploration
	Rule        string // how cases are enumerated / what is distinct
	Assumptions []string
	// Run enumerates this worker's shard.
	Run func(w *Worker)
	// Replay re-executes one recorded case (the "case" object of a replay
	// file) directly, without the explorer. It returns whether the case
	// still violates and a description.
	Replay func(raw json.RawMessage) (bool, string)
	// Budget is the wall-clock budget of the enumeration per tier; when it
	// expires workers stop cleanly and the evidence says exhaustive:false.
	QuickBudget, ThoroughBudget time.Duration
	// Workers overrides the number of worker processes (0 = 16).
	Workers int
	// Serial marks checks whose Run must see the whole space in one process.
	Serial bool
}

var registry = map[string]*Check{}

// Subcommands are extra entry points of the binary registered by checks
// (e.g. computing a baseline in a fresh process).
var Subcommands = map[string]func(args []string) int{}

func Register(c *Check) { registry[c.ID] = c }

func Lookup(id string) *Check { return registry[id] }

func IDs() []string {
	var ids []string
	for k := range registry {
		ids = append(ids, k)
	}
	sort.Strings(ids)
	return ids
}

// Violation is one counterexample.
type Violation struct {
	Key   string          `json:"key"`  // canonical class, matched against known_findings.json
	What  string          `json:"what"` // one-line description
	Case  json.RawMessage `json:"case"` // replayable case
	Count int64           `json:"count"`
}

// Worker is the per-shard context handed to Check.Run.
type Worker struct {
	Shard, NShards int
	Tier           string
	Seed           int64
	Thorough       bool

	idx      int64 // global case counter
	evals    int64
	hashes   map[uint64]struct{}
	hashCap  bool
	nontriv  int64
	samples  []any
	vios     map[string]*Violation
	vioOrder []string
	notes    map[string]int64
	strNotes map[string]string
	deadline time.Time
	expired  bool
	capsHit  []string
	progress *os.File
	pbuf     [16]byte
	lastBeat int64
	replayIx int64 // if >=0 only this global index is run (crash replay)
}

// Take advances the global case counter and reports whether the case belongs
// to this shard. Call it exactly once per enumerated case, before doing any
// expensive work for it.
func (w *Worker) Take() bool {
	i := w.idx
	w.idx++
	if w.replayIx >= 0 {
		return i == w.replayIx
	}
	if int(i%int64(w.NShards)) != w.Shard {
		return false
	}
	if w.progress != nil {
		binary.LittleEndian.PutUint64(w.pbuf[:8], uint64(i))
		binary.LittleEndian.PutUint64(w.pbuf[8:], uint64(time.Now().UnixNano()))
		_, _ = w.progress.WriteAt(w.pbuf[:], 0)
	}
	return true
}

// Index is the global index of the case most recently offered to Take.
func (w *Worker) Index() int64 { return w.idx - 1 }

// Skip advances the counter by n cases without running them (all shards must
// make the same calls).
func (w *Worker) Skip(n int64) { w.idx += n }

// Eval counts one execution of real code. It is also the worker's heartbeat:
// the watchdog measures the time since the last completed execution, not
// since the last enumerated case (one case may be a whole search subtree).
func (w *Worker) Eval() {
	w.evals++
	if w.evals&63 == 0 {
		w.beat()
	}
}

func (w *Worker) EvalN(n int64) { w.evals += n; w.beat() }

func (w *Worker) beat() {
	if w.progress == nil {
		return
	}
	now := time.Now().UnixNano()
	if now-w.lastBeat < int64(time.Second) {
		return
	}
	w.lastBeat = now
	binary.LittleEndian.PutUint64(w.pbuf[:8], uint64(w.idx-1))
	binary.LittleEndian.PutUint64(w.pbuf[8:], uint64(now))
	_, _ = w.progress.WriteAt(w.pbuf[:], 0)
}

// Outcome records a canonical outcome/state string for the distinct count.
func (w *Worker) Outcome(s string) {
	h := fnv.New64a()
	_, _ = h.Write([]byte(s))
	w.OutcomeHash(h.Sum64())
}

func (w *Worker) OutcomeHash(h uint64) {
	if _, ok := w.hashes[h]; ok {
		return
	}
	if len(w.hashes) >= maxHashes {
		w.hashCap = true
		return
	}
	w.hashes[h] = struct{}{}
}

// Sample keeps the first few cases verbatim for the evidence file.
func (w *Worker) Sample(v any) {
	if len(w.samples) < maxSamples {
		w.samples = append(w.samples, v)
	}
}

func (w *Worker) WantSample() bool { return len(w.samples) < maxSamples }

// Note adds n to a named counter reported in the evidence.
func (w *Worker) Note(name string, n int64) { w.notes[name] += n }

func (w *Worker) NoteStr(name, v string) { w.strNotes[name] = v }

// Cap records that a bound/cap was hit (evidence: exhaustive=false).
func (w *Worker) Cap(what string) {
	for _, c := range w.capsHit {
		if c == what {
			return
		}
	}
	w.capsHit = append(w.capsHit, what)
}

// Expired reports whether the time budget is used up; enumeration loops poll
// it and stop cleanly.
func (w *Worker) Expired() bool {
	if w.expired {
		return true
	}
	if w.evals&0xff == 0 && time.Now().After(w.deadline) {
		w.expired = true
		w.Cap("time budget")
	}
	return w.expired
}

// Violate records a counterexample.
func (w *Worker) Violate(key, what string, c any) {
	v, ok := w.vios[key]
	if !ok {
		raw, err := json.Marshal(c)
		if err != nil {
			raw, _ = json.Marshal(fmt.Sprintf("%+v", c))
		}
		v = &Violation{Key: key, What: what, Case: raw}
		w.vios[key] = v
		w.vioOrder = append(w.vioOrder, key)
	}
	v.Count++
}

func (w *Worker) NumViolations() int { return len(w.vios) }

type workerResult struct {
	Evals    int64             `json:"evals"`
	Cases    int64             `json:"cases"`
	Hashes   []uint64          `json:"hashes"`
	HashCap  bool              `json:"hash_cap"`
	Samples  []any             `json:"samples"`
	Vios     []*Violation      `json:"vios"`
	Notes    map[string]int64  `json:"notes"`
	StrNotes map[string]string `json:"str_notes"`
	Caps     []string          `json:"caps"`
	Done     bool              `json:"done"`
}

func newWorker(c *Check, tier string, shard, n int, seed int64, budget time.Duration) *Worker {
	return &Worker{
		Shard: shard, NShards: n, Tier: tier, Seed: seed, Thorough: tier == "thorough",
		hashes: map[uint64]struct{}{}, vios: map[string]*Violation{}, notes: map[string]int64{},
		strNotes: map[string]string{},
		deadline: time.Now().Add(budget), replayIx: -1,
	}
}

func (w *Worker) result() *workerResult {
	r := &workerResult{Evals: w.evals, Cases: w.idx, HashCap: w.hashCap, Samples: w.samples,
		Notes: w.notes, StrNotes: w.strNotes, Caps: w.capsHit, Done: true}
	for h := range w.hashes {
		r.Hashes = append(r.Hashes, h)
	}
	for _, k := range w.vioOrder {
		r.Vios = append(r.Vios, w.vios[k])
	}
	return r
}

// WorkerMain is the entry point of a worker subprocess.
func WorkerMain(args []string) int {
	// args: id tier shard n seed budgetSeconds outfile progressfile [replayIndex]
	if len(args) < 8 {
		fmt.Fprintln(os.Stderr, "worker: bad args")
		return 2
	}
	c := Lookup(args[0])
	if c == nil {
		fmt.Fprintln(os.Stderr, "worker: unknown check", args[0])
		return 2
	}
	shard, _ := strconv.Atoi(args[2])
	n, _ := strconv.Atoi(args[3])
	seed, _ := strconv.ParseInt(args[4], 10, 64)
	bs, _ := strconv.ParseFloat(args[5], 64)
	w := newWorker(c, args[1], shard, n, seed, time.Duration(bs*float64(time.Second)))
	if pf, err := os.OpenFile(args[7], os.O_RDWR|os.O_CREATE, 0o644); err == nil {
		w.progress = pf
	}
	if len(args) > 8 {
		w.replayIx, _ = strconv.ParseInt(args[8], 10, 64)
	}
	c.Run(w)
	raw, err := json.Marshal(w.result())
	if err != nil {
		fmt.Fprintln(os.Stderr, "worker: marshal:", err)
		return 2
	}
	if err := os.WriteFile(args[6], raw, 0o644); err != nil {
		fmt.Fprintln(os.Stderr, "worker: write:", err)
		return 2
	}
	return 0
}

// KnownFinding is one entry of /verif/known_findings.json.
type KnownFinding struct {
	Property string `json:"property"`
	Key      string `json:"key"`
	Status   string `json:"status"` // "known" | "fixed"
	Commit   string `json:"commit,omitempty"`
	What     string `json:"what"`
}

func loadKnown() []KnownFinding {
	raw, err := os.ReadFile(filepath.Join(VerifDir, "known_findings.json"))
	if err != nil {
		return nil
	}
	var k []KnownFinding
	if err := json.Unmarshal(raw, &k); err != nil {
		fmt.Fprintln(os.Stderr, "known_findings.json:", err)
		return nil
	}
	return k
}

type crashInfo struct {
	Check string `json:"check"`
	Tier  string `json:"tier"`
	Shard int    `json:"shard"`
	N     int    `json:"nshards"`
	Index int64  `json:"index"`
	Kind  string `json:"kind"`
	Tail  string `json:"stderr_tail"`
}

// Main runs a check in the parent role. Returns the process exit code.
func Main(id, tier string) int {
	c := Lookup(id)
	if c == nil {
		fmt.Fprintf(os.Stderr, "unknown check %s (have %v)\n", id, IDs())
		return 2
	}
	if tier != "quick" && tier != "thorough" {
		tier = "quick"
	}
	seed := int64(0)
	if s := os.Getenv("VERIF_SEED"); s != "" {
		seed, _ = strconv.ParseInt(s, 10, 64)
	}
	budget := c.QuickBudget
	if tier == "thorough" {
		budget = c.ThoroughBudget
	}
	if budget == 0 {
		budget = 60 * time.Second
		if tier == "thorough" {
			budget = 15 * time.Minute
		}
	}
	if s := os.Getenv("VERIF_BUDGET_S"); s != "" {
		if f, err := strconv.ParseFloat(s, 64); err == nil {
			budget = time.Duration(f * float64(time.Second))
		}
	}
	n := c.Workers
	if n == 0 {
		n = 16
	}
	if c.Serial {
		n = 1
	}
	if s := os.Getenv("VERIF_WORKERS"); s != "" && !c.Serial {
		if k, err := strconv.Atoi(s); err == nil && k > 0 {
			n = k
		}
	}
	start := time.Now()
	tmp := filepath.Join(VerifDir, ".cache", "tmp", fmt.Sprintf("%s-%d", id, os.Getpid()))
	_ = os.MkdirAll(tmp, 0o755)
	defer os.RemoveAll(tmp)
	exe, _ := os.Executable()

	results := make([]*workerResult, n)
	crashes := make([]*crashInfo, n)
	var wg sync.WaitGroup
	for k := 0; k < n; k++ {
		wg.Add(1)
		go func(k int) {
			defer wg.Done()
			results[k], crashes[k] = runWorker(exe, c, tier, k, n, seed, budget, tmp, -1)
		}(k)
	}
	wg.Wait()

	// aggregate
	agg := &workerResult{Notes: map[string]int64{}, StrNotes: map[string]string{}}
	union := map[uint64]struct{}{}
	vios := map[string]*Violation{}
	var vioOrder []string
	exhaustive := true
	unreproduced := 0
	for k := 0; k < n; k++ {
		if cr := crashes[k]; cr != nil {
			exhaustive = false
			key := fmt.Sprintf("%s:worker-%s", id, cr.Kind)
			if v, done := vios[key]; done {
				// one reproduced crash of this kind is enough; the others are listed, not re-run (a hang costs minutes)
				v.Count++
				v.What += fmt.Sprintf("\nalso: worker %d %s at case index %d", k, cr.Kind, cr.Index)
				continue
			}
			if unreproduced >= 3 {
				agg.Caps = append(agg.Caps, "worker died, not re-run: "+cr.Kind)
				continue
			}
			// confirm by re-running the single index in a fresh worker
			confirmed := 0
			for t := 0; t < 2; t++ {
				_, cr2 := runWorker(exe, c, tier, k, n, seed, budget, tmp, cr.Index)
				if cr2 != nil {
					confirmed++
				}
			}
			if confirmed == 0 {
				unreproduced++
			}
			what := fmt.Sprintf("worker %s at case index %d (reproduced %d/2 in a fresh worker): %s", cr.Kind, cr.Index, confirmed, lastLines(cr.Tail, 3))
			if confirmed == 0 {
				// not reproducible on its own: report as harness trouble, not as a property violation
				fmt.Fprintf(os.Stderr, "HARNESS-WARNING: %s (not reproduced in isolation; not counted as a violation)\n", what)
				agg.Caps = append(agg.Caps, "worker died, not reproducible: "+cr.Kind)
				continue
			}
			raw, _ := json.Marshal(cr)
			vios[key] = &Violation{Key: key, What: what, Case: raw, Count: 1}
			vioOrder = append(vioOrder, key)
			continue
		}
		r := results[k]
		if r == nil {
			exhaustive = false
			continue
		}
		agg.Evals += r.Evals
		if r.Cases > agg.Cases {
			agg.Cases = r.Cases
		}
		if r.HashCap {
			agg.HashCap = true
		}
		for _, h := range r.Hashes {
			union[h] = struct{}{}
		}
		for _, s := range r.Samples {
			if len(agg.Samples) < maxSamples {
				agg.Samples = append(agg.Samples, s)
			}
		}
		for name, v := range r.Notes {
			agg.Notes[name] += v
		}
		for name, v := range r.StrNotes {
			agg.StrNotes[name] = v
		}
		for _, cp := range r.Caps {
			found := false
			for _, x := range agg.Caps {
				if x == cp {
					found = true
				}
			}
			if !found {
				agg.Caps = append(agg.Caps, cp)
			}
		}
		for _, v := range r.Vios {
			if ex, ok := vios[v.Key]; ok {
				ex.Count += v.Count
			} else {
				vios[v.Key] = v
				vioOrder = append(vioOrder, v.Key)
			}
		}
	}
	if len(agg.Caps) > 0 {
		exhaustive = false
	}
	sort.Strings(vioOrder)

	// classify violations against the known-findings file
	known := map[string]KnownFinding{}
	for _, k := range loadKnown() {
		if k.Property == id && k.Status == "known" {
			known[k.Key] = k
		}
	}
	exit := 0
	nvio := 0
	_ = os.MkdirAll(filepath.Join(VerifDir, "replays"), 0o755)
	var vioSumm []map[string]any
	for _, key := range vioOrder {
		v := vios[key]
		if kf, ok := known[key]; ok {
			fmt.Printf("KNOWN-FINDING: property=%s %s [%s] (%d cases this run)\n", id, kf.What, key, v.Count)
			vioSumm = append(vioSumm, map[string]any{"key": key, "known": true, "cases": v.Count})
			continue
		}
		nvio++
		exit = 1
		sum := sha1.Sum([]byte(key))
		path := filepath.Join(VerifDir, "replays", fmt.Sprintf("%s-%s.json", id, hex.EncodeToString(sum[:6])))
		rf := map[string]any{"property": id, "key": key, "what": v.What, "tier": tier, "case": v.Case}
		raw, _ := json.MarshalIndent(rf, "", " ")
		_ = os.WriteFile(path, raw, 0o644)
		fmt.Printf("VIOLATION property=%s replay=%s\n", id, path)
		fmt.Printf("  key=%s cases=%d\n  %s\n", key, v.Count, v.What)
		vioSumm = append(vioSumm, map[string]any{"key": key, "known": false, "cases": v.Count, "what": v.What})
	}

	wall := time.Since(start).Seconds()
	cov := map[string]any{
		"evaluations":                   agg.Evals,
		"cases_enumerated":              agg.Cases,
		"distinct_nontrivial":           len(union),
		"states":                        len(union),
		"transitions":                   agg.Evals,
		"traces_validated_against_impl": agg.Evals,
		"rule":                          c.Rule,
		"samples":                       agg.Samples,
		"exhaustive":                    exhaustive,
		"caps_hit":                      agg.Caps,
		"distinct_outcomes_capped":      agg.HashCap,
		"workers":                       n,
		"counters":                      agg.Notes,
		"info":                          agg.StrNotes,
		"violation_classes":             vioSumm,
	}
	if len(agg.Samples) == 0 {
		cov["samples"] = []any{"(no sample recorded)"}
	}
	ev := map[string]any{
		"property_id": id,
		"tier":        tier,
		"seed":        seed,
		"level":       c.Level,
		"coverage":    cov,
		"assumptions": c.Assumptions,
		"wall_s":      wall,
		"violations":  nvio,
	}
	_ = os.MkdirAll(filepath.Join(VerifDir, "evidence"), 0o755)
	raw, _ := json.MarshalIndent(ev, "", " ")
	if err := os.WriteFile(filepath.Join(VerifDir, "evidence", id+".json"), raw, 0o644); err != nil {
		fmt.Fprintln(os.Stderr, "evidence:", err)
	}
	fmt.Printf("%s %s: cases=%d executions=%d distinct_outcomes=%d exhaustive=%v caps=%v violations=%d wall=%.1fs\n",
		id, tier, agg.Cases, agg.Evals, len(union), exhaustive, agg.Caps, nvio, wall)
	if len(agg.Notes) > 0 {
		var ks []string
		for k := range agg.Notes {
			ks = append(ks, k)
		}
		sort.Strings(ks)
		var b strings.Builder
		for _, k := range ks {
			fmt.Fprintf(&b, " %s=%d", k, agg.Notes[k])
		}
		fmt.Printf("  counters:%s\n", b.String())
	}
	return exit
}

func lastLines(s string, n int) string {
	s = strings.TrimSpace(s)
	ls := strings.Split(s, "\n")
	if len(ls) > n {
		ls = ls[len(ls)-n:]
	}
	return strings.Join(ls, " | ")
}

func firstLines(s string, n int) string {
	ls := strings.Split(s, "\n")
	if len(ls) > n {
		ls = ls[:n]
	}
	return strings.Join(ls, "\n")
}

func runWorker(exe string, c *Check, tier string, k, n int, seed int64, budget time.Duration, tmp string, replayIx int64) (*workerResult, *crashInfo) {
	out := filepath.Join(tmp, fmt.Sprintf("res-%d-%d.json", k, replayIx))
	prog := filepath.Join(tmp, fmt.Sprintf("prog-%d-%d", k, replayIx))
	_ = os.Remove(out)
	_ = os.WriteFile(prog, make([]byte, 16), 0o644)
	args := []string{"worker", c.ID, tier, strconv.Itoa(k), strconv.Itoa(n), strconv.FormatInt(seed, 10),
		fmt.Sprintf("%f", budget.Seconds()), out, prog}
	if replayIx >= 0 {
		args = append(args, strconv.FormatInt(replayIx, 10))
	}
	// address-space limit: an input that makes the code under test allocate without bound
	// (the sandbox has no memory limit of its own) ends this worker, not the machine
	cmd := exec.Command("/bin/sh", append([]string{"-c", `ulimit -v 8388608 2>/dev/null; exec "$0" "$@"`, exe}, args...)...)
	var stderr bytes.Buffer
	cmd.Stderr = &tailWriter{buf: &stderr, max: 64 << 10}
	cmd.Stdout = os.Stderr
	cmd.Env = append(os.Environ(), "GOMAXPROCS=1", "GOGC=400", "TZ=UTC", "GOTRACEBACK=single")
	if err := cmd.Start(); err != nil {
		fmt.Fprintln(os.Stderr, "cannot start worker:", err)
		return nil, nil
	}
	done := make(chan error, 1)
	go func() { done <- cmd.Wait() }()
	// hang watchdog: generous, counted from the last progress update
	hangLimit := 180 * time.Second
	hardLimit := budget + 10*time.Minute
	started := time.Now()
	tick := time.NewTicker(2 * time.Second)
	defer tick.Stop()
	var werr error
	kind := ""
loop:
	for {
		select {
		case werr = <-done:
			break loop
		case <-tick.C:
			ix, ts := readProgress(prog)
			_ = ix
			last := started
			if ts > 0 {
				last = time.Unix(0, ts)
			}
			if time.Since(last) > hangLimit || time.Since(started) > hardLimit {
				_ = cmd.Process.Kill()
				werr = <-done
				kind = "hang"
				break loop
			}
		}
	}
	if kind == "" && werr == nil {
		raw, err := os.ReadFile(out)
		if err == nil {
			var r workerResult
			if json.Unmarshal(raw, &r) == nil && r.Done {
				return &r, nil
			}
		}
		kind = "no-result"
	}
	if kind == "" {
		kind = "death"
	}
	ix, _ := readProgress(prog)
	return nil, &crashInfo{Check: c.ID, Tier: tier, Shard: k, N: n, Index: ix, Kind: kind,
		Tail: firstLines(stderr.String(), 40)}
}

func readProgress(path string) (int64, int64) {
	raw, err := os.ReadFile(path)
	if err != nil || len(raw) < 16 {
		return 0, 0
	}
	return int64(binary.LittleEndian.Uint64(raw[:8])), int64(binary.LittleEndian.Uint64(raw[8:16]))
}

type tailWriter struct {
	buf *bytes.Buffer
	max int
}

func (t *tailWriter) Write(p []byte) (int, error) {
	if t.buf.Len() < t.max {
		t.buf.Write(p)
	}
	return len(p), nil
}

// ReplayMain replays a replay file. Exit 1 if the violation reproduces.
func ReplayMain(path string) int {
	raw, err := os.ReadFile(path)
	if err != nil {
		fmt.Fprintln(os.Stderr, err)
		return 2
	}
	var rf struct {
		Property string          `json:"property"`
		Key      string          `json:"key"`
		What     string          `json:"what"`
		Tier     string          `json:"tier"`
		Case     json.RawMessage `json:"case"`
	}
	if err := json.Unmarshal(raw, &rf); err != nil {
		fmt.Fprintln(os.Stderr, err)
		return 2
	}
	c := Lookup(rf.Property)
	if c == nil {
		fmt.Fprintln(os.Stderr, "unknown property", rf.Property)
		return 2
	}
	// crash replays re-run one index in a fresh worker
	var cr crashInfo
	if json.Unmarshal(rf.Case, &cr) == nil && cr.Check != "" && cr.Kind != "" {
		exe, _ := os.Executable()
		tmp := filepath.Join(VerifDir, ".cache", "tmp", fmt.Sprintf("replay-%d", os.Getpid()))
		_ = os.MkdirAll(tmp, 0o755)
		defer os.RemoveAll(tmp)
		_, cr2 := runWorker(exe, c, cr.Tier, cr.Shard, cr.N, 0, 10*time.Minute, tmp, cr.Index)
		if cr2 != nil {
			fmt.Printf("REPRODUCED property=%s key=%s: worker %s at index %d\n%s\n", rf.Property, rf.Key, cr2.Kind, cr2.Index, cr2.Tail)
			return 1
		}
		fmt.Printf("not reproduced: property=%s key=%s\n", rf.Property, rf.Key)
		return 0
	}
	if c.Replay == nil {
		fmt.Fprintln(os.Stderr, "check has no replay function")
		return 2
	}
	bad, detail := c.Replay(rf.Case)
	if bad {
		fmt.Printf("REPRODUCED property=%s key=%s\n%s\n", rf.Property, rf.Key, detail)
		return 1
	}
	fmt.Printf("not reproduced: property=%s key=%s\n%s\n", rf.Property, rf.Key, detail)
	return 0
}
