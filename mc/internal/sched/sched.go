// Package sched is the cooperative scheduler and DFS explorer (engine E4 of
// DESIGN.md): harness goroutines run one at a time; every hooked operation
// calls Point; the explorer replays a choice prefix, then takes the default
// choice (keep running the current thread) and recurses over the alternatives
// whose preemption cost stays within the bound.
package sched

import (
	"fmt"
	"runtime/debug"
)

// PointInfo describes one scheduling point of an execution.
type PointInfo struct {
	Running  int   // thread that reached the point (-1: a thread just finished)
	Enabled  []int // canonical order: the running thread first (if still enabled), then ascending ids
	Chosen   int   // index into Enabled
	Preempts int   // preemptions spent before this point
	Label    string
}

// Exec is the record of one execution.
type Exec struct {
	Points  []PointInfo
	Choices []int
	Panics  []string // per thread
	Diverge string   // non-empty: replaying the prefix did not fit (hard error)
	Deadlock string
}

type thread struct {
	id     int
	resume chan struct{}
	done   bool
}

// Sched runs one execution.
type Sched struct {
	threads []*thread
	cur     int
	prefix  []int
	exec    *Exec
	preempt int
	allDone chan struct{}
	// OnSwitch, if set, is called at every scheduling point before the choice (in the context of the running thread).
	OnSwitch func(running int, label string)
}

// Current is the scheduler of the execution in progress (nil outside).
var Current *Sched

// Self returns the id of the running thread (-1 outside an execution).
func Self() int {
	if Current == nil {
		return -1
	}
	return Current.cur
}

// Point is called by the running thread at every hooked operation.
func Point(label string) {
	s := Current
	if s == nil {
		return
	}
	s.point(label, false)
}

func (s *Sched) enabled(runningStill bool) []int {
	var en []int
	if runningStill {
		en = append(en, s.cur)
	}
	for _, t := range s.threads {
		if !t.done && !(runningStill && t.id == s.cur) {
			en = append(en, t.id)
		}
	}
	return en
}

func (s *Sched) point(label string, finishing bool) {
	if s.OnSwitch != nil {
		s.OnSwitch(s.cur, label)
	}
	me := s.cur
	en := s.enabled(!finishing)
	if len(en) == 0 {
		close(s.allDone)
		return
	}
	i := len(s.exec.Points)
	choice := 0
	if i < len(s.prefix) {
		choice = s.prefix[i]
		if choice < 0 || choice >= len(en) {
			s.exec.Diverge = fmt.Sprintf("point %d: prefix choice %d but %d threads enabled", i, choice, len(en))
			choice = 0
		}
	}
	running := me
	if finishing {
		running = -1
	}
	s.exec.Points = append(s.exec.Points, PointInfo{Running: running, Enabled: en, Chosen: choice, Preempts: s.preempt, Label: label})
	s.exec.Choices = append(s.exec.Choices, choice)
	next := en[choice]
	if !finishing && next != me {
		s.preempt++
	}
	if next == me {
		return
	}
	s.cur = next
	s.threads[next].resume <- struct{}{}
	if !finishing {
		<-s.threads[me].resume
	}
}

// Run executes the thread bodies under the choice prefix.
func Run(bodies []func(), prefix []int) *Exec {
	s := &Sched{prefix: prefix, exec: &Exec{Panics: make([]string, len(bodies))}, allDone: make(chan struct{})}
	for i := range bodies {
		s.threads = append(s.threads, &thread{id: i, resume: make(chan struct{})})
	}
	Current = s
	defer func() { Current = nil }()
	for i, b := range bodies {
		i, b := i, b
		go func() {
			<-s.threads[i].resume
			func() {
				defer func() {
					if r := recover(); r != nil {
						s.exec.Panics[i] = fmt.Sprintf("%v\n%s", r, debug.Stack())
					}
				}()
				b()
			}()
			s.threads[i].done = true
			s.point("thread-end", true)
		}()
	}
	s.cur = -1
	s.point("start", true) // which thread starts is a choice too
	<-s.allDone
	return s.exec
}

// Blocked is called by the running thread when it cannot proceed (a lock held
// by another thread): it is not enabled at this point. If no other thread is
// enabled the execution is deadlocked and the thread is aborted by a panic.
func Blocked(label string) {
	s := Current
	if s == nil {
		return
	}
	me := s.cur
	var en []int
	for _, t := range s.threads {
		if !t.done && t.id != me {
			en = append(en, t.id)
		}
	}
	if len(en) == 0 {
		s.exec.Deadlock = fmt.Sprintf("thread %d blocked at %s with no other thread enabled", me, label)
		panic("DEADLOCK: " + s.exec.Deadlock)
	}
	i := len(s.exec.Points)
	choice := 0
	if i < len(s.prefix) {
		choice = s.prefix[i]
		if choice < 0 || choice >= len(en) {
			s.exec.Diverge = fmt.Sprintf("point %d: prefix choice %d but %d threads enabled", i, choice, len(en))
			choice = 0
		}
	}
	s.exec.Points = append(s.exec.Points, PointInfo{Running: -1, Enabled: en, Chosen: choice, Preempts: s.preempt, Label: label})
	s.exec.Choices = append(s.exec.Choices, choice)
	next := en[choice]
	s.cur = next
	s.threads[next].resume <- struct{}{}
	<-s.threads[me].resume
}

// Explore runs every schedule within the preemption bound, calling visit for
// each execution. visit returns false to stop. Returns the number of
// executions and whether the exploration was stopped by the cap.
func Explore(mk func() []func(), bound int, maxExecs int, visit func(x *Exec) bool) (int, bool) {
	n := 0
	capped := false
	var rec func(prefix []int) bool
	rec = func(prefix []int) bool {
		if maxExecs > 0 && n >= maxExecs {
			capped = true
			return false
		}
		x := Run(mk(), prefix)
		n++
		if !visit(x) {
			return false
		}
		if x.Diverge != "" {
			return true
		}
		for i := len(prefix); i < len(x.Points); i++ {
			p := x.Points[i]
			for alt := 0; alt < len(p.Enabled); alt++ {
				if alt == p.Chosen {
					continue
				}
				cost := p.Preempts
				if p.Running >= 0 && p.Enabled[alt] != p.Running {
					cost++ // switching away from a runnable thread is a preemption
				}
				if cost > bound {
					continue
				}
				np := append(append([]int{}, x.Choices[:i]...), alt)
				if !rec(np) {
					return false
				}
			}
		}
		return true
	}
	rec(nil)
	return n, capped
}
