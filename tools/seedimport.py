#!/usr/bin/env python3
"""seedimport.py <Cxx> <i> [<j>]: copy a sub-agent's deliverable from /tmp/wt/<Cxx>-out/<i> into /verif/seeded/<Cxx>-<j>/ (j defaults to i)"""
import sys, os, re, shutil, glob
c, i = sys.argv[1], sys.argv[2]
j = sys.argv[3] if len(sys.argv) > 3 else i
src = f"/tmp/wt/{c}-out/{i}"
dst = f"/verif/seeded/{c}-{j}"
os.makedirs(dst, exist_ok=True)
shutil.copy(f"{src}/patch.diff", f"{dst}/patch.diff")
if os.path.exists(f"{src}/notes.md"):
    shutil.copy(f"{src}/notes.md", f"{dst}/notes.md")
pkgmap = {"parser": "pkg/parser", "funcs": "pkg/inimpl/guancecloud/funcs", "funcs_test": "pkg/inimpl/guancecloud/funcs", "runtime": "pkg/engine/runtime", "runtime_test": "pkg/engine/runtime",
          "runtimev2": "pkg/engine/runtimev2", "runtimev2_test": "pkg/engine/runtimev2", "engine": "pkg/engine", "engine_test": "pkg/engine", "input": "pkg/inimpl/guancecloud/input",
          "input_test": "pkg/inimpl/guancecloud/input", "token": "pkg/token", "errchain": "pkg/errchain", "ast": "pkg/ast", "run": "internal/cmd/platypus/run", "platypus": "internal/cmd/platypus",
          "parser_test": "pkg/parser", "token_test": "pkg/token", "errchain_test": "pkg/errchain", "ast_test": "pkg/ast"}
demos = glob.glob(f"{src}/*_test.go") + glob.glob(f"{src}/*.go")
done = False
for d in demos:
    txt = open(d).read()
    m = re.search(r"^package (\w+)", txt, re.M)
    if not m:
        continue
    pkg = m.group(1)
    if pkg == "main":
        shutil.copy(d, f"{dst}/demo_main.go")
        done = True
        break
    if pkg in pkgmap:
        shutil.copy(d, f"{dst}/demo_test.go")
        open(f"{dst}/demo_pkg", "w").write(pkgmap[pkg])
        done = True
        break
print(dst, "demo:", "ok" if done else "NOT FOUND", os.listdir(dst))
