#!/bin/bash
# seedtest.sh <seed-dir> [checks...]
# Applies <seed-dir>/patch.diff to /repo, confirms that the repository's own tests still pass and that the
# demonstration fails with the change and passes without it, runs the given checks (default: all) in the
# quick tier, and ALWAYS restores /repo. Prints one line per check: DETECTED / missed.
set -u
export GOFLAGS=-mod=mod GOPROXY=off GOSUMDB=off GOTOOLCHAIN=local
D=$(cd "$1" && pwd); shift
CHECKS=${*:-C01 C02 C03 C04 C05 C06 C07 C08 C09 C10 C11 C12 C13 C14 C15 C16 C17 C18 C19 C20}
restore() { git -C /repo checkout -- . ; git -C /repo clean -fdq -- . ; }
trap restore EXIT
if [ -n "$(git -C /repo status --porcelain)" ]; then echo "REFUSING: /repo is not clean"; exit 2; fi
DEMO_PKG=$(cat "$D/demo_pkg" 2>/dev/null || true)
rundemo() { # prints PASS or FAIL
  if [ -f "$D/demo_test.go" ] && [ -n "$DEMO_PKG" ]; then
    cp "$D/demo_test.go" "/repo/$DEMO_PKG/zz_seed_demo_test.go"
    if (cd /repo && timeout 300 go test $(cat "$D/demo_flags" 2>/dev/null) -vet=off -count=1 -run "$(cat "$D/demo_run" 2>/dev/null || echo .)" "./$DEMO_PKG/" >/tmp/seed_demo.log 2>&1); then echo PASS; else echo FAIL; fi
    rm -f "/repo/$DEMO_PKG/zz_seed_demo_test.go"
  elif [ -f "$D/demo_main.go" ]; then
    mkdir -p /repo/cmd/zzseeddemo && cp "$D/demo_main.go" /repo/cmd/zzseeddemo/main.go
    if (cd /repo && timeout 120 go run ./cmd/zzseeddemo >/tmp/seed_demo.log 2>&1); then echo PASS; else echo FAIL; fi
    rm -rf /repo/cmd/zzseeddemo
  elif [ -f "$D/demo.sh" ]; then
    if (cd /tmp && timeout 300 bash "$D/demo.sh" /repo >/tmp/seed_demo.log 2>&1); then echo PASS; else echo FAIL; fi
  else echo NODEMO; fi
}
echo "demo without change: $(rundemo)"
git -C /repo apply "$D/patch.diff" || { echo "PATCH DOES NOT APPLY"; exit 2; }
if (cd /repo && go build ./... && go test -vet=off -count=1 ./... >/tmp/seed_suite.log 2>&1); then echo "repo suite with change: PASS"; else echo "repo suite with change: FAIL"; tail -5 /tmp/seed_suite.log; fi
echo "demo with change: $(rundemo)"
for c in $CHECKS; do
  out=$(/verif/vcheck.sh $c quick 2>&1)
  if echo "$out" | grep -q "^VIOLATION"; then echo "$c DETECTED: $(echo "$out" | grep -m2 '  key=' | tr '\n' ' ')"; 
  elif echo "$out" | grep -q "BUILD-FAILED"; then echo "$c build-failed"; else echo "$c missed ($(echo "$out" | grep -m1 "^$c quick" | cut -c1-80))"; fi
done
