#!/bin/bash
# altenv.sh: (re)create a scratch copy of /repo and /verif under $ALT so that seeded changes can be
# tested there while /verif is being edited. Remove $ALT when done.
set -e
ALT=${ALT:-/root/alt}
mkdir -p $ALT
if [ ! -d $ALT/repo/.git ]; then git clone -q /repo $ALT/repo; fi
git -C $ALT/repo checkout -q -- . ; git -C $ALT/repo clean -fdq ; git -C $ALT/repo pull -q 2>/dev/null || true
rsync -a --delete --exclude .cache --exclude .git --exclude replays --exclude evidence /verif/ $ALT/verif/
cd $ALT/verif
sed -i "s#/repo#$ALT/repo#g" vcheck.sh mc/go.mod mc/cmd/mkoverlay/main.go tools/seedtest.sh
sed -i "s#/verif/vcheck.sh#$ALT/verif/vcheck.sh#; s#/tmp/seed_#/tmp/$(basename $ALT)seed_#g" tools/seedtest.sh
mkdir -p replays evidence
echo "alt environment ready: $ALT/verif (repo $(git -C $ALT/repo rev-parse --short HEAD))"
