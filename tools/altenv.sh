#!/bin/bash
# altenv.sh: (re)create a scratch copy of /repo and /verif under /root/alt so that seeded changes can be
# tested there while /verif is being edited. Remove /root/alt when done.
set -e
mkdir -p /root/alt
if [ ! -d /root/alt/repo/.git ]; then git clone -q /repo /root/alt/repo; fi
git -C /root/alt/repo checkout -q -- . ; git -C /root/alt/repo clean -fdq ; git -C /root/alt/repo pull -q 2>/dev/null || true
rsync -a --delete --exclude .cache --exclude .git --exclude replays --exclude evidence /verif/ /root/alt/verif/
cd /root/alt/verif
sed -i 's#/repo#/root/alt/repo#g' vcheck.sh mc/go.mod mc/cmd/mkoverlay/main.go tools/seedtest.sh
sed -i 's#/verif/vcheck.sh#/root/alt/verif/vcheck.sh#; s#/tmp/seed_#/tmp/altseed_#g' tools/seedtest.sh
mkdir -p replays evidence
echo "alt environment ready: /root/alt/verif (repo $(git -C /root/alt/repo rev-parse --short HEAD))"
