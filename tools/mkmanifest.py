#!/usr/bin/env python3
"""Regenerates /verif/MANIFEST.json from the table below (kept valid at all times)."""
import json

CLAIMS = {
 "C15": dict(cat="model_checking", design="6 C15",
  text="All operation histories of length <=3 (quick) / <=4 (thorough) over 36 load/run/cancel operations (incl. a script loaded by one operation, held and run by a later one) are executed on the real code built with a sync.Pool shim in which the answer of EVERY pool Get (parser, task, point, metadata pools) is an explorer choice: the default LIFO reuse, then every deviation (any other pooled object or a fresh one) at every Get, up to 2 deviations per history — about 3.4 million executions in the quick tier. The last operation's outcome must equal the outcome of the same operation executed first with empty pools; loaded scripts are shared across all histories.",
  note="Assumes pools and loaded syntax trees are the only state surviving an operation (package-level variables are covered by C16's shared-state hash). Real sync.Pool may also drop objects at GC, which is the 'fresh' answer.",
  tech="explicit-state search over operation histories with exhaustively enumerated pool answers (deviation-bounded) on the real code"),
 "C16": dict(cat="model_checking", design="6 C16",
  text="(1) Shared-write freedom, exhaustive over the operation alphabet: the deep hash of the loaded scripts and of every package-level variable of the 9 repo packages must not change across any operation (first execution in a fresh process, alone, and in every ordered pair) unless it took a lock. (2) Controlled scheduler over the pool shim: all 55 pairs with <=2 preemptions and all 220 triples with <=1 (thorough 3/2) at every pool/lock/atomic operation and once more right after every Pool.Put (what a caller does with an object it has released is a segment of its own), about 127000 schedules quick; per schedule: results equal the alone-run, no panic/deadlock, pool ownership discipline, shared hash unchanged. (3) A separate free-running -race pass over all pairs, triples and 8/16-thread fan-outs, explicitly non-exhaustive.",
  note="Data-race freedom in the memory-model sense leans on (1) plus the race-detector pass; (1) cannot see a store that writes the value already there after the first execution. Scheduling points are pool/lock operations only, justified by (1).",
  tech="stateless exploration under a cooperative scheduler (preemption-bounded DFS) + exhaustive shared-state invariant; complementary race-detector sampling"),
 "C09": dict(cat="model_checking", design="6 C09",
  text="All script sets of 1..3 scripts over 37 variants each (valid with <=2 ordered use targets incl. a missing name, unparsable, check-failing) under ALL parse orders x ALL link orders of the loader's two map iterations, and 4-script sets (<=1 use each quick, all 37^4 thorough) under all 24 link orders — 6.8 million fresh ParseScript runs in the quick tier. The real driver is used unchanged except that its two range statements iterate a harness-chosen order (build-time overlay generated from the current sources). Verdicts must equal graph reachability (hence be order-independent), use calls must be bound to the accepted script objects, and error chains must be root cause + call sites with every entry inside the file it names. The unmodified map order is run 8x on a third of the 3-script sets to tie the seam to the real driver. Script names that are arbitrary strings (empty, per-cent signs, blanks, dots, non-ASCII) are run in pairs, cycles and self-uses.",
  note="If the overlay pattern no longer matches (refactored loader) the check says so and reports exhaustive:false. Names are opaque to the linker except through map order, which is controlled.",
  tech="exhaustive enumeration of configurations x visit orders (controlled map iteration through a build overlay) on the real loader vs graph-reachability reference"),
 "C11": dict(cat="model_checking", design="6 C11",
  text="54 call templates of the 15 field-manipulating builtins x 6 key spellings x 15 subject situations (variable / field / tag / variable shadowing either / absent / five in which a variable of that name has ceased to exist / another value in every round / key read and then renamed away or dropped) x 33 subject values x 3 base points are run on the real engine and on reference builtins; the WHOLE canonical final point (so every other key is checked untouched), captured standard output, return values and read-backs and the error flag must agree. Complete product, about 360000 executions.",
  note="strings, regexp, net/url, fmt, encoding/json and spf13/cast are shared trusted base. Unspecified cells (cast of collections or non-numeric strings, rename onto an existing key, ...) are skipped and counted.",
  tech="bounded-exhaustive enumeration of builtin call shapes x subject situations x values on the real engine vs reference builtins"),
 "C12": dict(cat="model_checking", design="6 C12",
  text="Every placement of up to 3 add_pattern definitions and a grok use over the 8 slots of a 3-level block skeleton (45000 programs: load verdict and captures), 14 patterns x trim_space x situations x values, default_time over all documented layouts and 21 zone arguments, datetime over formats x precisions x epochs, xml over documents x XPath queries x destination spellings, sql_cover over SQL-like strings; final point incl. time, grok's return value and the load verdict are compared with a reference that calls the same third-party engines directly but implements scoping, typing, destinations and failure handling itself.",
  note="The engines (grok, xmlquery, dateparse, time, obfuscate) are trusted. Zone labels are checked against fixed offsets only where the zone has no DST ambiguity at the test date.",
  tech="bounded-exhaustive enumeration of pattern placements / inputs on the real engine vs reference plumbing around trusted engines"),
 "C20": dict(cat="model_checking", design="6 C20",
  text="Every script of <=2 (thorough <=3) statements over 31 statement kinds x 16 inputs x {workspace, single file} x {json, lineprotocol} x {run, check-only} is executed through the real binary built from the current tree; stdout is parsed back and compared field by field with the same script and input run through the library API; errors must be reported without an output block. Quick: every script with a rotating 1/5 (one statement) or 1/41 (two statements) of the grid (about 2800 invocations), the workspace given in four spellings; thorough: the full grid.",
  note="The influx line-protocol codec is trusted. Text input's default measurement name is pinned; wall-clock times are accepted within the invocation bracket.",
  tech="bounded-exhaustive enumeration of scripts x inputs x configurations through the real CLI binary vs the library API"),
 "C10": dict(cat="model_checking", design="6 C10",
  text="Explicit-state breadth-first search over real input.Point values (including the private key index): 4 initial points x 146 builtin events (add, overwrite with 7 value kinds, move to tag, drop, rename over all ordered key pairs, cast, delete-on-set-measurement, default_time, grok captures) to depth 3 (quick) / 4 (thorough) with de-duplication, every transition executed by the real engine on a deep clone; in every one of ~247000 distinct states seven invariants are evaluated (read-back of every output key through Point.Get and a script, tag/field exclusivity, field types, no phantom reads, droppable/renamable look-ahead) and the state is compared with a reference point model.",
  note="De-duplication is per worker below level 1. The reference stops tracking after an unspecified cell (rename onto an existing key); the invariants are still checked there.",
  tech="explicit-state BFS over the real transition function with invariants in every state and a reference-model differential"),
 "C18": dict(cat="model_checking", design="6 C18",
  text="On the real v2 interpreter with probe functions returning zero, one and two values: every one of 52 value positions x 7 no-value constructs x 10 preceding statements (a stale register is distinguishable by construction), every tuple assignment of up to 3 targets and sources, the whole C02 operator table and probed trees, the C04 slice table, index paths and aliasing sequences and every control-flow program of size <=3 are compared with the reference interpreter in its v2 dialect; where the reference leaves a cell open, v2 must still coincide with v1 on the same program. About 2 million programs in the quick tier, enumerated completely.",
  note="Functions are assumed to declare their return values in FnDesc.Returns. v1 is not run side by side; both are compared against the same reference in their own checks.",
  tech="bounded-exhaustive program enumeration on the real v2 interpreter vs reference interpreter (v2 dialect)"),
 "C08": dict(cat="model_checking", design="6 C08",
  text="120 syntactic positions (every slice bound in every form, every index level, both sides of all assignment kinds, every for clause, named/positional arguments at depth, map keys, deep blocks, ...) x 444 offenders (unknown function, every wrong arity 0..4 and every forbidden argument kind of each of 22 builtins) are loaded through the real check pass; v2 gets unknown functions and every unbindable call shape; break/continue in 12 placements on both passes; 44 reduced function tables. Rejected iff an offender is present, the first error position must lie inside the offender, and every valid call of every builtin must load in every position.",
  note="The per-builtin rules come from a reference table written from the function documentation and checkers (DESIGN.md appendix A). One offender per program.",
  tech="bounded-exhaustive enumeration of (syntactic position x offender x function table) on the real loaders with a rejected-iff-offender oracle"),
 "C05": dict(cat="model_checking", design="6 C05",
  text="Every byte string up to length 4 (quick) / 5 (thorough) over a 35-byte alphabet with one byte per lexer branch, every sequence of up to 3/4 tokens from a 56-token alphabet, every single (thorough: double) token mutation of 31 valid programs and deep nestings are parsed by the real parser; each must end with a tree xor an error naming the script with an offset inside the source and consistent line/column, and the exported lexer's items must tile the source. 1.7 million texts in the quick tier, enumerated completely.",
  note="Texts longer than the bound are only reached through the token and mutation alphabets. Termination is observed through the worker progress slot.",
  tech="bounded-exhaustive enumeration of input texts through the real lexer and parser with a contract oracle"),
 "C07": dict(cat="model_checking", design="6 C07",
  text="Every string body up to length 5 (quick) / 6 (thorough) over 16 symbols (quotes, backslash, newline, NUL, a multi-byte rune, all escape letters and digits) in each of the 5 quote styles, all integers at power-of-two and decimal-digit boundaries in decimal and hex with 8 sign prefixes, all float spellings with <=3 digits over the whole exponent range plus round-trip spellings of +-2^k and neighbours, malformed numbers and all letter-case variants of the keywords are parsed; the literal node must hold exactly the value a reference decoder (Go escape rules) assigns, or the text must be rejected iff malformed. 5.8 million literals in the quick tier.",
  note="strconv.ParseFloat is trusted arithmetic. Unspecified cells (listed in the evidence assumptions) are skipped and counted.",
  tech="bounded-exhaustive enumeration of literal spellings through the real parser vs reference decoder"),
 "C06": dict(cat="model_checking", design="6 C06",
  text="All operator pairs and triples in all shapes, all unary placements, all pairs of 47 primary-expression forms under every operator and every statement form are printed with the minimal parentheses of the documented table, with every choice of <=2 redundant parentheses and <=2 layout insertions (space, tab, newline, blank line, comment) at the grammar's admissible sites, and parsed by the real parser; the parsed tree, converted to the generator's own tree type, must equal the generated tree. 1.7 million texts in the quick tier, enumerated completely.",
  note="Reference precedence = documented table extended with unary and `in` as gram.y and the IDE grammar agree. Layout sites are exactly those the statement names.",
  tech="bounded-exhaustive enumeration of syntax trees x parenthesisations x layouts through the real parser (round-trip oracle)"),
 "C17": dict(cat="model_checking", design="6 C17",
  text="Every position field of every node kind over the C06 generator (with layout variants and a multi-byte first line) is compared with the printer's token offset and an independent line/column scan; the two lookup routines are compared on all 9841 texts <=8 over {a, newline, e-acute} at every offset; 31 run-time faults x 16 roles x 4 nesting places must report script name, an offset inside the failing statement and consistent line/column; all error chains of length 1..4 are checked for rendering, JSON round trip and copy isolation.",
  note="Load-time error positions are decided in C08 with the same oracle. Columns are byte columns as the statement says.",
  tech="bounded-exhaustive enumeration of programs/texts/offsets/chains on the real parser and error types with an offset oracle from the printer"),
 "C03": dict(cat="model_checking", design="6 C03",
  text="All pairs of 26 truthiness-class representatives in if/elif/else and as loop conditions, 17 iterables x 4 loop-variable names x 9 bodies, and every program of total size <=3 (quick) / <=4 (thorough) statements over the statement grammar (the 8 for shapes, for-in, break/continue, assignments to new, outer and shadowing names) are run on the real interpreter and on the reference interpreter; the ordered probe trace and the final point must agree. The families are indexable and enumerated completely.",
  note="Non-terminating programs are cut by a signal and compared as trace prefixes. Map iteration order is tried both ways for 2-key maps; larger maps are not generated.",
  tech="bounded-exhaustive program enumeration (indexable families by size) on the real interpreter vs reference interpreter"),
 "C13": dict(cat="model_checking", design="6 C13",
  text="All reachable combinations of script bodies a.p/b.p/c.p up to 3/2/1 (thorough 3/3/2) statements over {assign, probe, add_key, exit, raise, use} with optional if/for-in wrappers, same names on every side, are loaded and run on the real engine and on the reference (fresh scope per callee, shared point, exit local, error chain = failing statement then use sites outward); trace, point, error flag and the whole position chain are compared.",
  note="Depth of the call tree is 3; the error-raising statement is one fixed ill-typed division.",
  tech="bounded-exhaustive enumeration of script sets (call trees) on the real engine vs reference interpreter"),
 "C14": dict(cat="fault_enumeration", design="6 C14",
  text="For every loop-bearing program of the bound (and nested empty infinite loops, also inside use()d scripts) on both interpreters, the exit signal is made to fire first at EVERY poll index k = 1..N; each interrupted run must return nil with exactly the point and probe-trace prefix the uninterrupted run had at poll k. This enumerates all fault points of the only environment answer the library asks for. Second part (instrumented build, every wait for a lock is reported by the sync shim): run A of a loaded script is suspended inside its poll j, run B of the same loaded script runs with its signal true from poll k on, for every (j, k): B returns by its own steps — it never waits for a lock held across A's poll — with the result it has alone, then A finishes as the prefix-at-j run; control passes by channel hand-off only, so every execution is deterministic.",
  note="Horizon 40 (quick) / 200 (thorough) polls for non-terminating programs. A run that does not return 20 s after being told to stop is re-run and then reported (the only wall-clock decision).",
  tech="exhaustive fault-point enumeration (every poll index of the cancellation signal; every pair of suspension point of one run and signal point of a second run) on the real interpreters with a prefix oracle"),
 "C01": dict(cat="model_checking", design="6 C01",
  text="About 7 million load-accepted programs (every expression form x 25 syntactic roles, every builtin x every argument list its real checker accepts) are each run on 4 input points on the real interpreter with panics recovered and fatal worker deaths detected; the oracle is exactly the property: control returns, with success or an error that names the script and carries a position. The enumeration is complete for the stated alphabet, so a crashing cell of the (form, operand type, point) space cannot be missed.",
  note="Alphabet: 31 atoms, 14 index keys, 14 slice bounds, 55 argument candidates; deeper nesting only in the thorough tier. Go runtime fatal errors are detected by worker death, not recovered.",
  tech="bounded-exhaustive program x input enumeration on the real interpreter with a crash oracle"),
 "C04": dict(cat="model_checking", design="6 C04",
  text="The complete (length, start, end, step) slice table incl. +-2^63 extremes, every index read/write path of depth <=3 over nested shapes x 22 keys, and every sequence of <=4 aliasing/mutation/snapshot operations are executed on the real interpreter and compared with a reference implementing Python slice semantics, shared references and add_key snapshots; exhaustive within those bounds.",
  note="Strings are ASCII in the exact table; non-ASCII strings use a byte-or-rune disjunctive oracle. encoding/json is trusted for snapshot text.",
  tech="bounded-exhaustive program enumeration on the real interpreter vs reference interpreter (differential, complete within bound)"),
 "C19": dict(cat="model_checking", design="6 C19",
  text="Complete enumeration (not sampling) of all 194481 parameter lists of length 0..4 and of all 325 valid lists x 9331 call shapes (shapes of <=3 arguments also nested in 5 expression and 19 statement contexts) through the real CheckFnParamDef / ParseV2 / Run, each compared with a 60-line reference binder; this is exactly the quantifier of the property, so within that alphabet the result is a full decision.",
  note="Trusts the Go toolchain; assumes a function's checker calls CheckPassParam and its body uses GetParam*. Names outside {a,b,c,e,1x,\"\",zz} and lists longer than 4 are not covered.",
  tech="bounded-exhaustive enumeration of configurations x call shapes on the real code vs reference binder (explicit-state, complete within bound)"),
 "C02": dict(cat="model_checking", design="6 C02",
  text="Every cell of the operator table (22 operators x 31x31 operand values x 3 operand sources) and every expression tree with up to 2 (quick) / 3 (thorough) operators with probed leaves is executed on the real interpreter and on an independent reference interpreter; value, Go type, error/no error, evaluation order and exactly-once evaluation are compared. The space is enumerated completely, so a wrong cell cannot hide.",
  note="Reference semantics = language reference + pinned cells listed in DESIGN.md section 5; unspecified cells are skipped and counted in the evidence. Operand values outside the 31-value set are not covered.",
  tech="bounded-exhaustive program enumeration on the real interpreter vs reference interpreter (differential, complete within bound)"),
}

def main():
    props=[json.loads(l) for l in open('/verif/properties.jsonl')]
    m={
     "version":1,
     "setup_cmd":"./vcheck.sh build",
     "hooks":{"guard":"verif","enable":"go build -tags verif -overlay <generated by mc/overlay from the current /repo sources> (no hook is committed to /repo; see DESIGN.md section 7)",
       "baseline_off_cmd":"cd /repo && GOFLAGS=-mod=mod go test -vet=off -count=1 ./...","source_commits":[],"add_only":True},
     "engines":[{"name":"vcheck","path":"mc/cmd/vcheck","serves_properties":sorted(x for x in CLAIMS if x not in ("C09","C14","C15","C16")),"kind_free_text":"bounded-exhaustive enumeration of inputs/programs/histories on the real code (plain build) against a Go reference model; explicit-state search; workers sharded over 16 processes"},
       {"name":"vcheck-inst","path":"mc/cmd/vcheck (built with -tags verif -overlay from mc/cmd/mkoverlay)","serves_properties":sorted(x for x in CLAIMS if x in ("C09","C14","C15","C16")),"kind_free_text":"same binary built with a generated overlay: controlled map iteration in the loader, sync.Pool shim with harness-chosen answers and scheduling points, sync/atomic shim, time.AfterFunc seam, pool accessors; cooperative scheduler / DFS explorer"}],
     "checks":[],
     "not_applicable":[]
    }
    for p in props:
        i=p['id']
        if i in CLAIMS:
            c=CLAIMS[i]
            m["checks"].append({"property_id":i,"quick_cmd":f"./vcheck.sh {i} quick","thorough_cmd":f"./vcheck.sh {i} thorough","evidence_file":f"evidence/{i}.json",
              "replay_cmd_template":"./vcheck.sh replay {path}","engine":"vcheck-inst" if i in ("C09","C14","C15","C16") else "vcheck",
              "level_claimed":{"category":c["cat"],"text":c["text"],"design_ref":c["design"]},"level_note":c["note"],"technique":c["tech"]})
        else:
            m["not_applicable"].append({"property_id":i,"reason":"check not built yet (work in progress, see DESIGN.md section 11)"})
    json.dump(m,open('/verif/MANIFEST.json','w'),indent=1)
    print("claimed:",sorted(CLAIMS))

main()
