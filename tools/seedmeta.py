#!/usr/bin/env python3
"""Writes /verif/seeded/<id>/meta.json from the table below (what each seeded change is, what it needs, what was run)."""
import json, os
T = {
 "C01-1": ("C01", "rename onto an existing same-kind key keeps the destination's old type tag", "rename(a, b) with a an existing string field and b an int/float/bool field, then len(a) or a[i:j]: unchecked type assertion panics", ["C01","C10"], "missed by C01 at first (single statements only); C01 now enumerates mutator;reader pairs"),
 "C01-2": ("C01", "step-1 fast path in string slices tests emptiness before clamping the end bound", "string slice with step 1, start > len(s), end > start, e.g. \"hello\"[7:9]", ["C01"], ""),
 "C02-1": ("C02", "ordering comparisons computed through the sign of l - r (both interpreters)", "integer operands at least 2^63 apart, or two same-signed infinities", ["C02"], ""),
 "C02-2": ("C02", "`in` evaluates its right operand first (both interpreters)", "both operands observable: probed leaves / two different errors", ["C02"], "caught by the probed-leaf trees (evaluation order)"),
 "C03-1": ("C03", "assigning nil deletes the variable instead of binding nil", "x = nil while the point has a key x, or assignment from a nested block after x = nil", ["C03","C11","C18"], ""),
 "C03-2": ("C03", "for-in over a string iterates bytes, not characters (both interpreters)", "a string with a non-ASCII character as iterable", ["C03"], ""),
 "C04-1": ("C04", "string slices pre-size a byte buffer from the raw bounds", "a string slice with a bound near +-2^63", ["C04"], ""),
 "C04-2": ("C04", "constant list literals folded at check time and handed out as a shallow copy", "a nested constant literal evaluated twice (loop or second run of the loaded script) with a write into an inner list in between", ["C04","C15","C16"], "missed at first; C04 now re-evaluates literals in loops and re-runs the loaded script, C15/C16 operations mutate nested literals"),
 "C05-1": ("C05", "parser reset moved to release time, `injecting` flag no longer cleared", "a parse that panics in an action exactly at EOF, then any other parse reusing the pooled parser", ["C05"], ""),
 "C05-2": ("C05", "a scanner error at a statement boundary is taken as end of input", "lexical error right after a complete statement, e.g. `a = 1)` or a later unterminated string", ["C05"], "missed at first; C05 now requires a complete tree (covers the last token) and rejection whenever the lexer reports an error"),
 "C06-1": ("C06", "an empty comment `#` swallows the following line", "a comment consisting of `#` immediately followed by newline or end of input", ["C06","C05"], "missed at first; empty comments added to the layout alphabets"),
 "C06-2": ("C06", "one slipped argument order in the reordered newSliceExpr call of one grammar action", "the form [start::step] on a non-identifier object", ["C06"], ""),
 "C07-1": ("C07", "utf8.AppendRune replaces the byte/rune distinction in Unquote", "\\xHH or \\ooo escapes with value >= 0x80", ["C07"], ""),
 "C07-2": ("C07", "number literals containing e/E skip ParseInt", "a hexadecimal integer with an e digit, e.g. 0x3e8", ["C07"], ""),
 "C08-1": ("C08", "empty-body fast path in the for check leaves a stale loop entry", "an empty-bodied three-clause for followed later by a stray break/continue", ["C08"], "missed at first; C08 now places break/continue after every loop form with empty and non-empty bodies"),
 "C08-2": ("C08", "v2 duplicate detection only among named arguments", "a call mixing positional and named arguments where the name hits a positionally filled parameter", ["C08","C19"], "missed by C08 at first (caught by C19); the v2 offender list now has positional+named duplicates"),
 "C09-1": ("C09", "deferred Pop registered after the already-linked early return", "a script reached twice + a visit order in which the shared callee was linked first", ["C09"], ""),
 "C09-2": ("C09", "PlError.Copy becomes a shallow copy", "a root-cause error whose chain has spare capacity and at least two dependants", ["C09","C17"], "missed by C09 at first (caught by C17's chain isolation); C09 now has a check-failing variant with a multi-entry chain"),
 "C10-1": ("C10", "SetTag returns early when the value has no string form", "set_tag(k, a.b) (attribute expression = no value) on a field or fresh key", ["C10"], "missed at first; C10 events now include values without a string form"),
 "C10-2": ("C10", "rename onto an existing same-kind key keeps the destination's index entry", "add_key(n, nil); rename(n, a) and similar: types of source and destination differ", ["C10"], ""),
 "C11-1": ("C11", "load_json uses a streaming decoder and ignores trailing text", "invalid JSON that starts with a complete value: {\"a\":1}} or 12abc", ["C11","C04"], "missed by C11 at first (caught by C04's JSON texts); C11 subject values now include JSON with trailing text"),
 "C11-2": ("C11", "`_` fast path reads the point's message, ignoring a variable named message", "a variable message (or _) assigned first, then a builtin called with the `_` spelling", ["C11"], ""),
 "C12-1": ("C12", "grok compile cache keyed by pattern text that ignores enclosing-block add_pattern scopes", "the same grok text checked under different visible pattern sets, add_pattern in an outer frame", ["C12"], ""),
 "C12-2": ("C12", "every zone string resolved through the offset/alias table (UTC -> Europe/London, CST -> Asia/Shanghai)", "zone argument UTC with a summer timestamp, or CST", ["C12"], "missed at first (UTC was listed as unspecified); UTC is now decided as the IANA zone and summer / DST-switch dates were added"),
 "C13-1": ("C13", "pooled task keeps its root variable frame", "a run-time error leaving an if/for body in a script that assigned a variable, then a later run whose script reads that name", ["C13"], ""),
 "C13-2": ("C13", "CallRef de-duplicated per script name, later call sites stay unbound", "the same callee used from two call sites and a run taking the second", ["C13"], ""),
 "C14-1": ("C14", "scripts reached through use() no longer receive the signal", "signal first true while control is inside a use()d script", ["C14"], ""),
 "C14-2": ("C14", "v2 for loop merges break/continue/exit checks into one if/else-if chain", "v2 three-clause for whose body executes continue, signal first true at the poll after the continue", ["C14"], ""),
 "C15-1": ("C15", "pooled v1 task keeps its root stack frame (StackClear instead of zeroing)", "a run that assigns top-level variables and fails inside an if/for body, then a run on the recycled task reading one of those names unbound", ["C15","C13"], ""),
 "C15-2": ("C15", "process-wide cache of compiled grok expressions keyed by pattern text with a current-frame-only guard", "a grok inside a nested block under an outer add_pattern redefining a global pattern name, and another script with the identical expression text loaded in the same process", ["C15","C12"], "missed at first: baselines were computed in the same process, after other operations had filled the cache; baselines now come from fresh subprocesses and load-and-run operations were added"),
 "C16-1": ("C16", "parse cache keyed by source text shares AST nodes between separate loads", "a loaded script with use() kept running while another set is loaded in which one file has the same text but the used script differs", ["C16","C15"], "C16: race-detector pass (engine.dfs writes PrivateData of shared nodes) via the new load(other set) operation; C15: run of a loaded script after loading another deployment with the same entry text"),
 "C16-2": ("C16", "replace() memoises its compiled regexp in the shared CallExpr at run time", "first executions of a freshly loaded script by two goroutines at once (values never differ)", ["C16"], "caught by the shared-write invariant (first execution of run(all.p) changes script:all.p); the demonstration needs go test -race"),
 "C17-1": ("C17", "PlError.Copy becomes a shallow copy", "a stored error whose chain has spare capacity, appended to from two copies", ["C17","C09"], ""),
 "C17-2": ("C17", "columns counted in characters instead of bytes (both lookup routines alike)", "a multi-byte rune earlier on the same line", ["C17"], "caught by the independent byte-column scan; the two routines still agree with each other"),
 "C18-1": ("C18", "tuple assignment keeps the register slice of a multi-value call instead of copying it", "a multi-assignment whose first right-hand expression is a multi-value call followed by another expression", ["C18"], ""),
 "C18-2": ("C18", "short-circuit test folded into one condition that also fires for comparison operators", "a comparison whose left operand is the boolean false", ["C18"], ""),
 "C19-1": ("C19", "missing-required scan only when the call has fewer arguments than required parameters", "named arguments to optional parameters while a required one is omitted: f(b=2) against (a, b=10, c=20)", ["C19"], ""),
 "C19-2": ("C19", "variadic-must-be-last hoisted out of the loop, only-one-variadic branch deleted", "a parameter list with two or more variadic parameters ending in a variadic one", ["C19"], ""),
 "C20-1": ("C20", "-w \"\" resolved through filepath.Abs: single-file mode silently becomes workspace mode", "single-file mode with a script that use()s a sibling present in the same directory", ["C20"], ""),
 "C20-2": ("C20", "line-protocol input cut at the first newline before parsing", "input whose first point is not entirely on the first line: leading comment/blank line, or a newline inside a string field", ["C20"], "missed at first; inputs with a leading comment and with a newline inside a string field were added"),
}
for sid, (prop, what, needs, detected, hist) in T.items():
    d = f"/verif/seeded/{sid}"
    if not os.path.isdir(d):
        continue
    meta = {"id": sid, "breaks_property": prop, "change": what, "needs_to_manifest": needs,
            "origin": "written by a sub-agent that saw only the property text and a scratch worktree of /repo",
            "confirmed": "tools/seedtest.sh: demonstration passes without the change; with the change the repository's own suite passes and the demonstration fails; checks run in the quick tier against /repo with the change applied, /repo restored afterwards",
            "detected_by": detected, "history": hist,
            "files": sorted(os.listdir(d))}
    json.dump(meta, open(f"{d}/meta.json", "w"), indent=1)
print("meta written for", len(T))
