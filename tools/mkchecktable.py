#!/usr/bin/env python3
"""Rewrites the measured-size table (I.4b) of DESIGN.md from /verif/evidence/*.json."""
import json, glob
rows=[]
for f in sorted(glob.glob('/verif/evidence/C*.json')):
    e=json.load(open(f)); c=e['coverage']
    rows.append("| %s | %s | %s | %s | %s | %s | %.0f s |" % (e['property_id'], e['tier'], f"{c.get('cases_enumerated',0):,}", f"{c.get('transitions',0):,}", f"{c.get('states',0):,}" + ("+" if c.get('distinct_outcomes_capped') else ""), "yes" if c.get('exhaustive') else "no: "+"; ".join(c.get('caps_hit') or []), e['wall_s']))
txt = "### I.4b Measured (generated from the committed evidence files)\n\n`+` = the per-worker cap of remembered distinct outcomes was reached (the count is a lower bound).\n\n| id | tier | cases enumerated | executions of real code | distinct outcomes / states | exhaustive within bound | wall |\n|---|---|---|---|---|---|---|\n" + "\n".join(rows) + "\n\n"
d=open('/verif/DESIGN.md').read()
if "### I.4b Measured" in d:
    a=d.index("### I.4b Measured"); b=d.index("Notes on individual oracles")
    d=d[:a]+txt+d[b:]
else:
    b=d.index("Notes on individual oracles")
    d=d[:b]+txt+d[b:]
open('/verif/DESIGN.md','w').write(d)
print(len(rows))
