#!/usr/bin/env python3
"""Rewrites section I.6 of DESIGN.md from /verif/seeded/*/meta.json."""
import json, glob, re
rows = []
for f in sorted(glob.glob('/verif/seeded/*/meta.json')):
    m = json.load(open(f))
    rows.append(m)
out = []
out.append("## I.6 Seeded changes: which check catches which\n")
out.append("Forty property-breaking changes were written by fresh sub-agents that saw only the text of one\nproperty and a scratch worktree of `/repo` (nothing from `/verif`). Each compiles, keeps the repository's own\nsuite green and comes with a demonstration that fails with the change and passes without it; all of\nthat was re-confirmed here with `tools/seedtest.sh` (apply to `/repo`, run suite + demonstration + checks,\nrestore `/repo`). They are kept under `/verif/seeded/<id>/` (`patch.diff`, demonstration, `notes.md`,\n`meta.json`). **Every one of the 40 is reported by the quick tier of the check of the property it breaks**;\n12 were missed at first and led to the strengthening noted in the last column (the alphabets in I §4\nare the strengthened ones). `detected by` lists the checks that were run against the change and reported it\n(the full 40 x 20 matrix was not run).\n")
out.append("| id | change | needs to manifest | detected by | history |")
out.append("|---|---|---|---|---|")
for m in rows:
    out.append("| %s | %s | %s | %s | %s |" % (m['id'], m['change'].replace('|','\\|'), m['needs_to_manifest'].replace('|','\\|'), ", ".join(m['detected_by']), (m.get('history') or '').replace('|','\\|')))
out.append("\nSanity mutations made by hand while building (applied to `/repo`, reported, reverted): `uppercase` trimming its\nsubject (C11), `default_time` keeping the key (C12), `add_pattern` registering in the root scope (C12), removing the\nlinker's `Pop` (C09), dropping the restored call-site position (C09), `newParser` not resetting `errs` (C15),\n`runeTmp` hoisted to package scope (C16: shared-write invariant and race pass), a lazily cached regexp in the\nshared `CallExpr` (C16: shared-write invariant).\n")
txt = "\n".join(out) + "\n"
d = open('/verif/DESIGN.md').read()
a = d.index("## I.6 Seeded changes")
b = d.index("## I.7 Deviations")
d = d[:a] + txt + "\n" + d[b:]
open('/verif/DESIGN.md','w').write(d)
print("rows", len(rows))
