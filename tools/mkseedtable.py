#!/usr/bin/env python3
"""Rewrites section I.6 of DESIGN.md from /verif/seeded/*/meta.json."""
import json, glob, re
rows = []
for f in sorted(glob.glob('/verif/seeded/*/meta.json')):
    m = json.load(open(f))
    rows.append(m)
out = []
out.append("## I.6 Seeded changes: which check catches which\n")
out.append("One hundred property-breaking changes were written by fresh sub-agents that saw only the text of one\nproperty and a scratch worktree of `/repo` (nothing from `/verif`): two per property in a first round, three per\nproperty in a second round in which the agents were also given the first round's ideas as an exclusion list and\nasked for changes that need something specific to manifest. Each compiles, keeps the repository's own\nsuite green and comes with a demonstration that fails with the change and passes without it; all of\nthat was re-confirmed here with `tools/seedtest.sh` (apply to `/repo` or to a scratch clone, run suite +\ndemonstration + checks, restore). They are kept under `/verif/seeded/<id>/` (`patch.diff`, demonstration,\n`notes.md`, `meta.json`).\n\n**Result.** Round 1: 28 of 40 reported at once, 12 after strengthening. Round 2: 30 of 60 reported at once\n(by the check of the property the agent was given), 30 after strengthening — the misses and what they led to\nare in the last column. After strengthening, every one of the 100 is reported by the quick tier of a check;\n97 by the check of the property the agent was given, 3 only by a neighbouring check because the change lies\noutside the property's quantification: C01-4 and C05-4 are data races between concurrent runs / parses (decided\nby C16), C11-5 is a leak between runs (decided by C15 and by C03's canary). `detected by` lists the checks that\nwere run against the change and reported it (the full 100 x 20 matrix was not run).\n\nWhat the misses had in common, and what was generalised from them: (1) state left behind by one run or load\nand consumed by the next *operation of any kind* — hence canary runs with no load in between (C03), later-load\ninvariance (C09, C13), re-check under another table (C08), second run of a loaded script (C04, C19), fresh-process\nbaselines (C15); (2) inputs outside the comfortable alphabet — strings that are not valid UTF-8, CR and CRLF,\nnon-ASCII text before a position, messages containing `%`, symlinks and broken bystanders in a workspace;\n(3) near-miss values — the equality matrix, one-digit hours and negative zones; (4) lock discipline — a write\nunder a read lock is a shared write.\n")
out.append("| id | change | needs to manifest | detected by | history |")
out.append("|---|---|---|---|---|")
for m in rows:
    out.append("| %s | %s | %s | %s | %s |" % (m['id'], m['change'].replace('|','\\|'), m['needs_to_manifest'].replace('|','\\|'), ", ".join(m['detected_by']), (m.get('history') or '').replace('|','\\|')))
out.append("\nSanity mutations made by hand while building (applied to `/repo`, reported, reverted): `uppercase` trimming its\nsubject (C11), `default_time` keeping the key (C12), `add_pattern` registering in the root scope (C12), removing the\nlinker's `Pop` (C09), dropping the restored call-site position (C09), `newParser` not resetting `errs` (C15),\n`runeTmp` hoisted to package scope (C16: shared-write invariant and race pass), a lazily cached regexp in the\nshared `CallExpr` (C16: shared-write invariant).\n")
txt = "\n".join(out) + "\n"
d = open('/verif/DESIGN.md').read()
a = d.index("## I.6 Seeded changes")
b = d.index("## I.7 Deviations")
d = d[:a] + txt + "\n" + d[b:]
open('/verif/DESIGN.md','w').write(d)
print("rows", len(rows))
